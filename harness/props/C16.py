"""C16 - knapsack / bin-packing answers are feasible, scored faithfully, labelled right.

Tie to /repo: solve_knapsack / solve_bin_pack (working tree) are run on generated instances; the same instances
are evaluated by the Gallina models SV.C16.Knapsack (knap_z over Z, knap_q over Q incl. scaling path and greedy
fallback) and SV.C16.BinPack inside coqc (vm_compute) and the public results (selection / assignment, objective,
status, ValueError) must be equal.  Independently (a) a brute-force Python oracle and (b) the Coq boolean spec
checkers knap_check_q / bin_check (proved sound in Coq) judge the IMPLEMENTATION's outputs.
"""
import json
import math
from fractions import Fraction

from harness.core import VERIF, Ctx, cbool, clist, cnat, copt, cq, cz, guarded, pmap

ID = "C16"
ANCHORS = ["solvor/knapsack.py", "solvor/bin_pack.py"]

IMPORTS = "From Coq Require Import QArith.\nFrom SV Require Import C16.KnapCore C16.Knapsack C16.BinPack C16.KnapSpec C16.BinSpec."


# ---------------------------------------------------------------- numbers
def frac(x):
    """Exact rational meant by a harness number: ints as they are, floats by their shortest decimal repr
    (0.1 -> 1/10: decimal inputs are idealised; dyadic floats are exact either way)."""
    if isinstance(x, bool):
        raise TypeError(x)
    if isinstance(x, int):
        return Fraction(x)
    if float(x).is_integer():
        return Fraction(int(x))          # integer-valued floats (also >= 2^53, where repr is not exact) mean themselves
    return Fraction(repr(float(x)))


def is_dyadic(x, bits=12):
    f = frac(x)
    return (1 << bits) % f.denominator == 0 and abs(f) < 1 << 20


def is_intlike(x):
    return frac(x).denominator == 1


def values_exact(values):
    """Sums of these values are computed exactly by the code: Python ints of any size, or floats (dyadic with few bits /
    integral) whose absolute sum stays below 2^53.  Otherwise the objective is a rounded float sum (1e-9 relative)."""
    if all(isinstance(v, int) and not isinstance(v, bool) for v in values):
        return True
    return all(is_dyadic(v, 30) or is_intlike(v) for v in values) and sum(abs(frac(v)) for v in values) < 2**53


# ---------------------------------------------------------------- knapsack generators
EPS = Fraction(1, 10**9)
DEC_W = [0.1, 0.2, 0.25, 0.3, 0.4, 0.5, 0.6, 0.7, 0.75, 0.9, 1.1, 1.5, 1.25, 0.05, 0.15, 2.5]


def gen_knap(rng, cls):
    minimize = rng.random() < 0.3
    if cls == "int":
        n = rng.choice([1, 2, 2, 3, 3, 4, 4, 5, 5, 6, 6, 7, 8, 10, 12])
        wmax = rng.choice([3, 5, 8])
        weights = [0 if rng.random() < 0.12 else rng.randint(1, wmax) for _ in range(n)]
        values = [rng.randint(0, rng.choice([3, 9])) for _ in range(n)]
        r = rng.random()
        if r < 0.12:
            cap = 0
        elif r < 0.45:  # items exactly filling the capacity
            sub = [i for i in range(n) if rng.random() < 0.5]
            cap = sum(weights[i] for i in sub)
        else:
            cap = rng.randint(0, max(1, sum(weights)))
        if rng.random() < 0.15:  # integral floats take the same path
            weights = [float(w) for w in weights]
            cap = float(cap)
        if rng.random() < 0.15:
            values = [float(v) for v in values]
        elif rng.random() < 0.15:
            values = [v + rng.choice([0, 0.5, 0.25]) for v in values]
        return {"kind": "knap", "cls": cls, "values": values, "weights": weights, "capacity": cap, "minimize": minimize}
    if cls == "dyadic":
        n = rng.choice([1, 2, 3, 3, 4, 4, 5, 6])
        g = rng.choice([0.5, 0.25, 0.125])
        weights = [0 if rng.random() < 0.1 else g * rng.randint(1, int(2 / g)) for _ in range(n)]
        values = [rng.randint(0, 9) if rng.random() < 0.8 else rng.randint(0, 18) / 2 for _ in range(n)]
        r = rng.random()
        if r < 0.1:
            cap = rng.choice([0, 0.0, 1 / 2048])     # int_capacity 0 (also through scaling)
        elif r < 0.45:
            sub = [i for i in range(n) if rng.random() < 0.5]
            cap = sum(weights[i] for i in sub)
        else:
            cap = g * rng.randint(0, int(4 / g))
        return {"kind": "knap", "cls": cls, "values": values, "weights": weights, "capacity": cap, "minimize": minimize}
    if cls == "fine":
        # weights with more than three decimals (multiples of 1/2048): truncation by int(w*1000) makes the DP pick
        # sets that are too heavy -> the code's final check -> greedy fallback (status FEASIBLE)
        n = rng.choice([2, 3, 3, 4, 5])
        base = [0.125 * rng.randint(1, 12) for _ in range(n)]
        sub = [i for i in range(n) if rng.random() < 0.6] or [0]
        cap = sum(base[i] for i in sub)
        weights = [b + (rng.choice([1, 1, 2, 3]) / 2048 if rng.random() < 0.6 else 0) for b in base]
        values = [rng.randint(1, 9) for _ in range(n)]
        if rng.random() < 0.2:
            weights[rng.randrange(n)] = 0
        return {"kind": "knap", "cls": cls, "values": values, "weights": weights, "capacity": cap, "minimize": minimize}
    if cls == "decimal":
        n = rng.choice([1, 2, 3, 3, 4, 4, 5, 6])
        weights = [0 if rng.random() < 0.08 else rng.choice(DEC_W) for _ in range(n)]
        values = [rng.randint(0, 9) for _ in range(n)]
        r = rng.random()
        if r < 0.4:
            sub = [i for i in range(n) if rng.random() < 0.5]
            cap = float(sum(frac(weights[i]) for i in sub))      # exact decimal sum, then nearest float
        elif r < 0.5:
            cap = rng.choice([0.0, 0.0004])
        else:
            cap = rng.choice([0.3, 0.5, 1.0, 1.5, 2.0, 2.5, 0.75, 1.2, 3.1])
        return {"kind": "knap", "cls": cls, "values": values, "weights": weights, "capacity": cap, "minimize": minimize}
    if cls == "big":
        # capacity > 100 and not integral: scale = 100000/capacity < 1000
        n = rng.choice([1, 2, 3])
        cap = rng.randint(101, 400) + rng.choice([0.5, 0.25, 0.75, 0.125])
        weights = [rng.choice([0, cap, cap / 2, rng.randint(1, 300) + rng.choice([0, 0.5, 0.25]),
                               rng.randint(1, 200) + rng.randint(0, 511) / 512]) for _ in range(n)]
        weights = [w if frac(w) <= 2 * frac(cap) else 1.5 for w in weights]
        values = [rng.randint(0, 9) for _ in range(n)]
        return {"kind": "knap", "cls": cls, "values": values, "weights": weights, "capacity": cap, "minimize": minimize}
    raise ValueError(cls)


KNAP_EDGE = [
    {"values": [5], "weights": [0], "capacity": 0, "minimize": False},
    {"values": [5, 3], "weights": [0, 0], "capacity": 0, "minimize": False},
    {"values": [5, 3], "weights": [0, 1], "capacity": 0, "minimize": True},
    {"values": [1, 2], "weights": [0.5, 0], "capacity": 0, "minimize": False},
    {"values": [1, 2], "weights": [0.5, 0], "capacity": 1 / 2048, "minimize": False},
    {"values": [], "weights": [], "capacity": 3, "minimize": False},
    {"values": [], "weights": [1], "capacity": -5, "minimize": False},
    {"values": [3, 4, 5], "weights": [2, 3, 4], "capacity": 5, "minimize": False},
    {"values": [3, 4, 5], "weights": [2, 3, 4], "capacity": 5, "minimize": True},
    {"values": [2, 2, 2], "weights": [1, 1, 1], "capacity": 2, "minimize": False},          # ties
    {"values": [4, 2, 2], "weights": [2, 1, 1], "capacity": 2, "minimize": False},          # equal-value alternatives
    {"values": [0, 0], "weights": [0, 1], "capacity": 1, "minimize": False},
    {"values": [1, 2, 3], "weights": [1, 2, 3], "capacity": 6, "minimize": False},          # everything fits exactly
    {"values": [1, 2, 3], "weights": [0.1, 0.2, 0.3], "capacity": 0.3, "minimize": False},
    {"values": [6, 5, 5], "weights": [1.5, 0.75, 0.75], "capacity": 1.5, "minimize": False},
    {"values": [3, 4], "weights": [0.75048828125, 0.75], "capacity": 1.5, "minimize": False},  # -> fallback
    {"values": [3, 4], "weights": [0.75048828125, 0.75], "capacity": 1.5, "minimize": True},
    {"values": [1, 2, 3], "weights": [150.5, 150.25, 150.25], "capacity": 300.5, "minimize": False},
    {"values": [7], "weights": [9], "capacity": 3, "minimize": False},
    {"values": [100, 1, 1], "weights": [99999, 1, 1], "capacity": 100001, "minimize": False},   # integer capacity just above 10^5
    {"values": [7, 5], "weights": [100000, 1], "capacity": 100000, "minimize": False},
    {"values": [2**31, 2**31 + 1, 3], "weights": [1, 1, 1], "capacity": 2, "minimize": False},
    {"values": [2**44 + 1, 2**44], "weights": [2, 2], "capacity": 3, "minimize": True},
    {"values": [3, 4], "weights": [10**18, 2**60 + 1], "capacity": 5, "minimize": False},
    {"values": [1, 2], "weights": [1], "capacity": 3, "minimize": False},                   # ValueError
    {"values": [1, 2], "weights": [1, 1], "capacity": -1, "minimize": False},               # ValueError
    {"values": [1], "weights": [1, 1], "capacity": 1, "minimize": True},                    # ValueError
]


def gen_knap_malformed(rng):
    c = gen_knap(rng, rng.choice(["int", "dyadic"]))
    if rng.random() < 0.5 and c["values"]:
        c["capacity"] = -rng.choice([1, 2, 0.5])
    else:
        c["weights"] = c["weights"] + [1] if rng.random() < 0.5 else c["weights"][:-1]
    c["cls"] = "malformed"
    return c


# ---------------------------------------------------------------- bin packing generators
ALGOS = {
    "first-fit": (False, False), "best-fit": (True, False), "first-fit-decreasing": (False, True),
    "best-fit-decreasing": (True, True), "ff": (False, False), "bf": (True, False), "FF-decreasing": (False, True),
    "Best_Fit_Decreasing": (True, True), "first_fit": (False, False), "BF_DECREASING": (True, True),
}
MAIN_ALGOS = ["first-fit", "best-fit", "first-fit-decreasing", "best-fit-decreasing"]


def parse_algo(name):
    """The code's own parsing (lower, '_'->'-', suffix) - None for a name it rejects."""
    a = name.lower().replace("_", "-")
    dec = a.endswith("-decreasing")
    if dec:
        a = a.replace("-decreasing", "")
    if a not in ("first-fit", "best-fit", "ff", "bf"):
        return None
    return (a in ("best-fit", "bf"), dec)


def gen_bin(rng, cls):
    algo = rng.choice(MAIN_ALGOS) if rng.random() < 0.85 else rng.choice(list(ALGOS))
    n = rng.choice([1, 2, 3, 4, 4, 5, 5, 6, 6, 7, 8, 8, 10, 14])
    if cls == "int":
        cap = rng.choice([1, 2, 3, 5, 7, 10, 10, 12])
        sizes = [0 if rng.random() < 0.1 else rng.randint(1, cap) for _ in range(n)]
        if rng.random() < 0.3:  # pairs that fill a bin exactly
            for i in range(0, n - 1, 2):
                if 0 < sizes[i] < cap:
                    sizes[i + 1] = cap - sizes[i]
        if rng.random() < 0.15:
            sizes = [float(s) for s in sizes]
            cap = float(cap)
    elif cls == "dyadic":
        g = rng.choice([0.5, 0.25, 0.125])
        cap = g * rng.randint(1, int(3 / g))
        m = round(cap / g)
        sizes = [0 if rng.random() < 0.1 else g * rng.randint(1, m) for _ in range(n)]
    else:  # decimal
        cap = rng.choice([1.0, 1.0, 1.5, 0.7, 2.5, 0.3, 1.2])
        pool = [w for w in DEC_W if frac(w) <= frac(cap)]
        sizes = [0 if rng.random() < 0.08 else rng.choice(pool) for _ in range(n)]
        if rng.random() < 0.3:
            for i in range(0, n - 1, 2):
                d = frac(cap) - frac(sizes[i])
                if d > 0:
                    sizes[i + 1] = float(d)
    return {"kind": "bin", "cls": cls, "sizes": sizes, "capacity": cap, "algorithm": algo}


BIN_EDGE = [
    {"sizes": [], "capacity": 5, "algorithm": "best-fit-decreasing"},
    {"sizes": [0, 0], "capacity": 5, "algorithm": "first-fit"},
    {"sizes": [3, 0, 5, 2, 5], "capacity": 5, "algorithm": "ff"},
    {"sizes": [0, 3, 3], "capacity": 5, "algorithm": "best-fit-decreasing"},
    {"sizes": [5, 5, 5], "capacity": 5, "algorithm": "best-fit"},
    {"sizes": [2, 3, 2, 3], "capacity": 5, "algorithm": "first-fit"},
    {"sizes": [4, 3, 2, 1, 3, 2], "capacity": 5, "algorithm": "best-fit"},       # best-fit differs from first-fit
    {"sizes": [4, 3, 2, 1, 3, 2], "capacity": 5, "algorithm": "first-fit"},
    {"sizes": [3, 3, 2, 2, 2, 2], "capacity": 7, "algorithm": "first-fit-decreasing"},   # FFD 3 bins, OPT 2
    {"sizes": [0.1] * 10, "capacity": 1.0, "algorithm": "first-fit"},
    {"sizes": [0.7, 0.3, 0.3, 0.7], "capacity": 1.0, "algorithm": "best-fit"},
    {"sizes": [2**31, 2**31, 1], "capacity": 2**32, "algorithm": "first-fit"},           # third item misses by one unit at 2^32
    {"sizes": [10**18, 1, 10**18 - 1], "capacity": 10**18, "algorithm": "best-fit"},
    {"sizes": [2**53, 2**53 + 1, 1], "capacity": 2**54, "algorithm": "first-fit-decreasing"},
    {"sizes": [6], "capacity": 5, "algorithm": "first-fit"},                      # ValueError
    {"sizes": [1], "capacity": 0, "algorithm": "first-fit"},                      # ValueError
    {"sizes": [1, -1], "capacity": 5, "algorithm": "first-fit"},                  # ValueError
    {"sizes": [1], "capacity": 5, "algorithm": "next-fit"},                       # ValueError (unknown name)
    {"sizes": [1], "capacity": -2, "algorithm": "bf"},                            # ValueError
]


def gen_bin_malformed(rng):
    c = gen_bin(rng, rng.choice(["int", "dyadic"]))
    r = rng.random()
    if not c["sizes"]:
        c["sizes"] = [1]
    if r < 0.3:
        c["capacity"] = rng.choice([0, -1, -0.5])
    elif r < 0.6:
        c["sizes"][rng.randrange(len(c["sizes"]))] = c["capacity"] + rng.choice([1, 0.125])
    elif r < 0.8:
        c["sizes"][rng.randrange(len(c["sizes"]))] = -rng.choice([1, 0.25])
    else:
        c["algorithm"] = rng.choice(["next-fit", "worst-fit", "first-fit-increasing", "decreasing", ""])
    c["cls"] = "malformed"
    return c


# ---------------------------------------------------------------- round-2 families (HARDENING.md classes I S M O A H, L where meaningful)
BIG = [2**31, 10**9, 4_700_000_000, 2**44 + 1, 2**53 - 1, 2**53 + 1, 2**60, 10**18]
SPELLINGS = ["first-fit", "FIRST-FIT", "First_Fit", "ff", "FF", "best-fit", "Best-Fit", "BEST_FIT", "bf", "Bf",
             "first-fit-decreasing", "First_Fit_Decreasing", "FF-DECREASING", "ff_decreasing", "best-fit-decreasing",
             "BEST_FIT_DECREASING", "bf-decreasing", "Bf_Decreasing", "best_fit-decreasing"]
CONTAINERS = ["tuple", "range", "array", "tuple"]


def _k(kind, cls, **kw):
    return {"kind": kind, "cls": cls, **kw}


def gen_knap_r2(rng, fam, thorough=False):
    mz = rng.random() < 0.3
    if fam == "S-cap":
        # integer capacity beyond 10^5 (threshold of the scaling code), a few items that nearly fill it + tiny items
        cap = rng.choice([100000, 100001, 131072, 131073, 200000, rng.randint(100001, 400000)] + ([10**6, 1_000_003] if thorough else []))
        nt = rng.randint(3, 9)
        tiny = [rng.randint(1, rng.choice([1, 2, 5, 9])) for _ in range(nt)]
        r = rng.random()
        if r < 0.5:      # one big item, everything fits exactly or just not
            big = [cap - sum(tiny) + rng.choice([0, 0, 0, 1, -1])]
        elif r < 0.8:    # two big items of which one fits together with the tiny ones
            big = [cap - sum(tiny), cap - rng.randint(0, 3)]
        else:            # unit-weight items only
            big, tiny = [], [1] * rng.randint(5, 12)
        weights = big + tiny
        values = [rng.randint(20, 100) for _ in big] + [rng.randint(1, 5) for _ in tiny]
        order = list(range(len(weights)))
        rng.shuffle(order)
        weights = [weights[i] for i in order]
        values = [values[i] for i in order]
        if rng.random() < 0.2:
            weights = [float(w) for w in weights]
            cap = float(cap)
        return _k("knap", "r2-S-cap", values=values, weights=weights, capacity=cap, minimize=False)
    if fam == "S-n":
        n = rng.choice([13, 17, 33, 65, 129, 257] + ([1025, 2049] if thorough else [513]))
        cap = rng.randint(0, 24)
        weights = [0 if rng.random() < 0.05 else rng.randint(1, rng.choice([3, 8, 30])) for _ in range(n)]
        values = [rng.randint(0, 9) for _ in range(n)]
        if mz:
            values = [v - rng.choice([0, 0, 3]) for v in values]      # some negative values: minimize has work to do
        return _k("knap", "r2-S-n", values=values, weights=weights, capacity=cap, minimize=mz)
    if fam in ("M-val", "M-val-huge"):
        n = rng.randint(2, 7)
        pool = [b for b in BIG if b < 2**49] if fam == "M-val" else BIG
        base = rng.choice(pool)
        values = [base + rng.choice([0, 1, -1, 2, rng.randint(-5, 5)]) if rng.random() < 0.7 else rng.randint(0, 9) for _ in range(n)]
        if fam == "M-val-huge" and not any(v >= 2**53 for v in values):
            values[0] = rng.choice([2**53 + 1, 2**60 + 1, 10**18 + 1])
        weights = [rng.randint(0, 4) for _ in range(n)]
        cap = rng.randint(0, max(1, sum(weights)))
        if fam == "M-val" and rng.random() < 0.3:
            values = [float(v) for v in values]
        return _k("knap", "r2-" + fam, values=values, weights=weights, capacity=cap, minimize=mz)
    if fam == "M-w":
        n = rng.randint(2, 6)
        weights = [rng.choice(BIG) + rng.choice([0, 1]) if rng.random() < 0.4 else rng.randint(0, 5) for _ in range(n)]
        if rng.random() < 0.3:
            weights = [float(w) for w in weights]
        values = [rng.randint(0, 9) for _ in range(n)]
        cap = rng.randint(0, 12)
        return _k("knap", "r2-M-w", values=values, weights=weights, capacity=cap, minimize=mz)
    if fam == "M-capf":
        # huge non-integral capacity: scale = 100000/capacity, weights of the magnitude of the capacity
        K = rng.choice([10**6, 2**31, 10**9, 2**40])
        cap = K + rng.choice([0.5, 0.25, 0.75])
        n = rng.randint(1, 3)
        weights = [rng.choice([cap, float(K // 2), float(K // 3), K / 4 + 0.5, 0, float(K)]) for _ in range(n)]
        values = [rng.randint(0, 9) for _ in range(n)]
        return _k("knap", "r2-M-capf", values=values, weights=weights, capacity=cap, minimize=mz)
    if fam == "M-tol":
        # decimals on a 1e-6 .. 1e-8 grid (coarser than the code's 1e-9 tolerance): an excess of one grid step must count
        n = rng.randint(2, 5)
        base = [rng.choice([0.25, 0.5, 0.75, 0.1, 0.3, 1.0, 0.125]) for _ in range(n)]
        sub = [i for i in range(n) if rng.random() < 0.6] or [0]
        capf = sum(frac(base[i]) for i in sub)
        d = rng.choice([Fraction(1, 10**6), Fraction(1, 10**7), Fraction(1, 10**8)])
        ws = [frac(b) + (d * rng.choice([1, 1, 2, -1]) if rng.random() < 0.5 else 0) for b in base]
        weights = [float(w) for w in ws]
        values = [rng.randint(1, 9) for _ in range(n)]
        return _k("knap", "r2-M-tol", values=values, weights=weights, capacity=float(capf), minimize=mz)
    if fam == "I":
        c = gen_knap(rng, "int")
        how = rng.choice(CONTAINERS)
        if how == "range":
            n = rng.randint(1, 8)
            a, st = rng.randint(0, 4), rng.choice([1, 1, 2])
            c["values"] = list(range(a, a + st * n, st)) if rng.random() < 0.6 else list(range(a + st * (n - 1), a - 1, -st))
            b, st2 = rng.randint(0, 3), rng.choice([1, 1, 2])
            c["weights"] = list(range(b, b + st2 * n, st2))
            c["capacity"] = rng.randint(0, max(1, sum(c["weights"])))
        if how == "array" and rng.random() < 0.5:
            c["values"] = [float(int(frac(v))) for v in c["values"]]
            c["weights"] = [float(int(frac(w))) for w in c["weights"]]
        c["values"] = [int(frac(v)) if how != "array" and frac(v).denominator == 1 else v for v in c["values"]]
        return {**c, "cls": "r2-I", "as": how}
    if fam == "L-mixed":
        c = gen_knap(rng, rng.choice(["int", "dyadic"]))
        c["values"] = [float(v) if rng.random() < 0.5 else v for v in c["values"]]
        c["weights"] = [float(w) if rng.random() < 0.5 else w for w in c["weights"]]
        if rng.random() < 0.5:
            c["capacity"] = float(c["capacity"])
        return {**c, "cls": "r2-L-mixed"}
    if fam == "L-decvals":
        # decimal (non-dyadic) VALUES: the objective is a float sum, judged with the 1e-9 tolerance
        c = gen_knap(rng, rng.choice(["int", "int", "dyadic"]))
        c["values"] = [rng.choice(DEC_W + [0.01, 0.35, 2.2, 3.3, 9.99, 19.99]) if rng.random() < 0.8 else int(frac(v)) if is_intlike(v) else v for v in c["values"]]
        return {**c, "cls": "r2-L-decvals"}
    if fam == "A":
        c = gen_knap(rng, rng.choice(["int", "int", "dyadic", "fine"]))
        r = rng.random()
        if r < 0.4:      # the same object as values and as weights
            c["values"] = list(c["weights"])
            c["alias"] = True
        else:            # earlier calls with the other option on the same objects
            c["pre"] = rng.choice([[not c["minimize"]], [not c["minimize"], c["minimize"]], [True, False, True]])
        return {**c, "cls": "r2-A"}
    if fam == "O":
        c = gen_knap(rng, rng.choice(["int", "dyadic"]))
        c["minimize"] = rng.choice([0, 1, True, False])
        return {**c, "cls": "r2-O"}
    if fam == "H":
        # rare histories of the greedy fallback: under minimize (needs negative values), with free (zero-weight) items,
        # with ties in the ratio order.  Steered by the implementation's own status (rejection sampling).
        from solvor.knapsack import solve_knapsack
        mode = rng.choice(["minimize", "free-item", "ratio-tie", "free-item+minimize"])
        c = None
        for _ in range(30):
            c = gen_knap(rng, "fine")
            n = len(c["values"])
            j = rng.randrange(n)
            c["minimize"] = "minimize" in mode
            if c["minimize"]:
                c["values"] = [-v for v in c["values"]]
            if "free-item" in mode:
                c["weights"][j] = 0
            if mode == "ratio-tie" and n > 1:
                k2 = (j + 1) % n
                c["values"][k2], c["weights"][k2] = c["values"][j], c["weights"][j]
            r = guarded(solve_knapsack, list(c["values"]), list(c["weights"]), c["capacity"], minimize=c["minimize"], timeout=5)
            if r[0] == "ok" and r[1].status.name == "FEASIBLE":
                break
        return {**c, "cls": "r2-H"}
    raise ValueError(fam)


def gen_bin_r2(rng, fam, thorough=False):
    algo = rng.choice(MAIN_ALGOS)
    if fam == "M-int":
        # a small integer instance blown up to 2^31 .. 10^18, then nudged by a few units: exact fills become near misses
        c = gen_bin(rng, "int")
        cap, sizes = int(frac(c["capacity"])), [int(frac(x)) for x in c["sizes"]][:8]
        K = rng.choice(BIG)
        cap, sizes = cap * K, [x * K for x in sizes]
        for i in range(len(sizes)):
            if sizes[i] > 0 and rng.random() < 0.5:
                sizes[i] = min(cap, max(1, sizes[i] + rng.choice([1, 2, 3, -1, -2, rng.randint(-5, 5)])))
        if rng.random() < 0.4 and len(sizes) < 8:
            sizes.append(rng.randint(1, 5))
        as_float = rng.random() < 0.3 and cap * (len(sizes) + 1) < 2**53
        if as_float:
            sizes, cap = [float(x) for x in sizes], float(cap)
        return _k("bin", "r2-M-int", sizes=sizes, capacity=cap, algorithm=algo)
    if fam == "M-tol":
        cap = rng.choice([1.0, 1.5, 0.5, 2.0, 0.3])
        n = rng.randint(2, 7)
        d = rng.choice([Fraction(1, 10**6), Fraction(1, 10**7), Fraction(1, 10**8)])
        sizes = []
        while len(sizes) < n:
            a = frac(rng.choice([x for x in (0.25, 0.5, 0.1, 0.2, 0.3, 0.75, 0.125) if frac(x) < frac(cap)]))
            b = frac(cap) - a + d * rng.choice([0, 1, 1, 2, -1])       # the partner fits exactly / misses by one grid step
            sizes += [float(a), float(min(b, frac(cap)))]
        return _k("bin", "r2-M-tol", sizes=sizes[:n], capacity=cap, algorithm=algo)
    if fam == "M-tiny":
        u = rng.choice([Fraction(1, 10**6), Fraction(1, 10**5)])
        capu = rng.choice([15, 10, 12, 3])
        n = rng.randint(2, 7)
        sizes = [float(u * rng.randint(1, capu * 10) / 10) for _ in range(n)]
        sizes = [x if frac(x) <= u * capu else float(u * capu) for x in sizes]
        return _k("bin", "r2-M-tiny", sizes=sizes, capacity=float(u * capu), algorithm=algo)
    if fam == "S-n":
        n = rng.choice([17, 33, 65, 129, 257] + ([1025, 2049, 20001, 65537] if thorough else [513, 1025]))
        r = rng.random()
        if n > 2049:         # keep items x bins affordable: unit sizes, few bins
            cap = 1000; sizes = [1] * n; ek = -(-n // cap)
        elif r < 0.25:
            cap = rng.choice([10, 2, 2**31 * 2]); sizes = [cap // 2] * n; ek = (n + 1) // 2
        elif r < 0.5:
            cap = rng.choice([10, 1000 if n > 5000 else 7]); sizes = [1] * n; ek = -(-n // cap)
        elif r < 0.65:
            cap = 10; sizes = [7, 3] * (n // 2); ek = n // 2
        elif r < 0.75:
            cap = rng.choice([5, 10**9]); sizes = [cap] * min(n, 513); ek = len(sizes)
        else:
            cap = rng.choice([10, 12, 100]); sizes = [0 if rng.random() < 0.03 else rng.randint(1, cap) for _ in range(min(n, 1025))]; ek = None
        c = _k("bin", "r2-S-n", sizes=sizes, capacity=cap, algorithm=algo)
        if ek is not None:
            c["expect_k"] = ek
        return c
    if fam == "I":
        c = gen_bin(rng, "int")
        how = rng.choice(CONTAINERS)
        c["sizes"] = [int(frac(x)) for x in c["sizes"]]
        c["capacity"] = int(frac(c["capacity"]))
        if how == "range":
            n = rng.randint(1, 8)
            a, st = rng.randint(0, 2), rng.choice([1, 1, 2])
            c["sizes"] = list(range(a, a + st * n, st))
            c["capacity"] = max(c["sizes"] + [1]) + rng.randint(0, 3)
        if how == "array" and rng.random() < 0.5:
            c["sizes"] = [float(x) for x in c["sizes"]]
        return {**c, "cls": "r2-I", "as": how}
    if fam == "L-mixed":
        c = gen_bin(rng, rng.choice(["int", "dyadic"]))
        c["sizes"] = [float(x) if rng.random() < 0.5 else x for x in c["sizes"]]
        return {**c, "cls": "r2-L-mixed"}
    if fam == "A":
        c = gen_bin(rng, rng.choice(["int", "dyadic", "decimal"]))
        pre = list(MAIN_ALGOS)
        rng.shuffle(pre)
        c["pre"] = pre[: rng.randint(1, 4)]
        return {**c, "cls": "r2-A" if c["cls"] != "decimal" else "r2-A-decimal"}
    if fam == "H":
        # rare histories: a zero-size item is processed first (opens bin 0 itself), only zero sizes, a best-fit tie
        c = gen_bin(rng, "int")
        r = rng.random()
        if r < 0.4 and c["sizes"]:
            c["sizes"][0] = 0
            c["algorithm"] = rng.choice(["first-fit", "best-fit"])
        elif r < 0.55:
            c["sizes"] = [0] * len(c["sizes"])
        else:
            cap = int(frac(c["capacity"]))
            if cap >= 3:
                c["sizes"] = [cap - 1, cap - 1, cap - 2, 1, 1, 2][: rng.randint(4, 6)]      # several bins with equal remaining space
                c["algorithm"] = rng.choice(["best-fit", "best-fit-decreasing"])
        return {**c, "cls": "r2-H"}
    raise ValueError(fam)


def spelling_sweep(rng):
    """Class O: every spelling of the algorithm option on a few instances (they must behave as the canonical name)."""
    out = []
    for _ in range(2):
        c = gen_bin(rng, rng.choice(["int", "dyadic"]))
        for sp in SPELLINGS:
            out.append({**c, "cls": "r2-O-spelling", "algorithm": sp})
    return out


R2_KNAP = [("S-cap", 14, 60), ("S-n", 12, 60), ("M-val", 24, 300), ("M-val-huge", 12, 150), ("M-w", 16, 200), ("M-capf", 6, 30),
           ("M-tol", 30, 400), ("I", 24, 300), ("L-mixed", 20, 300), ("L-decvals", 30, 400), ("A", 30, 400), ("O", 12, 100), ("H", 40, 600)]
R2_BIN = [("M-int", 60, 900), ("M-tol", 30, 400), ("M-tiny", 16, 200), ("S-n", 12, 50), ("I", 24, 300), ("L-mixed", 20, 300),
          ("A", 30, 400), ("H", 40, 600)]


def bin_exact(c):
    """The float run computes exactly: Python ints of any size, or floats whose sums stay below 2^53 / dyadic."""
    xs = list(c["sizes"]) + [c["capacity"]]
    if all(isinstance(x, int) and not isinstance(x, bool) for x in xs):
        return True
    if all(is_intlike(x) for x in xs):
        return sum(abs(frac(x)) for x in xs) < 2**53
    return all(is_dyadic(x) for x in xs)


# ---------------------------------------------------------------- implementation runs
def _as_container(xs, how):
    """Class I: the API takes Sequences - lists, tuples, ranges and typed arrays must behave alike."""
    xs = list(xs)
    if how == "tuple":
        return tuple(xs)
    if how == "range" and xs and all(isinstance(x, int) and not isinstance(x, bool) for x in xs):
        step = (xs[1] - xs[0]) if len(xs) > 1 else 1
        if step != 0:
            r = range(xs[0], xs[0] + step * len(xs), step)
            if list(r) == xs:
                return r
    if how == "array" and xs:
        from array import array
        if all(isinstance(x, int) and not isinstance(x, bool) and abs(x) < 2**62 for x in xs):
            return array("q", xs)
        if all(isinstance(x, float) for x in xs):
            return array("d", xs)
    return xs


def _snap(seq):
    return (type(seq).__name__, [repr(x) for x in seq])


def knap_cells(c):
    """Upper estimate of the DP table size the code builds (items x capacity columns)."""
    try:
        fcap = frac(c["capacity"])
        pos = [fcap] + [frac(w) for w in c["weights"] if frac(w) > 0]
        cols = int(fcap) if all(x.denominator == 1 for x in pos) else min(100000, int(fcap * 1000) + 1)
        return len(c["values"]) * (max(cols, 0) + 1)
    except Exception:  # noqa: BLE001
        return 0


def run_knap_impl(c):
    from solvor.knapsack import solve_knapsack

    def canon(res):
        sol = res.solution
        if any(not isinstance(i, int) or isinstance(i, bool) for i in sol):
            raise ValueError(f"non-int index in {sol!r}")
        o = res.objective
        return ([int(i) for i in sol], o if isinstance(o, float) and not math.isfinite(o) else frac(o), res.status.name)

    if "init" in c:                        # class A2: a first call, then the caller's lists are edited IN PLACE to the final input
        from harness.props.C16_r3 import edit_in_place
        ini = c["init"]
        vals, ws = list(ini["values"]), list(ini["weights"])
        guarded(solve_knapsack, vals, ws, ini["capacity"], minimize=ini["minimize"], timeout=20)
        edit_in_place(vals, list(c["values"]))
        edit_in_place(ws, list(c["weights"]))
    else:
        vals = _as_container(c["values"], c.get("as", "list"))
        ws = vals if c.get("alias") else _as_container(c["weights"], c.get("as", "list"))
    before = (_snap(vals), _snap(ws))
    light = knap_cells(c) <= 60000
    for pre in c.get("pre", []):          # class A: earlier calls on the same objects with other options
        guarded(solve_knapsack, vals, ws, c["capacity"], minimize=pre, timeout=20)
    r = guarded(solve_knapsack, vals, ws, c["capacity"], minimize=c["minimize"], timeout=c.get("timeout", 30))
    if (_snap(vals), _snap(ws)) != before:
        return ("bad", f"solve_knapsack modified its inputs: {before} -> {(_snap(vals), _snap(ws))}")
    if r[0] != "ok":
        return r
    try:
        out = canon(r[1])
    except Exception as e:  # noqa: BLE001
        return ("bad", f"uncanonicalisable result {r[1]!r}: {e}")
    if "init" in c:                        # class A2: the answer on the edited objects equals the answer of a fresh call on copies
        rf = guarded(solve_knapsack, list(c["values"]), list(c["weights"]), c["capacity"], minimize=c["minimize"], timeout=30)
        try:
            outf = canon(rf[1]) if rf[0] == "ok" else rf
        except Exception as e:  # noqa: BLE001
            outf = ("bad", str(e))
        if outf != out:
            return ("bad", f"after an earlier call on {c['init']!r} and in-place edits the answer is {out!r}; a fresh call on a copy of the same input gives {outf!r}")
    if light:                              # class A: the same call again on the same objects gives the same answer
        r2 = guarded(solve_knapsack, vals, ws, c["capacity"], minimize=c["minimize"], timeout=30)
        try:
            out2 = canon(r2[1]) if r2[0] == "ok" else r2
        except Exception as e:  # noqa: BLE001
            out2 = ("bad", str(e))
        if out2 != out:
            return ("bad", f"second identical call differs: {out!r} then {out2!r}")
        if (_snap(vals), _snap(ws)) != before:
            return ("bad", "solve_knapsack modified its inputs on the second call")
    return ("ok", out)


def run_bin_impl(c):
    from solvor.bin_pack import solve_bin_pack

    def canon(res):
        if any(not isinstance(b, int) or isinstance(b, bool) for b in res.solution):
            raise ValueError(f"non-int bin in {res.solution!r}")
        return ([int(b) for b in res.solution], frac(res.objective), res.status.name)

    if "init" in c:
        from harness.props.C16_r3 import edit_in_place
        ini = c["init"]
        sizes = list(ini["sizes"])
        guarded(solve_bin_pack, sizes, ini["capacity"], algorithm=ini["algorithm"], timeout=10)
        if c.get("call_lower_bound"):
            from solvor import bin_pack as _bp
            if hasattr(_bp, "lower_bound"):
                guarded(_bp.lower_bound, sizes, ini["capacity"], timeout=5)
        edit_in_place(sizes, list(c["sizes"]))
    else:
        sizes = _as_container(c["sizes"], c.get("as", "list"))
    before = _snap(sizes)
    light = len(c["sizes"]) <= 300
    for pre in c.get("pre", []):
        guarded(solve_bin_pack, sizes, c["capacity"], algorithm=pre, timeout=10)
    algo = "".join(list(c["algorithm"])) if isinstance(c["algorithm"], str) else c["algorithm"]     # equal, not identical, string object
    r = guarded(solve_bin_pack, sizes, c["capacity"], algorithm=algo, timeout=c.get("timeout", 30))
    if _snap(sizes) != before:
        return ("bad", f"solve_bin_pack modified its input: {before} -> {_snap(sizes)}")
    if r[0] != "ok":
        return r
    try:
        out = canon(r[1])
    except Exception as e:  # noqa: BLE001
        return ("bad", f"uncanonicalisable result {r[1]!r}: {e}")
    if "init" in c:
        rf = guarded(solve_bin_pack, list(c["sizes"]), c["capacity"], algorithm=c["algorithm"], timeout=20)
        try:
            outf = canon(rf[1]) if rf[0] == "ok" else rf
        except Exception as e:  # noqa: BLE001
            outf = ("bad", str(e))
        if outf != out:
            return ("bad", f"after an earlier call on {c['init']!r} and in-place edits the answer is {out!r}; a fresh call on a copy of the same input gives {outf!r}")
    if light:
        r2 = guarded(solve_bin_pack, sizes, c["capacity"], algorithm=c["algorithm"], timeout=20)
        try:
            out2 = canon(r2[1]) if r2[0] == "ok" else r2
        except Exception as e:  # noqa: BLE001
            out2 = ("bad", str(e))
        if out2 != out:
            return ("bad", f"second identical call differs: {out!r} then {out2!r}")
        if _snap(sizes) != before:
            return ("bad", "solve_bin_pack modified its input on the second call")
    return ("ok", out)


def _run_case(c):
    return run_knap_impl(c) if c["kind"] == "knap" else run_bin_impl(c)


# ---------------------------------------------------------------- independent oracles (the property itself)
def knap_should_raise(c):
    if len(c["values"]) == 0:
        return False
    return len(c["weights"]) != len(c["values"]) or frac(c["capacity"]) < 0


def oracle_knap(c, out):
    """None if the outcome obeys the property, else (clause, text).  Exact rational arithmetic."""
    if knap_should_raise(c):
        if out[0] == "exc" and out[1] == "ValueError":
            return None
        return ("validation", f"malformed input accepted / wrong error: {out!r}")
    if out[0] != "ok":
        return ("crash", f"valid input -> {out!r}")
    sel, obj, status = out[1]
    vals = [frac(v) for v in c["values"]]
    n = len(vals)
    if n == 0:
        return None if (sel == [] and obj == 0 and status == "OPTIMAL") else ("empty", f"{out[1]!r}")
    ws = [frac(w) for w in c["weights"]]
    cap = frac(c["capacity"])
    if any(not (0 <= i < n) for i in sel):
        return ("index-range", f"selection {sel}")
    if len(set(sel)) != len(sel):
        return ("distinct", f"selection {sel}")
    if sel != sorted(sel):
        return ("sorted", f"selection {sel}")
    tw = sum(ws[i] for i in sel)
    if tw > cap:
        return ("capacity", f"selection {sel} weighs {tw} > capacity {cap}")
    vtol = Fraction(0) if values_exact(c["values"]) else EPS * max(1, sum(abs(v) for v in vals))
    if abs(obj - sum(vals[i] for i in sel)) > vtol:       # exact, except for non-dyadic decimal values (float sum: 1e-9 relative)
        return ("objective", f"objective {obj} != sum of selected values {sum(vals[i] for i in sel)}")
    if status not in ("OPTIMAL", "FEASIBLE"):
        return ("status", status)
    integral_w = all(w.denominator == 1 for w in ws) and cap.denominator == 1
    if status == "OPTIMAL" and all(w >= 0 for w in ws) and (n <= 12 or (integral_w and cap <= 20000)):
        if n <= 12:
            best = _knap_best(vals, ws, cap, c["minimize"])
            if integral_w and cap <= 300 and n <= 9 and _knap_ref(vals, ws, cap, c["minimize"]) != best:
                return ("oracle-bug", "reference DP and brute force disagree")
        else:
            best = _knap_ref(vals, ws, cap, c["minimize"])
        worse = obj > best + vtol if c["minimize"] else obj < best - vtol
        if worse:
            return ("optimal-int" if integral_w else "optimal-decimal",
                    f"labelled OPTIMAL with objective {obj}, but a subset within capacity has value {best}")
    return None


def _knap_best(vals, ws, cap, minimize):
    n = len(vals)
    best = Fraction(0)
    for mask in range(1 << n):
        w = 0
        v = 0
        for i in range(n):
            if mask >> i & 1:
                w += ws[i]
                v += vals[i]
        if w <= cap and ((v < best) if minimize else (v > best)):
            best = v
    return best


def _knap_ref(vals, ws, cap, minimize):
    """Independent reference for many items, integer weights: best value per exact total weight (sparse table)."""
    sgn = -1 if minimize else 1
    best = {0: Fraction(0)}
    cap = int(cap)
    for v, w in zip(vals, ws):
        w = int(w)
        if w > cap:
            continue
        new = dict(best)
        for tw, tv in best.items():
            t = tw + w
            if t <= cap and (t not in new or sgn * (tv + v) > sgn * new[t]):
                new[t] = tv + v
        best = new
    return sgn * max(sgn * x for x in best.values())


def bin_should_raise(c):
    if len(c["sizes"]) == 0:
        return False
    cap = frac(c["capacity"])
    if cap <= 0:
        return True
    if any(frac(s) > cap or frac(s) < 0 for s in c["sizes"]):
        return True
    return parse_algo(c["algorithm"]) is None


def _bin_opt(sizes, cap):
    """Minimum number of bins by exhaustive search (items with size 0 need a bin too)."""
    items = sorted(sizes, reverse=True)
    best = [len(items)]

    def rec(i, loads):
        if len(loads) >= best[0]:
            return
        if i == len(items):
            best[0] = len(loads)
            return
        s = items[i]
        seen = set()
        for b in range(len(loads)):
            if loads[b] + s <= cap and loads[b] not in seen:
                seen.add(loads[b])
                loads[b] += s
                rec(i + 1, loads)
                loads[b] -= s
        loads.append(s)
        rec(i + 1, loads)
        loads.pop()

    if items:
        rec(0, [])
    return best[0]


def oracle_bin(c, out, stats=None):
    if bin_should_raise(c):
        if out[0] == "exc" and out[1] == "ValueError":
            return None
        return ("validation", f"malformed input accepted / wrong error: {out!r}")
    if out[0] != "ok":
        return ("crash", f"valid input -> {out!r}")
    asg, k, status = out[1]
    sizes = [frac(s) for s in c["sizes"]]
    n = len(sizes)
    cap = frac(c["capacity"]) if n else Fraction(1)
    if len(asg) != n:
        return ("partition", f"{len(asg)} assignments for {n} items")
    if k.denominator != 1 or k < 0:
        return ("objective", f"objective {k}")
    k = int(k)
    if any(not (0 <= b < k) for b in asg):
        return ("numbering", f"assignment {asg} outside 0..{k - 1}")
    if set(asg) != set(range(k)):
        return ("numbering", f"bins used {sorted(set(asg))} but objective {k}")
    loads = [Fraction(0)] * k
    for i in range(n):
        loads[asg[i]] += sizes[i]
    for b, ld in enumerate(loads):
        if ld > cap + EPS:        # the code's fit test has the absolute tolerance _EPS = 1e-9
            return ("capacity", f"bin {b} holds {ld} > {cap} (+1e-9)")
    if k * cap < sum(sizes):
        return ("lower-bound", f"{k} bins cannot hold total {sum(sizes)}")
    if status not in ("OPTIMAL", "FEASIBLE"):
        return ("status", status)
    if n == 0:
        return None if status == "OPTIMAL" and k == 0 else ("empty", f"{out[1]!r}")
    if c.get("expect_k") is not None and k != c["expect_k"]:
        return ("by-construction", f"{k} bins, but this instance is packed into exactly {c['expect_k']} bins by every one of the four heuristics")
    if n <= 8:
        opt = _bin_opt(sizes, cap)
        if stats is not None:
            stats.append((k, opt))
        if k < opt:
            return ("oracle", f"k={k} below brute-force optimum {opt}")
        if status == "OPTIMAL" and k != opt:
            return ("optimal", f"labelled OPTIMAL with {k} bins, optimum is {opt}")
        _, dec = parse_algo(c["algorithm"])
        if dec and 9 * k > 11 * opt + 6:
            return ("11/9", f"decreasing variant used {k} bins, optimum {opt}: above 11/9 OPT + 6/9")
    elif status == "OPTIMAL" and k > 1 and (k - 1) * cap >= sum(sizes):
        # too many items for the brute-force optimum: k is provably minimal only if it meets the bound ceil(total/capacity)
        return ("optimal", f"labelled OPTIMAL with {k} bins, above the lower bound ceil(total/capacity)")
    return None


# ---------------------------------------------------------------- Coq terms
def cstatus(s):
    return s if s in ("OPTIMAL", "FEASIBLE") else "FEASIBLE"


def cnats(xs):
    """A list of nat.  Unary literals are written out by coqc constructor by constructor (thousands of indices around 2500
    made a 12 MB term and minutes of elaboration), so long lists are emitted in binary and converted inside vm_compute."""
    if sum(xs) <= 20000:
        return clist(xs, cnat)
    return f"(List.map Z.to_nat {clist(xs, cz)})"


def knap_obs_q(out):
    if out[0] == "exc" and out[1] == "ValueError":
        return "None"
    if out[0] != "ok" or out[1][2] not in ("OPTIMAL", "FEASIBLE"):
        return None
    sel, obj, st = out[1]
    if any(i < 0 or i > 200000 for i in sel):
        return None
    return f"(Some ({cnats(sel)}, {cq(obj)}, {st}))"


def knap_obs_z(out):
    if out[0] == "exc" and out[1] == "ValueError":
        return "None"
    if out[0] != "ok" or out[1][2] not in ("OPTIMAL", "FEASIBLE"):
        return None
    sel, obj, st = out[1]
    if obj.denominator != 1 or any(i < 0 or i > 200000 for i in sel):
        return None
    return f"(Some ({cnats(sel)}, {cz(int(obj))}, {st}))"


def knap_in_q(c):
    return f"({clist(c['values'], lambda x: cq(frac(x)))}, {clist(c['weights'], lambda x: cq(frac(x)))}, {cq(frac(c['capacity']))}, {cbool(c['minimize'])})"


def knap_in_z(c):
    return f"({clist(c['values'], lambda x: cz(frac(x)))}, {clist(c['weights'], lambda x: cz(frac(x)))}, {cz(frac(c['capacity']))}, {cbool(c['minimize'])})"


def bin_obs(out):
    if out[0] == "exc" and out[1] == "ValueError":
        return "None"
    if out[0] != "ok" or out[1][2] not in ("OPTIMAL", "FEASIBLE"):
        return None
    asg, k, st = out[1]
    if k.denominator != 1 or not (0 <= k <= 5000) or any(b < 0 or b > 5000 for b in asg):
        return None
    return f"(Some ({cnats(asg)}, {cnat(int(k))}, {st}))"


def bin_in(c, with_algo=True):
    s = f"{clist(c['sizes'], lambda x: cq(frac(x)))}, {cq(frac(c['capacity']))}"
    if with_algo:
        bf, dec = parse_algo(c["algorithm"])
        return f"({s}, {cbool(bf)}, {cbool(dec)})"
    return f"({s})"


KNAP_Q_T = "(list Q * list Q * Q * bool) * qobs"
KNAP_Q_CHK = "fun c => let '(v, w, cp, m) := fst c in qobs_eqb (qobs_of (knap_q v w cp m)) (snd c)"
KNAP_Q_SPEC = "fun c => let '(v, w, cp, m) := fst c in knap_check_q v w cp (snd c)"
KNAP_Z_T = "(list Z * list Z * Z * bool) * zobs"
KNAP_Z_CHK = "fun c => let '(v, w, cp, m) := fst c in zobs_eqb (zobs_of (knap_z v w cp m)) (snd c)"
BIN_T = "(list Q * Q * bool * bool) * bobs"
BIN_CHK = "fun c => let '(s, cp, bf, dec) := fst c in bobs_eqb (bobs_of (bin_pack tol s cp bf dec)) (snd c)"
BIN_SPEC_T = "(list Q * Q) * bobs"
BIN_SPEC = "fun c => let '(s, cp) := fst c in bin_check 0 s cp (snd c)"


# ---------------------------------------------------------------- float idealisation guards
def knap_float_safe(c, out):
    """True when the float run of solve_knapsack takes the decisions of exact arithmetic on the idealised decimal
    inputs, as far as that can be decided cheaply: all-dyadic inputs with scale 1 or 1000 are exact; otherwise the
    scaled integers (int_capacity, int_weights) computed in floats must equal the exact ones, the final check's
    margin must not be tiny, and the greedy fallback (float divisions and running subtraction) is not compared."""
    vals, ws, cap = c["values"], c["weights"], c["capacity"]
    if not all(is_dyadic(v) for v in vals):
        pyint = all(isinstance(v, int) and not isinstance(v, bool) for v in vals)     # int table since fix 68f8f3b: exact at any size
        if not pyint and not (all(is_intlike(v) for v in vals) and sum(abs(frac(v)) for v in vals) < 2**53):
            return False              # float values: sums from 2^53 on are rounded (outside the model)
    fws = [frac(w) for w in ws]
    fcap = frac(cap)
    pos = [fcap] + [w for w in fws if w > 0]
    if all(x.denominator == 1 for x in pos) and fcap < 1 << 40:
        return True                       # integer path: weights beyond the capacity never matter, whatever their size
    dy = all(is_dyadic(w) for w in ws) and is_dyadic(cap)
    if dy and fcap <= 100:
        return True                       # scale == 1000.0 exactly, products and sums of dyadics exact
    if fcap <= 0:
        return dy
    # float vs exact scaled integers
    fl_scale = min(100000 / float(cap), 1000.0)
    ex_scale = min(Fraction(100000) / fcap, Fraction(1000))
    if int(float(cap) * fl_scale) != int(fcap * ex_scale):
        return False
    for w, fw in zip(ws, fws):
        if fw > 0 and max(1, int(float(w) * fl_scale)) != max(1, int(fw * ex_scale)):
            return False
    if out[0] != "ok":
        return True
    sel, _, st = out[1]
    if st != "OPTIMAL":
        return dy                          # fallback: ratios / running subtraction exact only for dyadics
    margin = fcap + Fraction(1, 10**9) - sum(fws[i] for i in sel if 0 <= i < len(fws))
    return abs(margin) > Fraction(1, 10**7) or dy


def scaled_bin_case(c):
    """The same instance with sizes and capacity multiplied by their common denominator: the code then computes
    in exact integer arithmetic, and the algorithm only compares sums/differences, so decisions are those of exact
    arithmetic on the decimal instance."""
    fr = [frac(s) for s in c["sizes"]] + [frac(c["capacity"])]
    d = 1
    for f in fr:
        d = d * f.denominator // _gcd(d, f.denominator)
    return {**c, "sizes": [int(f * d) for f in fr[:-1]], "capacity": int(fr[-1] * d), "cls": c["cls"] + "-scaled"}


def _gcd(a, b):
    while b:
        a, b = b, a % b
    return a


def knap_model_cost(c):
    """List cells the Gallina model touches (items x (capacity columns + shift of the item's integer weight)); the
    integer weights become unary nat in the model, so huge weights must not be sent to coqc at all."""
    try:
        fcap = frac(c["capacity"])
        fws = [frac(w) for w in c["weights"]]
        if fcap < 0 or len(fws) != len(c["values"]):
            return 0
        pos = [fcap] + [w for w in fws if w > 0]
        if all(x.denominator == 1 for x in pos):
            cols, scale = int(fcap), Fraction(1)
        elif fcap <= 0:
            cols, scale = 0, Fraction(1)
        else:
            scale = min(Fraction(100000) / fcap, Fraction(1000))
            cols = int(fcap * scale)
        cost = 0
        for w in fws:
            iw = max(1, int(w * scale)) if w > 0 else 0
            if iw > 400000:
                return 10**12
            cost += cols + 1 + iw
        return cost
    except Exception:  # noqa: BLE001
        return 10**12


def knap_events(c, out):
    ev = []
    if out[0] != "ok" or len(c["values"]) != len(c["weights"]) or not c["values"]:
        return ev
    sel, _, st = out[1]
    n = len(c["values"])
    fws = [frac(w) for w in c["weights"]]
    fcap = frac(c["capacity"])
    integral = all(x.denominator == 1 for x in [fcap] + [w for w in fws if w > 0])
    if st == "FEASIBLE":
        ev.append("fallback")
        if c["minimize"]:
            ev.append("fallback+minimize")
        if any(w == 0 for w in fws):
            ev.append("fallback+free-item")
        rs = [frac(v) / w for v, w in zip(c["values"], fws) if w > 0]
        if len(set(rs)) < len(rs):
            ev.append("fallback+ratio-tie")
    ev.append("integer-path" if integral else ("scale<1000" if fcap > 100 else "scale=1000"))
    if integral and fcap > 100000:
        ev.append("integer-capacity>1e5")
    if fcap == 0:
        ev.append("capacity-0")
    if len(sel) == n:
        ev.append("all-selected")
    if not sel:
        ev.append("none-selected")
    if sel and sum(fws[i] for i in sel) == fcap:
        ev.append("exact-fill")
    if n > 12:
        ev.append("n>12")
    if any(abs(frac(v)) >= 2**53 for v in c["values"]):
        ev.append("value>=2^53")
    return ev


def bin_events(c, out):
    ev = []
    if out[0] != "ok" or not c["sizes"]:
        return ev
    asg, k, st = out[1]
    sizes = [frac(x) for x in c["sizes"]]
    cap = frac(c["capacity"])
    pa = parse_algo(c["algorithm"])
    if pa is None:
        return ev
    first = max(range(len(sizes)), key=lambda i: (sizes[i], -i)) if pa[1] else 0
    if sizes[first] == 0:
        ev.append("zero-size-item-opens-bin-0")
    if any(x == 0 for x in sizes):
        ev.append("zero-size-item")
    k = int(k)
    loads = [Fraction(0)] * max(k, 0)
    for i, b in enumerate(asg):
        if 0 <= b < k:
            loads[b] += sizes[i]
    if any(ld == cap for ld in loads):
        ev.append("exactly-full-bin")
    lb = max(1, -(-sum(sizes) // cap))
    ev.append("k=lower-bound" if k == lb else "k>lower-bound")
    if cap >= 2**31:
        ev.append("capacity>=2^31")
    if len(sizes) > 256:
        ev.append("n>256")
    return ev


# ---------------------------------------------------------------- the check
def _corpus():
    out = []
    d = VERIF / "corpus" / "C16"
    if d.exists():
        for f in sorted(d.glob("*.json")):
            o = json.loads(f.read_text())
            o.setdefault("cls", "corpus")
            out.append(o)
    return out


def _nontrivial_knap(c, out):
    if out[0] != "ok":
        return False
    sel, _, _ = out[1]
    n = len(c["values"])
    return n >= 2 and 0 < len(sel) < n or (out[1][2] == "FEASIBLE")


def _key(c):
    return json.dumps({k: v for k, v in c.items() if k != "cls"}, sort_keys=True)


def shrink_knap(c, clause):
    """Drop items while the same clause still fails."""
    import time
    cur = dict(c)
    changed = True
    t_end = time.time() + (8 if len(c["values"]) <= 64 else 3)
    while changed and len(cur["values"]) > 1 and len(cur["values"]) == len(cur["weights"]) and time.time() < t_end:
        changed = False
        for i in range(len(cur["values"])):
            if time.time() > t_end:
                break
            t = dict(cur, values=cur["values"][:i] + cur["values"][i + 1:], weights=cur["weights"][:i] + cur["weights"][i + 1:])
            bad = oracle_knap(t, run_knap_impl(t))
            if bad and bad[0] == clause:
                cur, changed = t, True
                break
    return cur


def shrink_bin(c, clause):
    import time
    cur = {k: v for k, v in c.items() if k != "expect_k"}
    if c.get("expect_k") is not None:
        return c                               # the by-construction count belongs to the whole instance
    changed = True
    t_end = time.time() + (8 if len(c["sizes"]) <= 64 else 3)
    while changed and len(cur["sizes"]) > 1 and time.time() < t_end:
        changed = False
        for i in range(len(cur["sizes"])):
            if time.time() > t_end:
                break
            t = dict(cur, sizes=cur["sizes"][:i] + cur["sizes"][i + 1:])
            bad = oracle_bin(t, run_bin_impl(t))
            if bad and bad[0] == clause:
                cur, changed = t, True
                break
    return cur


def run(ctx: Ctx):
    ctx.rule = ("knapsack: n<=12 items, classes int / dyadic / fine-dyadic (forces the greedy fallback) / decimal / capacity>100 "
                "(scale<1000), zero weights, capacity 0, exact fills, ties, minimize 30%; bin packing: n<=14, int / dyadic / decimal "
                "sizes, zero sizes, exact fills, four heuristics + name aliases; plus malformed inputs (ValueError expected). "
                "round-2 families: integer capacities beyond 10^5, 13..2049 items (independent sparse reference DP), values/weights/capacities "
                "at 2^31..10^18, decimals one 1e-6..1e-8 grid step off an exact fill, bin packing blown up to 2^31..10^18 and nudged by units, "
                "17..65537 items with by-construction bin counts, tuple/range/array containers, mixed int/float, every option spelling, "
                "repeated and interleaved calls on shared inputs (inputs must stay unmodified), directed rare histories (event histograms). "
                "non-trivial = knapsack answer selecting a proper non-empty subset or taking the fallback; packing using >=2 bins; "
                "distinct = canonical JSON of the instance")
    ctx.notes += [
        "decimal inputs are idealised as the rationals of their shortest repr (0.1 = 1/10); the models compute in exact Z/Q, so float "
        "rounding inside the code is outside every theorem; correspondence on non-dyadic inputs is made only where the float run provably "
        "takes the exact decisions (counted in histograms as float_guard)",
        "the 11/9 OPT + 6/9 bound of the decreasing variants is NOT proved in Coq; it is explored by the oracle against a brute-force "
        "optimum (<= 8 items) only",
        "knapsack optimality (status OPTIMAL) is judged by brute force over all subsets (<= 12 items); a miss on non-integral "
        "weights/capacity is counted (knap_decimal_opt_miss) but is a violation only for integer weights and capacity, as the property says",
        "the code's final knapsack check tolerates total_weight <= capacity + 1e-9: C16_knap_feasible_value states weight <= capacity for "
        "inputs on a grid coarser than 1e-9 and weight <= capacity + 1e-9 for arbitrary rationals",
        "solve_bin_pack's fit test has the same absolute tolerance (size - remaining <= 1e-9, fix 6898168): the oracle allows load <= capacity + 1e-9; "
        "C16_bin_valid is stated with slack eps, C16_bin_valid_grid without slack on a grid coarser than 1e-9; the Coq checker bin_check is run with slack 0 "
        "(all generated inputs are on a 1/2048 or 1/1000 grid)",
        "noted, not flagged (outside the property's quantifier / exact-integer clause): solve_knapsack([], w, c) returns the empty answer before any validation "
        "(negative capacity accepted when there are no items); solve_knapsack([1],[1.5000000005],1.5) selects item 0 (1e-9 tolerance of the final check); "
        "solve_knapsack([1,1],[0.0004,0.0004],0.001) -> (0,) OPTIMAL although both fit (weights below 1/scale are rounded up to one unit)",
        "round 2: every implementation run checks that the caller's sequences are unmodified and (for small instances) that an identical second call "
        "returns the same answer; knapsack instances with more than 12 items are judged by an independent sparse reference DP (integer weights), "
        "cross-checked against brute force on small instances; large packing instances have their bin count known by construction",
        "observation only (outside the property's finite, moderately scaled data; POLICY_X): NaN/inf values, weights, sizes, capacities; float values near 1e308 "
        "whose sums overflow; float values of magnitude 2^53..2^80 that cancel; bin sizes/capacities of magnitude 2^600..2^1014 - such calls may return "
        "anything or raise, a hang is cut by the guard; outcomes are counted in the histogram observation_only, never a violation",
        "round 3: work volume - every loop (knapsack items / capacity columns / table cells / selected items / fallback sort; packing items / open bins / "
        "bin scans) is driven past 2^12 iterations in the quick tier (maxima in coverage.work_max_iterations_per_loop, thresholds in the histogram), answers "
        "by construction or by the sparse reference DP; in-place edits - a first call, then the caller's list objects are edited in place (same id, often same "
        "length) and the judged call runs on them; finite float corner cases -0.0 and 33.0-vs-33 in every numeric argument are judged exactly",
        "not generated (by-design tolerance, outside the theorems' grid hypothesis d < 10^9): decimals finer than 1e-8; the Gallina models are evaluated only "
        "where the list-based DP stays affordable for vm_compute (histogram knap_float_guard: too-large-for-vm_compute) - larger instances are judged by the oracles only",
        "bin packing on non-dyadic decimals: the float run must use as many bins as the run of the same code on the integer-scaled instance; model correspondence "
        "is made on the float run only when both runs agree completely (bin_float_guard), and always on the integer-scaled twin",
    ]
    ctx.proof_step(["C16"])
    rng = ctx.rng

    # ------------------------------------------------ cases
    cases = []
    for o in _corpus():
        cases.append(o)
    for e in KNAP_EDGE:
        cases.append({"kind": "knap", "cls": "edge", **e})
    for e in BIN_EDGE:
        cases.append({"kind": "bin", "cls": "edge", **e})
    nk = ctx.budget(700, 12000)
    nb = ctx.budget(600, 10000)
    for _ in range(nk):
        r = rng.random()
        cls = "int" if r < 0.45 else "dyadic" if r < 0.65 else "fine" if r < 0.78 else "decimal" if r < 0.95 else "malformed"
        cases.append(gen_knap_malformed(rng) if cls == "malformed" else gen_knap(rng, cls))
    for _ in range(ctx.budget(8, 60)):
        cases.append(gen_knap(rng, "big"))
    for _ in range(nb):
        r = rng.random()
        cls = "int" if r < 0.5 else "dyadic" if r < 0.7 else "decimal" if r < 0.94 else "malformed"
        cases.append(gen_bin_malformed(rng) if cls == "malformed" else gen_bin(rng, cls))
    # round-2 families (HARDENING.md): sizes beyond thresholds, magnitudes, containers, option spellings, call sequences, rare histories
    thorough = ctx.tier == "thorough"
    for fam, q, t in R2_KNAP:
        for _ in range(ctx.budget(q, t)):
            cases.append(gen_knap_r2(rng, fam, thorough))
    for fam, q, t in R2_BIN:
        for _ in range(ctx.budget(q, t)):
            cases.append(gen_bin_r2(rng, fam, thorough))
    for _ in range(ctx.budget(1, 6)):
        cases += spelling_sweep(rng)
    # round-3 families: work volume of every loop, in-place edits between calls, float extremes
    from harness.props import C16_r3 as R3
    R3.reset()
    for fam, q, t in R3.R3_KNAP:
        for _ in range(ctx.budget(q, t)):
            cases.append(R3.gen_knap_r3(rng, fam, thorough))
    for fam, q, t in R3.R3_BIN:
        for _ in range(ctx.budget(q, t)):
            cases.append(R3.gen_bin_r3(rng, fam, thorough))
    # integer-scaled twins of the non-exact (decimal) packing cases (exact run of the same code)
    twins = {}
    for c in list(cases):
        if c["kind"] == "bin" and not c.get("x") and not bin_exact(c) and not bin_should_raise(c) and len(c["sizes"]) > 0:
            t = scaled_bin_case(c)
            t.pop("as", None)
            twins[_key(c)] = len(cases)
            cases.append(t)

    import time as _t
    _t0 = _t.time()
    outs = pmap(_run_case, cases)
    ctx.evaluations += len(cases)
    ctx.extra["stage_s"] = {"implementation_runs": round(_t.time() - _t0, 1)}
    _t0 = _t.time()

    # ------------------------------------------------ oracle + term building
    kq_cases, kq_meta, kz_cases, kz_meta, ks_cases, ks_meta = [], [], [], [], [], []
    b_cases, b_meta, bs_cases, bs_meta = [], [], [], []
    ratio_stats = []
    for idx, (c, out) in enumerate(zip(cases, outs)):
        kind = c["kind"]
        ctx.count(f"{kind}_class", c["cls"])
        ctx.count(f"{kind}_outcome", out[1][2] if out[0] == "ok" else (out[1] if out[0] == "exc" else out[0]))
        if c.get("x"):      # inf / NaN / floats of overflowing magnitude: outside the property (POLICY_X) - observation only, never a violation
            try:
                bad = (R3.oracle_knap_x if kind == "knap" else R3.oracle_bin_x)(c, out)
            except Exception as e:  # noqa: BLE001
                bad = ("unjudgeable", str(e)[:80])
            what = "hang" if out[0] == "hang" else "raises" if out[0] == "exc" else ("answer obeys the remaining clauses" if not bad else f"answer breaks '{bad[0]}'")
            ctx.count("observation_only", f"{c['cls']}: {what}")
            continue
        for loop, cnt in (R3.knap_work(c, out) if kind == "knap" else R3.bin_work(c, out)).items():
            wm = ctx.extra.setdefault("work_max_iterations_per_loop", {})
            wm[loop] = max(wm.get(loop, 0), cnt)
        if kind == "knap":
            ctx.count("knap_n", len(c["values"]))
            ctx.count("knap_minimize", c["minimize"])
            bad = oracle_knap(c, out)
            if bad and bad[0] == "optimal-decimal":
                ctx.count("knap_decimal_opt_miss", 1)
                ctx.extra.setdefault("knap_decimal_opt_miss_examples", [])
                if len(ctx.extra["knap_decimal_opt_miss_examples"]) < 3:
                    ctx.extra["knap_decimal_opt_miss_examples"].append({"case": c, "what": bad[1]})
                bad = None
            if bad:
                small = shrink_knap(c, bad[0]) if out[0] in ("ok", "exc") and len(ctx.violations) < 4 else c
                o2 = run_knap_impl(small)
                b2 = oracle_knap(small, o2) or bad
                ctx.violation(f"solve_knapsack violates clause '{b2[0]}': {b2[1]}",
                              {"kind": "knap", "case": small, "impl": repr(o2), "clause": b2[0]})
            if _nontrivial_knap(c, out):
                ctx.nontriv(_key(c))
            ctx.sample({"case": c, "impl": repr(out)}, 2)
            if len(c["values"]) > 0 and len(c["values"]) == len(c["weights"]) and out[0] == "ok" and out[1][2] == "FEASIBLE":
                ctx.count("knap_fallback_taken", 1)
            for ev in knap_events(c, out):
                ctx.count("knap_events", ev)
            # Coq spec check on the implementation's output (independent of the model)
            obs = knap_obs_q(out)
            exact_vals = values_exact(c["values"])      # else the objective is a rounded float sum
            if obs is not None and exact_vals and len(c["values"]) <= 12000:      # longer literals exhaust coqc's memory cap
                ks_cases.append(f"({knap_in_q(c)}, {obs})")
                ks_meta.append((c, out))
            # correspondence with the rational model
            safe = knap_float_safe(c, out)
            cheap = knap_model_cost(c) <= 450000 and len(c["values"]) <= 5100
            ctx.count("knap_float_guard", ("compared" if cheap else "too-large-for-vm_compute") if safe else "skipped")
            if safe and cheap:
                if obs is None:
                    ctx.violation(f"solve_knapsack: outcome outside the modelled observables: {out!r}", {"kind": "knap", "case": c, "impl": repr(out)})
                else:
                    kq_cases.append(f"({knap_in_q(c)}, {obs})")
                    kq_meta.append((c, out))
                    ctx.traces_validated += 1
                # and with the integer model when everything is integral
                allint = all(is_intlike(x) for x in list(c["values"]) + list(c["weights"]) + [c["capacity"]])
                oz = knap_obs_z(out)
                if allint and oz is not None:
                    kz_cases.append(f"({knap_in_z(c)}, {oz})")
                    kz_meta.append((c, out))
        else:
            ctx.count("bin_n", len(c["sizes"]))
            ctx.count("bin_algo", c["algorithm"])
            bad = oracle_bin(c, out, ratio_stats)
            if bad:
                small = shrink_bin(c, bad[0]) if out[0] in ("ok", "exc") and len(ctx.violations) < 4 else c
                o2 = run_bin_impl(small)
                b2 = oracle_bin(small, o2) or bad
                ctx.violation(f"solve_bin_pack violates clause '{b2[0]}': {b2[1]}",
                              {"kind": "bin", "case": small, "impl": repr(o2), "clause": b2[0]})
            if out[0] == "ok" and out[1][1] >= 2:
                ctx.nontriv(_key(c))
            ctx.sample({"case": c, "impl": repr(out)}, 4)
            for ev in bin_events(c, out):
                ctx.count("bin_events", ev)
            obs = bin_obs(out)
            unknown_algo = parse_algo(c["algorithm"]) is None
            nsz = len(c["sizes"])
            spec_cheap = out[0] != "ok" or nsz * nsz * max(1, int(out[1][1])) <= 3_000_000      # bin_check is O(k n^2) on lists
            if obs is not None and spec_cheap and not (unknown_algo and len(c["sizes"]) > 0 and not _other_bin_error(c)):
                bs_cases.append(f"({bin_in(c, False)}, {obs})")
                bs_meta.append((c, out))
            if unknown_algo:
                continue                       # judged by the oracle only (the model has no algorithm string)
            if nsz > 1100:
                continue                       # model evaluation too slow; judged by the oracle (by-construction bin count)
            exact = bin_exact(c)
            if not exact:
                t = twins.get(_key(c))
                same = t is not None and outs[t] == out
                ctx.count("bin_float_guard", "compared(float run = exact integer run)" if same else "float_sensitive")
                if t is not None and out[0] == "ok" and outs[t][0] == "ok" and outs[t][1][1] != out[1][1] and not bad:
                    ctx.violation(f"solve_bin_pack: the float run uses {out[1][1]} bins, the same instance scaled to integers {outs[t][1][1]} "
                                  "(float round-off in `remaining - size` decides a fit test)",
                                  {"kind": "bin", "case": c, "impl": repr(out), "impl_scaled": repr(outs[t]), "clause": "float-vs-exact"})
                if not same:
                    continue
            if obs is None:
                ctx.violation(f"solve_bin_pack: outcome outside the modelled observables: {out!r}", {"kind": "bin", "case": c, "impl": repr(out)})
                continue
            b_cases.append(f"({bin_in(c)}, {obs})")
            b_meta.append((c, out))
            ctx.traces_validated += 1
    for loop, cnt in ctx.extra.get("work_max_iterations_per_loop", {}).items():
        for thr in R3.THRESHOLDS:
            if cnt > thr:
                ctx.count("work_thresholds_crossed", f"{loop}>{thr}")
    if ratio_stats:
        for k, opt in ratio_stats:
            ctx.count("bin_k_minus_opt", k - opt)

    ctx.extra["stage_s"]["oracles"] = round(_t.time() - _t0, 1)

    def split_check(tag, typ, chk, cs, shard):
        """coqc's elaboration of one list literal holding several very large cases is far worse than linear (6 cases of 250 kB:
        250 s, each alone: 3 s), so large cases get a shard of their own."""
        small = [i for i, x in enumerate(cs) if len(x) <= 30000]
        big = [i for i, x in enumerate(cs) if len(x) > 30000]
        f1 = ctx.coq_check(tag, IMPORTS, typ, chk, [cs[i] for i in small], shard=shard)
        f2 = ctx.coq_check(tag + "_large", IMPORTS, typ, chk, [cs[i] for i in big], shard=1) if big else []
        return sorted([small[i] for i in f1] + [big[i] for i in f2])

    for tag_, fn_ in (("knap_q", lambda: split_check("knap_q", KNAP_Q_T, KNAP_Q_CHK, kq_cases, 120)),
                      ("knap_z", lambda: split_check("knap_z", KNAP_Z_T, KNAP_Z_CHK, kz_cases, 200)),
                      ("knap_spec", lambda: split_check("knap_spec", KNAP_Q_T, KNAP_Q_SPEC, ks_cases, 300)),
                      ("bin", lambda: split_check("bin", BIN_T, BIN_CHK, b_cases, 200)),
                      ("bin_spec", lambda: split_check("bin_spec", BIN_SPEC_T, BIN_SPEC, bs_cases, 300))):
        _t0 = _t.time()
        res_ = fn_()
        ctx.extra["stage_s"]["coq_" + tag_] = round(_t.time() - _t0, 1)
        if tag_ == "knap_q":
            f_kq = res_
        elif tag_ == "knap_z":
            f_kz = res_
        elif tag_ == "knap_spec":
            f_ks = res_
        elif tag_ == "bin":
            f_b = res_
        else:
            f_bs = res_

    # the Coq spec checker rejecting an implementation output is a violation with a concrete input
    for i in f_ks:
        c, out = ks_meta[i]
        ctx.violation("solve_knapsack output rejected by the Coq specification checker knap_check_q (sound by knap_check_q_sound)",
                      {"kind": "knap", "case": c, "impl": repr(out), "clause": "coq-spec"})
    for i in f_bs:
        c, out = bs_meta[i]
        ctx.violation("solve_bin_pack output rejected by the Coq specification checker bin_check (sound by bin_check_sound)",
                      {"kind": "bin", "case": c, "impl": repr(out), "clause": "coq-spec"})

    disagree = [("knap_q", kq_meta[i]) for i in f_kq] + [("knap_z", kz_meta[i]) for i in f_kz] + [("bin", b_meta[i]) for i in f_b]
    if (disagree or ctx.broken) and not ctx.violations:
        _search(ctx, disagree)


def _other_bin_error(c):
    cap = frac(c["capacity"])
    return cap <= 0 or any(frac(s) > cap or frac(s) < 0 for s in c["sizes"])


def _search(ctx, disagree):
    """Model and implementation disagree (or a proof broke) and the oracle found nothing yet: search harder -
    mutations of the disagreeing inputs first, then a large random budget - judged by the independent oracle."""
    rng = ctx.rng
    pool = []
    for _, (c, _) in disagree[:40]:
        pool.append(c)
        for _ in range(60):
            m = json.loads(json.dumps(c))
            if m["kind"] == "knap" and m["values"] and len(m["values"]) == len(m["weights"]):
                j = rng.randrange(len(m["values"]))
                r = rng.random()
                if r < 0.3:
                    m["values"][j] = rng.randint(0, 9)
                elif r < 0.6:
                    m["weights"][j] = rng.choice([0, 1, 2, 3, m["weights"][j]])
                elif r < 0.8:
                    m["capacity"] = rng.choice([0, 1, 2, 3, 5, m["capacity"]])
                else:
                    m["minimize"] = not m["minimize"]
            elif m["kind"] == "bin" and m["sizes"]:
                j = rng.randrange(len(m["sizes"]))
                if rng.random() < 0.7:
                    m["sizes"][j] = rng.choice([0, 1, 2, m["sizes"][j]]) if frac(m["capacity"]) >= 2 else m["sizes"][j]
                else:
                    m["algorithm"] = rng.choice(MAIN_ALGOS)
            pool.append(m)
    for _ in range(15000):
        pool.append(gen_knap(rng, rng.choice(["int", "int", "dyadic", "fine", "decimal"])))
        pool.append(gen_bin(rng, rng.choice(["int", "dyadic", "decimal"])))
    outs = pmap(_run_case, pool)
    ctx.evaluations += len(pool)
    for c, out in zip(pool, outs):
        bad = oracle_knap(c, out) if c["kind"] == "knap" else oracle_bin(c, out)
        if bad and bad[0] != "optimal-decimal":
            small = (shrink_knap if c["kind"] == "knap" else shrink_bin)(c, bad[0])
            o2 = _run_case(small)
            b2 = (oracle_knap if c["kind"] == "knap" else oracle_bin)(small, o2) or bad
            fn = "solve_knapsack" if c["kind"] == "knap" else "solve_bin_pack"
            ctx.violation(f"{fn} violates clause '{b2[0]}': {b2[1]}", {"kind": c["kind"], "case": small, "impl": repr(o2), "clause": b2[0]})
            return
    for tag, (c, out) in disagree[:2]:
        if tag == "knap_q":
            term = f"let '(v, w, cp, m) := {knap_in_q(c)} in qobs_of (knap_q v w cp m)"
        elif tag == "knap_z":
            term = f"let '(v, w, cp, m) := {knap_in_z(c)} in zobs_of (knap_z v w cp m)"
        else:
            term = f"let '(s, cp, bf, dec) := {bin_in(c)} in bobs_of (bin_pack tol s cp bf dec)"
        model = ctx.coq_eval(f"{tag}_show", IMPORTS, term)
        ctx.violation(f"correspondence lemma {tag}: the Coq model SV.C16 and the implementation differ (observable: solution, objective, status)",
                      {"kind": c["kind"], "case": c, "impl": repr(out), "model": model[-600:], "lemma": f"Cases/C16/{tag}_*.v corr"}, no_input=True)


def replay(obj):
    c = obj.get("case")
    if not c:
        print("replay names an unchecked obligation:", obj.get("unchecked") or obj.get("what"))
        return 1
    out = _run_case(c)
    if c.get("x"):
        from harness.props import C16_r3 as R3
        bad = (R3.oracle_knap_x if c["kind"] == "knap" else R3.oracle_bin_x)(c, out)
    else:
        bad = oracle_knap(c, out) if c["kind"] == "knap" else oracle_bin(c, out)
    print("input:", {k: v for k, v in c.items() if k != "cls"})
    print("implementation:", out)
    print("oracle verdict:", bad or "ok")
    if not bad and obj.get("model"):
        print("model said:", obj["model"])
        print("(recorded as a model/implementation disagreement; run ./check C16 for the current state)")
    return 1 if (bad and bad[0] != "optimal-decimal") else 0
