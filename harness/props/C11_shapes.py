"""C11 round-2 hardening: input-shape families (HARDENING.md classes L I S M O A H) for every C11 function:
bfs, dfs, bfs_edges, dfs_edges, bellman_ford, floyd_warshall, dijkstra, dijkstra_edges, astar, astar_grid.

Every case is a JSON-able dict; `judge(case)` runs the implementation on it and returns (outcome, problem-or-None),
so a replay file contains the full input and `replay` re-judges it.  Oracles used here are independent of the Coq
models: exact Fraction arithmetic on the very numbers passed in (simple-path enumeration for n <= 7, naive
relaxation to a fixed point above), answers known by construction for the large instances, metamorphic relations
(scaling by an exactly representable factor scales distances exactly).  Where vm_compute stays cheap the cases are
also sent through the kernel-checked correspondence of part A's models (bfs/dfs/bellman_ford/floyd_warshall).
Called from harness/props/C11.py: run_shapes(ctx).
"""
import copy
import json
import time
from fractions import Fraction

from harness.core import cbool, clist, cnat, copt, cz, guarded

INF = float("inf")
PART = "shapes"


# ================================================================================================ labels (class L)
# A label is described by a JSON-able spec and BUILT FRESH at every use, so that equal labels are different objects.
def build(spec):
    k = spec[0]
    if k == "none":
        return None
    if k == "bool":
        return bool(spec[1])
    if k == "int":
        return int(str(spec[1]))  # fresh object for |x| > 256
    if k == "off":  # int produced by arithmetic at call time
        return spec[1] + spec[2]
    if k == "float":
        return float(spec[1]) * 1.0
    if k == "str":
        return "".join(list(spec[1]))
    if k == "bytes":
        return bytes(spec[1])
    if k == "tuple":
        return tuple(build(x) for x in spec[1])
    if k == "fset":
        return frozenset(build(x) for x in spec[1])
    if k == "frac":
        return Fraction(spec[1], spec[2])
    raise ValueError(spec)


def label_pool(rng):
    """specs whose built values are pairwise distinct under == (at most one of 0/False/0.0 and one of 1/True/1.0)"""
    pool = [["none"], rng.choice([["int", 0], ["bool", False], ["float", 0.0]]), rng.choice([["int", 1], ["bool", True], ["float", 1.0]]),
            ["str", ""], ["tuple", []], ["fset", []], ["bytes", []], ["str", "0"], ["str", "None"],
            ["off", 250, 9], ["off", 256, 1], ["off", 1000, 24], ["int", 2 ** 70 + 3], ["int", -257], ["int", -1],
            ["float", 2.5], ["float", -0.5], ["float", 1e300], ["frac", 1, 3],
            ["tuple", [["int", 0], ["int", 0]]], ["tuple", [["none"]]], ["tuple", [["str", "a"], ["int", 300]]],
            ["tuple", [["tuple", [["int", 1]]], ["int", 2]]], ["fset", [["int", 1], ["int", 2]]], ["fset", [["str", "x"]]],
            ["str", "node-17"], ["str", "a"], ["bytes", [1, 2]], ["tuple", [["int", 1], ["int", 2], ["int", 3]]]]
    rng.shuffle(pool)
    return pool


def gen_labels(rng, n, kind=None):
    kind = kind or rng.choice(["pool", "pool", "big", "fresh_tuple", "fresh_str", "plain"])
    if kind == "pool" and n <= 25:
        return label_pool(rng)[:n]
    if kind == "big":
        base = rng.choice([257, 1000, 2 ** 31, 2 ** 64])
        return [["off", base, i] for i in range(n)]
    if kind == "fresh_tuple":
        return [["tuple", [["int", i // 3], ["int", i % 3 + 300]]] for i in range(n)]
    if kind == "fresh_str":
        return [["str", "v%d" % i] for i in range(n)]
    return [["int", i] for i in range(n)]


ITER_KINDS = ["list", "tuple", "gen", "iter", "map", "keys", "set", "deque", "chain"]
ORDERED_KINDS = ["list", "tuple", "gen", "iter", "map", "deque", "chain"]


def as_iterable(kind, items):
    """items (a list) offered through the given iterable kind"""
    if kind == "list":
        return list(items)
    if kind == "tuple":
        return tuple(items)
    if kind == "gen":
        return (x for x in items)
    if kind == "iter":
        return iter(list(items))
    if kind == "map":
        return map(lambda x: x, items)
    if kind == "keys":
        return dict.fromkeys(items).keys()
    if kind == "set":
        return set(items)
    if kind == "deque":
        from collections import deque

        return deque(items)
    if kind == "chain":
        from itertools import chain

        return chain(items[: len(items) // 2], items[len(items) // 2:])
    raise ValueError(kind)


def limit_of(mi, default=1_000_000):
    """number of iterations a (possibly float) max_iter allows: the loops test `iterations < max_iter`"""
    import math

    if mi is None:
        return default
    if isinstance(mi, float):
        return 10 ** 12 if mi == INF else math.ceil(mi)
    return mi


def canon(x):
    if isinstance(x, bool) or x is None:
        return x
    if isinstance(x, float):
        if x == INF:
            return None
        if x == -INF:
            return "-inf"
        if x == int(x) and abs(x) < 2 ** 63:
            return int(x)
    return x


def status_name(r):
    return getattr(r.status, "name", str(r.status))


class Index:
    """built label -> index (labels are hashable and pairwise distinct under ==)"""

    def __init__(self, specs):
        self.specs = specs
        self.ix = {}
        for i, s in enumerate(specs):
            self.ix[build(s)] = i
        assert len(self.ix) == len(specs), "labels not distinct"

    def of(self, lab):
        try:
            return self.ix.get(lab, -1)
        except TypeError:
            return -1


# ================================================================================================ bfs / dfs cases
# {"kind": "search", "fn": "bfs"|"dfs", "labels": [spec], "adj": [[j, ...] per node], "start": i,
#  "goal": ["none"] | ["val", i] | ["absent"] | ["pred", [i, ...]], "max_iter": int | None, "iter": kind}
def call_search(case):
    from solvor.bfs import bfs, dfs

    specs, adj = case["labels"], case["adj"]
    index = Index(specs)
    kind = case["iter"]
    calls = []

    def neighbors(s):
        i = index.of(s)
        calls.append(i)
        return as_iterable(kind, [build(specs[j]) for j in adj[i]] if 0 <= i < len(adj) else [])

    g = case["goal"]
    if g[0] == "none":
        goal = None
    elif g[0] == "val":
        goal = build(specs[g[1]])
    elif g[0] == "absent":
        goal = ("absent", "label")
    else:
        gs = [build(specs[j]) for j in g[1]]
        goal = lambda s: s in gs  # noqa: E731
    fn = bfs if case["fn"] == "bfs" else dfs
    start = build(specs[case["start"]])
    r = fn(start, goal, neighbors) if case["max_iter"] is None else fn(start, goal, neighbors, max_iter=case["max_iter"])
    st = status_name(r)
    if r.solution is None:
        return ("NotFound", st, canon(r.objective))
    sol = [index.of(x) for x in r.solution]
    if g[0] == "none":
        return ("Visited", st, sol, canon(r.objective), type(r.solution).__name__)
    return ("Found", st, sol, canon(r.objective))


def judge_search(case):
    from harness.props import C11 as A

    res = guarded(call_search, case, timeout=A._limit())
    if res[0] != "ok":
        if res[0] == "hang":
            A._seen_hang()
        return res, f"{case['fn']}: implementation {res}"
    out = res[1]
    n = len(case["labels"])
    adj = [(i, list(js)) for i, js in enumerate(case["adj"])]
    g = case["goal"]
    goal = ("none",) if g[0] == "none" else ("val", g[1]) if g[0] == "val" else ("val", n + 5) if g[0] == "absent" else ("pred", list(g[1]))
    mi = limit_of(case["max_iter"])
    if out[0] in ("Found", "Visited") and any(x < 0 for x in out[2]):
        return out, f"{case['fn']}: result contains an object that is not a node label: {out}"
    bad = A.oracle_search(case["fn"], adj, case["start"], goal, mi, out[:4])
    return out, (f"{case['fn']} ({case['iter']} neighbours): {bad}" if bad else None)


def coq_search(case, out):
    from harness.props import C11 as A

    adj = [(i, list(js)) for i, js in enumerate(case["adj"])]
    n = len(case["labels"])
    g = case["goal"]
    goal = ("none",) if g[0] == "none" else ("val", g[1]) if g[0] == "val" else ("val", n + 5) if g[0] == "absent" else ("pred", list(g[1]))
    mi = 1_000_000 if case["max_iter"] is None else case["max_iter"]
    return A.c_search_case(adj, case["start"], goal, mi, out[:4])


def gen_search_case(rng, family):
    n = rng.choice([2, 3, 4, 4, 5, 5, 6, 7, 8])
    p = rng.choice([0.2, 0.3, 0.45])
    adj = []
    for i in range(n):
        outs = [j for j in range(n) if rng.random() < p]
        if i + 1 < n and rng.random() < 0.6:
            outs.append(i + 1)  # a spine, so that goals are often several steps away
        rng.shuffle(outs)
        if outs and rng.random() < 0.2:
            outs.append(rng.choice(outs))
        adj.append(outs)
    case = {"kind": "search", "fn": rng.choice(["bfs", "dfs"]), "labels": gen_labels(rng, n, "plain" if family == "I" else None),
            "adj": adj, "start": rng.choice([0, 0, rng.randrange(n)]), "max_iter": None, "iter": "list", "family": family}
    r = rng.random()
    none_ok = [i for i in range(n) if case["labels"][i] != ["none"]]  # goal VALUE None means "no goal" by the API
    if r < 0.6 and none_ok:
        case["goal"] = ["val", rng.choice(none_ok)]
    elif r < 0.66:
        case["goal"] = ["absent"]
    elif r < 0.9:
        case["goal"] = ["pred", sorted(rng.sample(range(n), rng.choice([0, 1, 1, 2])))]
    else:
        case["goal"] = ["none"]
    if family == "I":
        case["iter"] = rng.choice(ITER_KINDS[1:])
    elif rng.random() < 0.3:
        case["iter"] = rng.choice(ORDERED_KINDS)
    if rng.random() < 0.2:
        case["max_iter"] = rng.randint(0, n + 1)
    return case


# ================================================================================================ dijkstra / astar cases
# {"kind": "wsearch", "fn": "dijkstra"|"astar", "labels": [spec], "adj": [[[j, w], ...] per node], "start": i,
#  "goal": ["val", i] | ["absent"] | ["pred", [i...]], "max_iter": int|None, "max_cost": num|None,
#  "weight": num (astar), "hc": [num, den] heuristic = hc * exact distance to the goal set (consistent for hc <= 1),
#  "iter": kind, "pair": "tuple"|"list"}
def exact_dists(n, adj, src):
    """naive relaxation to a fixed point with exact arithmetic (weights >= 0); None = unreachable"""
    d = [None] * n
    d[src] = Fraction(0)
    changed = True
    while changed:
        changed = False
        for u in range(n):
            if d[u] is None:
                continue
            for v, w in adj[u]:
                c = d[u] + Fraction(w)
                if d[v] is None or c < d[v]:
                    d[v] = c
                    changed = True
    return d


def dists_to(n, adj, goals):
    radj = [[] for _ in range(n)]
    for u in range(n):
        for v, w in adj[u]:
            radj[v].append((u, w))
    best = [None] * n
    for t in goals:
        d = exact_dists(n, radj, t)
        for v in range(n):
            if d[v] is not None and (best[v] is None or d[v] < best[v]):
                best[v] = d[v]
    return best


def call_wsearch(case):
    from solvor.a_star import astar
    from solvor.dijkstra import dijkstra

    specs, adj = case["labels"], case["adj"]
    n = len(specs)
    index = Index(specs)
    kind = case["iter"]
    mk = tuple if case.get("pair", "tuple") == "tuple" else list

    def neighbors(s):
        i = index.of(s)
        return as_iterable(kind, [mk((build(specs[j]), w)) for j, w in adj[i]] if 0 <= i < n else [])

    g = case["goal"]
    if g[0] == "val":
        goal = build(specs[g[1]])
        goals = [g[1]]
    elif g[0] == "absent":
        goal = ("absent", "label")
        goals = []
    else:
        gs = [build(specs[j]) for j in g[1]]
        goal = lambda s: s in gs  # noqa: E731
        goals = list(g[1])
    kw = {}
    if case.get("max_iter") is not None:
        kw["max_iter"] = case["max_iter"]
    if case.get("max_cost") is not None:
        kw["max_cost"] = case["max_cost"]
    start = build(specs[case["start"]])
    if case["fn"] == "dijkstra":
        r = dijkstra(start, goal, neighbors, **kw)
    else:
        dg = dists_to(n, [[(j, w) for j, w in es] for es in adj], goals)
        num, den = case.get("hc", [0, 1])
        big = sum(abs(w) for es in adj for _, w in es) + 1
        hv = [(INF if case.get("hinf") else big) if d is None else (d * num) / den for d in dg]
        hv = [x if x == INF else float(x) if case.get("hfloat") else (int(x) if x == int(x) else float(x)) for x in hv]

        def h(s):
            i = index.of(s)
            return hv[i] if 0 <= i < n else 0

        if "weight" in case and case["weight"] is not None:
            kw["weight"] = case["weight"]
        r = astar(start, goal, neighbors, h, **kw)
    st = status_name(r)
    if r.solution is None:
        return ("NotFound", st, canon(r.objective))
    return ("Found", st, [index.of(x) for x in r.solution], canon(r.objective))


def close(got, want, tol=Fraction(1, 10 ** 9)):
    if got is None or want is None:
        return got is None and want is None
    if isinstance(got, str):
        return False
    return abs(Fraction(got) - Fraction(want)) <= tol * max(1, abs(Fraction(want)))


def judge_wsearch(case):
    from harness.props import C11 as A

    res = guarded(call_wsearch, case, timeout=A._limit())
    if res[0] != "ok":
        if res[0] == "hang":
            A._seen_hang()
        return res, f"{case['fn']}: implementation {res}"
    out = res[1]
    n = len(case["labels"])
    adj = [[(j, w) for j, w in es] for es in case["adj"]]
    g = case["goal"]
    goals = [g[1]] if g[0] == "val" else [] if g[0] == "absent" else list(g[1])
    d = exact_dists(n, adj, case["start"])
    gd = [d[t] for t in goals if d[t] is not None]
    best = min(gd) if gd else None
    nreach = sum(x is not None for x in d)
    mi = limit_of(case.get("max_iter"))
    mc = case.get("max_cost")
    exact = case.get("exact", True)
    w8 = case.get("weight")
    fn = case["fn"]
    tag = f"{fn} ({case['iter']} neighbours)"
    if out[0] == "Found":
        path, obj = out[2], out[3]
        if best is None:
            return out, f"{tag}: no goal node reachable but path {path} returned"
        if any(x < 0 for x in path) or path[0] != case["start"] or path[-1] not in goals:
            return out, f"{tag}: path {path} does not run from the start to a goal node"
        sums = {Fraction(0)}
        for a, b in zip(path, path[1:]):
            ws = [Fraction(w) for j, w in adj[a] if j == b]
            if not ws:
                return out, f"{tag}: path {path} uses the non-edge {a}->{b}"
            sums = {x + w for x in sums for w in ws}
        if exact and Fraction(obj) not in sums:
            return out, f"{tag}: objective {obj!r} is not the weight of the returned path ({sorted(map(float, sums))[:4]})"
        if not exact and not any(close(obj, x) for x in sums):
            return out, f"{tag}: objective {obj!r} is not the weight of the returned path ({sorted(map(float, sums))[:4]})"
        optimal_expected = (w8 is None or w8 == 1) and (mc is None or best <= mc)
        if optimal_expected:
            if (exact and Fraction(obj) != best) or (not exact and not close(obj, best)):
                return out, f"{tag}: objective {obj!r}, shortest distance is {float(best)!r}"
        elif w8 is not None and w8 > 1 and mc is None and case.get("hc", [0, 1])[0] <= case.get("hc", [0, 1])[1]:
            if Fraction(obj) > Fraction(w8) * best * (1 + Fraction(1, 10 ** 9)):
                return out, f"{tag}: objective {obj!r} exceeds weight * optimum = {float(Fraction(w8) * best)!r}"
        elif Fraction(obj) < best * (1 - Fraction(1, 10 ** 9)):
            return out, f"{tag}: objective {obj!r} below the shortest distance {float(best)!r}"
        want_st = "OPTIMAL" if fn == "dijkstra" or w8 is None or w8 == 1 else "FEASIBLE"
        if out[1] != want_st:
            return out, f"{tag}: status {out[1]}, expected {want_st}"
        if mi < 1:
            return out, f"{tag}: found with max_iter={mi}"
        return out, None
    if out[0] != "NotFound" or out[2] is not None:
        return out, f"{tag}: unexpected result {out}"
    if out[1] == "INFEASIBLE":
        if best is not None and (mc is None or best <= mc):
            return out, f"{tag}: INFEASIBLE but a goal is reachable at distance {float(best)!r}" + (f" <= max_cost {mc}" if mc is not None else "")
        if mi <= 0:
            return out, f"{tag}: INFEASIBLE without a single iteration"
        return out, None
    if out[1] == "MAX_ITER":
        if mi > nreach:
            return out, f"{tag}: MAX_ITER with max_iter={mi} > {nreach} reachable nodes"
        if best is not None and fn == "dijkstra" and (mc is None or best <= mc):
            upto = sum(1 for x in d if x is not None and x <= best)
            if mi >= upto:
                return out, f"{tag}: MAX_ITER with max_iter={mi} although only {upto} nodes are within distance {float(best)!r}"
        return out, None
    return out, f"{tag}: unexpected status {out[1]}"


def gen_wsearch_case(rng, family):
    n = rng.choice([2, 3, 4, 5, 5, 6, 7, 8])
    p = rng.choice([0.25, 0.4, 0.6])
    wmax = rng.choice([1, 3, 9])
    adj = []
    for i in range(n):
        es = [[j, rng.randint(0, wmax)] for j in range(n) if rng.random() < p and j != i]
        if i + 1 < n and rng.random() < 0.6:
            es.append([i + 1, rng.randint(0, wmax)])
        if es and rng.random() < 0.25:
            es.append([rng.choice(es)[0], rng.randint(0, wmax)])  # parallel edge
        rng.shuffle(es)
        adj.append(es)
    case = {"kind": "wsearch", "fn": rng.choice(["dijkstra", "astar"]), "labels": gen_labels(rng, n, "plain" if family == "I" else None),
            "adj": adj, "start": rng.choice([0, rng.randrange(n)]), "iter": "list", "pair": "tuple", "family": family,
            "max_iter": None, "max_cost": None, "weight": None, "hc": rng.choice([[0, 1], [1, 2], [1, 1], [1, 1]])}
    r = rng.random()
    if r < 0.65:
        case["goal"] = ["val", rng.randrange(n)]
    elif r < 0.72:
        case["goal"] = ["absent"]
    else:
        case["goal"] = ["pred", sorted(rng.sample(range(n), rng.choice([0, 1, 2])))]
    if family == "I":
        case["iter"] = rng.choice(["tuple", "gen", "iter", "map", "deque", "chain", "set"])
        case["pair"] = rng.choice(["tuple", "list"]) if case["iter"] != "set" else "tuple"
    return case


# ================================================================================================ edge-list functions
# {"kind": "edges", "fn": "bellman_ford"|"floyd_warshall"|"bfs_edges"|"dfs_edges"|"dijkstra_edges", "n": n,
#  "edges": [[u, v, w]] (base weights), "scale": ["none"] | ["int", K] | ["pow2", k], "container": kind,
#  "start": s, "target": t|None, "directed": bool, "exact": bool}
def scaled(w, scale):
    if scale[0] == "int":
        return w * scale[1]
    if scale[0] == "pow2":
        return w * 2.0 ** scale[1]
    return w


def unscale(x, scale):
    """exact inverse of `scaled` on a canonical number (None stays None); returns an int or raises ValueError"""
    if x is None:
        return None
    f = Fraction(x)
    f = f / scale[1] if scale[0] == "int" else f / Fraction(2) ** scale[1] if scale[0] == "pow2" else f
    if f.denominator != 1:
        raise ValueError(f"{x!r} is not an exact multiple of the scale")
    return int(f)


def contain(kind, edges):
    if kind == "list":
        return [tuple(e) for e in edges]
    if kind == "tuple":
        return tuple(tuple(e) for e in edges)
    if kind == "listlist":
        return [list(e) for e in edges]
    if kind == "tuplelist":
        return tuple(list(e) for e in edges)
    raise ValueError(kind)


def call_edges(case):
    fn = case["fn"]
    n, sc = case["n"], case.get("scale", ["none"])
    es = [(u, v, scaled(w, sc)) for u, v, w in case["edges"]]
    cont = case.get("container", "list")
    if fn == "bellman_ford":
        from solvor.bellman_ford import bellman_ford

        edges = contain(cont, es)
        t = case.get("target")
        r = bellman_ford(case["start"], edges, n, backend="python") if t is None else bellman_ford(case["start"], edges, n, target=t, backend="python")
        st = status_name(r)
        if st == "UNBOUNDED":
            return ("Unbounded", canon(r.objective), r.solution)
        if st == "INFEASIBLE":
            return ("Infeasible", canon(r.objective), r.solution)
        if t is None:
            d = r.solution
            return ("Dists", [canon(d[i]) if i in d else None for i in range(n)], canon(r.objective), st, sorted(d) == list(d))
        return ("Path", list(r.solution), canon(r.objective), st)
    if fn == "floyd_warshall":
        from solvor.floyd_warshall import floyd_warshall

        r = floyd_warshall(n, contain(cont, es), directed=case.get("directed", True), backend="python")
        st = status_name(r)
        if st == "UNBOUNDED":
            return ("Unbounded", canon(r.objective), r.solution)
        return ("Dist", [[canon(x) for x in row] for row in r.solution], canon(r.objective), st)
    if fn == "dijkstra_edges":
        from solvor.dijkstra import dijkstra_edges

        t = case.get("target")
        r = dijkstra_edges(n, contain(cont, es), case["start"], backend="python") if t is None else dijkstra_edges(n, contain(cont, es), case["start"], target=t, backend="python")
        st = status_name(r)
        if t is None:
            d = r.solution
            return ("Dists", [canon(d[i]) if i in d else None for i in range(n)], canon(r.objective), st, True)
        if r.solution is None:
            return ("Infeasible", canon(r.objective), None) if st == "INFEASIBLE" else ("NotFound", st, canon(r.objective))
        return ("Path", list(r.solution), canon(r.objective), st)
    from solvor.bfs import bfs_edges, dfs_edges

    f = bfs_edges if fn == "bfs_edges" else dfs_edges
    pairs = contain(cont, [(u, v) for u, v, _ in es])
    t = case.get("target")
    r = f(n, pairs, case["start"], backend="python") if t is None else f(n, pairs, case["start"], target=t, backend="python")
    st = status_name(r)
    if r.solution is None:
        return ("NotFound", st, canon(r.objective))
    if t is None:
        return ("Visited", st, list(r.solution), canon(r.objective))
    return ("Found", st, list(r.solution), canon(r.objective))


def simple_cycle_weights(n, edges):
    """exact weights of all simple cycles (minimum over parallel edges is NOT taken: every edge counts); n <= 6"""
    out = []
    adj = {}
    for u, v, w in edges:
        adj.setdefault(u, []).append((v, Fraction(w)))

    def go(s, u, w, on):
        for v, c in adj.get(u, []):
            if v == s:
                out.append(w + c)
            elif v > s and v not in on:
                go(s, v, w + c, on | {v})

    for s in range(n):
        go(s, s, Fraction(0), {s})
    return out


def eqnum(got, want, exact):
    if want is None or got is None:
        return got is None and want is None
    if isinstance(got, str):
        return False
    if exact is True:
        return Fraction(got) == Fraction(want)
    if exact is False:
        return close(got, want)
    return abs(Fraction(got) - Fraction(want)) <= Fraction(1, 10 ** 9) * max(1, abs(Fraction(want)), Fraction(exact))  # exact = magnitude scale


def judge_edges(case):
    from harness.props import C11 as A

    res = guarded(call_edges, case, timeout=A._limit())
    fn = case["fn"]
    if res[0] != "ok":
        if res[0] == "hang":
            A._seen_hang()
        return res, f"{fn}: implementation {res}"
    out = res[1]
    n, sc = case["n"], case.get("scale", ["none"])
    exact = case.get("exact", True)
    es = [(u, v, Fraction(scaled(w, sc))) for u, v, w in case["edges"]]
    if fn == "floyd_warshall" and not case.get("directed", True):
        es = [e for (u, v, w) in es for e in ((u, v, w), (v, u, w))]
    if fn in ("bfs_edges", "dfs_edges"):
        adj = [(u, [v for (a, v, _) in es if a == u]) for u in range(n)]
        t = case.get("target")
        if t is None:
            hop = A.hop_reference(adj, case["start"])
            ok = out[0] == "Visited" and out[2] == sorted(hop) and out[3] == 0
            return out, None if ok else f"{fn} without target: {out}, reachable set {sorted(hop)}"
        bad = A.oracle_search(fn[:3], adj, case["start"], ("val", t), 1_000_000, out)
        return out, (f"{fn}: {bad}" if bad else None)
    orc = A.GraphOracle(n, es)
    tag = f"{fn} (scale {sc}, {case.get('container', 'list')})"
    if fn == "floyd_warshall":
        if orc.neg_cycle_anywhere():
            return out, None if out[0] == "Unbounded" and out[1] == "-inf" else f"{tag}: a negative cycle exists (exact arithmetic on the weights passed in) but the result is {out[0]}"
        if out[0] != "Dist":
            return out, f"{tag}: {out[0]} but the graph has no negative cycle"
        for i in range(n):
            for j in range(n):
                if not eqnum(out[1][i][j], orc.dist(i, j), exact):
                    return out, f"{tag}: dist[{i}][{j}] = {out[1][i][j]!r}, exact {orc.dist(i, j)!r}"
        return out, None if out[2] == 0 and out[3] == "OPTIMAL" else f"{tag}: objective/status {out[2:4]}"
    s, t = case["start"], case.get("target")
    if fn == "bellman_ford" and orc.neg_cycle_reachable(s):
        return out, None if out[0] == "Unbounded" and out[1] == "-inf" else f"{tag}: negative cycle reachable from {s} (exact arithmetic) but the result is {out[0]}"
    if out[0] == "Unbounded":
        return out, f"{tag}: UNBOUNDED but no negative cycle is reachable from {s}"
    if t is None:
        if out[0] != "Dists":
            return out, f"{tag}: expected distances, got {out}"
        for v in range(n):
            if not eqnum(out[1][v], orc.dist(s, v), exact):
                return out, f"{tag}: dist[{v}] = {out[1][v]!r}, exact {orc.dist(s, v)!r}"
        return out, None
    d = orc.dist(s, t)
    if d is None:
        return out, None if out[0] == "Infeasible" else f"{tag}: target {t} unreachable but result is {out}"
    if out[0] != "Path":
        return out, f"{tag}: target {t} reachable at distance {float(d)!r} but result is {out}"
    if not eqnum(out[2], d, exact):
        return out, f"{tag}: objective {out[2]!r}, exact distance {d!r}"
    bad = orc.path_ok(s, t, out[1], Fraction(out[2])) if exact is True else (None if out[1] and out[1][0] == s and out[1][-1] == t and all((a, b) in orc.ws for a, b in zip(out[1], out[1][1:])) else f"path {out[1]} is not a path {s}->{t}")
    return out, (f"{tag}: {bad}" if bad else None)


def coq_edges(case, out):
    """(tag, coq case) for part A's models on the BASE integer graph with the implementation's output unscaled
    exactly; None if the case is outside what the Z model covers"""
    from harness.props import C11 as A

    fn, sc = case["fn"], case.get("scale", ["none"])
    if fn not in ("bellman_ford", "floyd_warshall") or not case.get("exact", True) or case.get("model") is False:
        return None
    if not all(isinstance(w, int) for _, _, w in case["edges"]):
        return None
    try:
        if fn == "bellman_ford":
            o = out
            if out[0] == "Dists":
                o = ("Dists", [unscale(x, sc) for x in out[1]], out[2], out[3], out[4])
            elif out[0] == "Path":
                o = ("Path", out[1], unscale(out[2], sc), out[3])
            return ("bf", f"({cnat(case['start'])}, {A.c_edges(case['edges'])}, {cnat(case['n'])}, {copt(case.get('target'), cnat)}, {A.c_bf_result(o)})")
        o = out
        if out[0] == "Dist":
            o = ("Dist", [[unscale(x, sc) for x in row] for row in out[1]], out[2], out[3])
        return ("fw", f"({cnat(case['n'])}, {A.c_edges(case['edges'])}, {cbool(case.get('directed', True))}, {A.c_fw_result(o)})")
    except ValueError:
        return ("bf" if fn == "bellman_ford" else "fw", None)


SCALES = [["int", 2 ** 31], ["int", 10 ** 9], ["int", 2 ** 44], ["int", 2 ** 50], ["int", 10 ** 18], ["int", 3 * 2 ** 40],
          ["pow2", -10], ["pow2", -20], ["pow2", -34], ["pow2", -40], ["pow2", -60], ["pow2", 40]]


def gen_edges_case(rng, family):
    from harness.props import C11 as A

    n, edges, gkind = A.gen_wgraph(rng)
    fn = rng.choice(["bellman_ford", "bellman_ford", "floyd_warshall", "floyd_warshall", "dijkstra_edges", "bfs_edges", "dfs_edges"])
    if family in ("M", "Mdec"):
        fn = rng.choice(["bellman_ford", "bellman_ford", "floyd_warshall", "floyd_warshall", "dijkstra_edges"])
    if fn == "dijkstra_edges":
        edges = [(u, v, abs(w)) for u, v, w in edges]
    case = {"kind": "edges", "fn": fn, "n": n, "edges": [list(e) for e in edges], "scale": ["none"], "container": "list",
            "start": rng.randrange(n), "target": rng.choice([None, rng.randrange(n)]), "directed": rng.random() < 0.7,
            "exact": True, "family": family}
    if family == "I":
        case["container"] = rng.choice(["tuple", "listlist", "tuplelist"])
    elif family == "M":
        r = rng.random()
        if r < 0.6:
            case["scale"] = rng.choice(SCALES + SCALES[7:11])  # exactly representable scaling: distances scale exactly
        elif r < 0.8:  # huge offsets mixed with small numbers; all partial sums below 2^53: still exact
            off = rng.choice([2 ** 31, 10 ** 9, 2 ** 44 + 1, 2 ** 40 + 7])
            case["edges"] = [[u, v, (w + off if w >= 0 and rng.random() < 0.6 else w)] for u, v, w in case["edges"]]
        else:  # beyond 2^53: floats round, judged with relative tolerance 1e-9; non-negative weights keep the status robust
            off = rng.choice([2 ** 53 + 1, 2 ** 53 - 1, 2 ** 60 + 1, 10 ** 18 + 1, 2 ** 62])
            case["edges"] = [[u, v, abs(w) + (off if rng.random() < 0.5 else 0)] for u, v, w in case["edges"]]
            case["exact"] = False
    elif family == "Mdec":  # decimal weights with perturbations at the 1e-12 .. 1e-9 scale (floats, exact oracle on the doubles)
        delta = rng.choice([1e-12, 1e-11, 1e-10, 1e-9])
        case["edges"] = [[u, v, w / 10 + rng.choice([-1, 0, 0, 1]) * delta] for u, v, w in case["edges"]]
        case["exact"] = False
        case["fn"] = rng.choice(["bellman_ford", "floyd_warshall"])
    return case


def ambiguous(case):
    """float round-off could legitimately decide the sign of some cycle: such inputs are outside the property"""
    if case.get("exact", True) or case["n"] > 6:
        return False
    es = [(u, v, scaled(w, case.get("scale", ["none"]))) for u, v, w in case["edges"]]
    if case["fn"] == "floyd_warshall" and not case.get("directed", True):
        es = [e for (u, v, w) in es for e in ((u, v, w), (v, u, w))]
    big = max([abs(Fraction(w)) for _, _, w in es] + [1])
    return any(abs(c) < big * Fraction(1, 10 ** 13) and not c == 0 or (c == 0 and any(isinstance(w, float) for _, _, w in es))
               for c in simple_cycle_weights(case["n"], es))


# ================================================================================================ astar_grid cases
# {"kind": "grid", "grid": [[cell]], "start": [r, c], "goal": [r, c], "directions": 4|8, "heuristic": name,
#  "blocked": int | [ints], "blocked_type": "int"|"set"|"frozenset", "costs": {cell(str): cost} | None,
#  "weight": num|None, "max_iter": int|None, "gridtype": "list"|"tuple"|"rows_tuple"}
SQRT2 = 2.0 ** 0.5


def call_grid(case):
    from solvor.a_star import astar_grid

    g = case["grid"]
    gt = case.get("gridtype", "list")
    grid = [list(r) for r in g] if gt == "list" else tuple(tuple(r) for r in g) if gt == "tuple" else [tuple(r) for r in g]
    b = case.get("blocked", 1)
    bt = case.get("blocked_type", "int")
    blocked = b if bt == "int" else set(b) if bt == "set" else frozenset(b)
    kw = {"directions": case.get("directions", 4), "heuristic": case.get("heuristic", "auto"), "blocked": blocked}
    if case.get("costs") is not None:
        kw["costs"] = {int(k): v for k, v in case["costs"].items()}
    if case.get("weight") is not None:
        kw["weight"] = case["weight"]
    if case.get("max_iter") is not None:
        kw["max_iter"] = case["max_iter"]
    before = copy.deepcopy((grid, kw))
    r = astar_grid(grid, tuple(case["start"]), tuple(case["goal"]), **kw)
    same = before == (grid, kw)
    st = status_name(r)
    if r.solution is None:
        return ("NotFound", st, canon(r.objective), same)
    return ("Found", st, [list(p) for p in r.solution], r.objective, same)


def grid_ref(case):
    """naive float relaxation to a fixed point on the grid graph: dict cell -> distance from start"""
    g = case["grid"]
    rows, cols = len(g), len(g[0]) if g else 0
    b = case.get("blocked", 1)
    bs = {b} if isinstance(b, int) else set(b)
    costs = {int(k): v for k, v in (case.get("costs") or {}).items()}
    dirs = [(-1, 0), (1, 0), (0, -1), (0, 1)] + ([(-1, -1), (-1, 1), (1, -1), (1, 1)] if case.get("directions", 4) == 8 else [])

    def step(p):
        for dr, dc in dirs:
            q = (p[0] + dr, p[1] + dc)
            if 0 <= q[0] < rows and 0 <= q[1] < cols and g[q[0]][q[1]] not in bs:
                w = costs.get(g[q[0]][q[1]], 1.0)
                yield q, (w * SQRT2 if dr and dc else w)

    s = tuple(case["start"])
    d = {s: 0.0}
    todo = [s]
    while todo:  # label-correcting
        nxt = []
        for p in todo:
            for q, w in step(p):
                if d[p] + w < d.get(q, INF) - 1e-12:
                    d[q] = d[p] + w
                    nxt.append(q)
        todo = nxt
    return d, step


def judge_grid(case):
    from harness.props import C11 as A

    res = guarded(call_grid, case, timeout=max(A._limit(), 5) if A.HANGS[0] < 3 else 0.5)
    if res[0] != "ok":
        if res[0] == "hang":
            A._seen_hang()
        return res, f"astar_grid: implementation {res}"
    out = res[1]
    if not out[-1]:
        return out, "astar_grid modified its inputs (grid / blocked / costs)"
    d, step = grid_ref(case)
    goal = tuple(case["goal"])
    best = d.get(goal)
    costs = [v for v in (case.get("costs") or {}).values()]
    w8 = case.get("weight")
    hname = case.get("heuristic", "auto")
    dirs = case.get("directions", 4)
    admissible = min(costs + [1]) >= 1 and not (dirs == 8 and hname == "manhattan")
    mi = limit_of(case.get("max_iter"))
    tag = f"astar_grid(directions={dirs}, heuristic={hname}, weight={w8}, max_iter={case.get('max_iter')})"
    if out[0] == "Found":
        path, obj = [tuple(p) for p in out[2]], out[3]
        if best is None:
            return out, f"{tag}: goal unreachable but a path was returned"
        if path[0] != tuple(case["start"]) or path[-1] != goal:
            return out, f"{tag}: path does not run from start to goal: {path[:3]}..{path[-2:]}"
        tot = 0.0
        for a, b in zip(path, path[1:]):
            ws = [w for q, w in step(a) if q == b]
            if not ws:
                return out, f"{tag}: path steps {a}->{b}, not a legal move"
            tot += ws[0]
        if not close(obj, tot):
            return out, f"{tag}: objective {obj!r} but the returned path costs {tot!r}"
        if (w8 is None or w8 == 1) and admissible and not close(obj, best):
            return out, f"{tag}: objective {obj!r}, shortest is {best!r}"
        if obj < best * (1 - 1e-9) - 1e-9:
            return out, f"{tag}: objective {obj!r} below the shortest distance {best!r}"
        if w8 is not None and w8 > 1 and admissible and obj > w8 * best * (1 + 1e-9) + 1e-9:
            return out, f"{tag}: objective {obj!r} exceeds weight * optimum {w8 * best!r}"
        want_st = "OPTIMAL" if w8 is None or w8 == 1 else "FEASIBLE"
        if out[1] != want_st:
            return out, f"{tag}: status {out[1]}, expected {want_st}"
        if mi < 1:
            return out, f"{tag}: found with max_iter={mi}"
        return out, None
    if out[1] == "INFEASIBLE":
        return out, None if best is None and mi > 0 else f"{tag}: INFEASIBLE but the goal is reachable at distance {best!r}" if best is not None else f"{tag}: INFEASIBLE without an iteration"
    if out[1] == "MAX_ITER":
        return out, None if mi <= len(d) else f"{tag}: MAX_ITER with max_iter={mi} > {len(d)} reachable cells"
    return out, f"{tag}: unexpected {out[:3]}"


def gen_grid_case(rng, family):
    rows, cols = rng.randint(1, 6), rng.randint(1, 6)
    cells = rng.choice([[0, 1], [0, 0, 1], [0, 0, 2, 1], [0, 3, 5, 1]])
    grid = [[rng.choice(cells) for _ in range(cols)] for _ in range(rows)]
    free = [(r, c) for r in range(rows) for c in range(cols) if grid[r][c] != 1]
    if len(free) < 1:
        grid[0][0] = 0
        free = [(0, 0)]
    s, t = rng.choice(free), rng.choice(free)
    case = {"kind": "grid", "grid": grid, "start": list(s), "goal": list(t), "directions": rng.choice([4, 8]),
            "heuristic": rng.choice(["auto", "manhattan", "octile", "euclidean", "chebyshev"]), "blocked": 1, "blocked_type": "int",
            "costs": None, "weight": None, "max_iter": None, "gridtype": "list", "family": family}
    if rng.random() < 0.5:
        case["costs"] = {str(k): rng.choice([1, 2, 3, 1.5, 7]) for k in set(cells) - {0, 1}} or None
    if family == "I":
        case["gridtype"] = rng.choice(["tuple", "rows_tuple"])
        case["blocked_type"] = rng.choice(["set", "frozenset", "int"])
        if case["blocked_type"] != "int":
            case["blocked"] = rng.choice([[1], [1, 9], [1, 5]])
            if tuple(s) not in [(r, c) for r in range(rows) for c in range(cols) if grid[r][c] not in case["blocked"]] or grid[t[0]][t[1]] in case["blocked"]:
                case["blocked"] = [1]
    elif family == "M":
        k = rng.choice([2 ** 31, 10 ** 9, 2 ** 44, 2.0 ** -20, 2 ** 20 + 1])
        case["costs"] = {str(c): (1 + i) * k for i, c in enumerate(sorted(set(cells) - {1}))}
        if min(case["costs"].values()) < 1:
            case["heuristic"] = "auto"
    elif family == "O":
        case["weight"] = rng.choice([None, 1, 1.0, 1.5, 2, 3, 0.5, 0])
        case["max_iter"] = rng.choice([None, 0, 1, 2, 3, rows * cols, rows * cols + 1, rng.randint(0, rows * cols)])
    return case


# ================================================================================================ large instances (class S)
# {"kind": "big", "shape": name, "fn": name, "n": size, ...}: the instance is generated from these parameters and the
# answer is known by construction.
def _res(r, want_path=True):
    st = status_name(r)
    sol = r.solution
    return st, (list(sol) if isinstance(sol, (list, tuple)) else sol), canon(r.objective)


def call_big(case):
    from solvor.a_star import astar, astar_grid
    from solvor.bellman_ford import bellman_ford
    from solvor.bfs import bfs, bfs_edges, dfs, dfs_edges
    from solvor.dijkstra import dijkstra, dijkstra_edges
    from solvor.floyd_warshall import floyd_warshall

    shape, fn, n = case["shape"], case["fn"], case["n"]
    if shape == "chain":
        w = lambda i: (i % 3) + 1  # noqa: E731
        total = sum(w(i) for i in range(n - 1))
        path = list(range(n))
        if fn in ("bfs", "dfs"):
            f = bfs if fn == "bfs" else dfs
            nb = (lambda s: [s + 1] if s + 1 < n else []) if case.get("iter", "list") == "list" else (lambda s: (x for x in ([s + 1] if s + 1 < n else [])))
            st, sol, obj = _res(f(0, n - 1, nb))
            return (st, sol, obj) == ("OPTIMAL" if fn == "bfs" else "FEASIBLE", path, n - 1), (st, obj, None if sol is None else (len(sol), sol[:3], sol[-3:]))
        if fn in ("bfs_all", "dfs_all"):
            f = bfs if fn == "bfs_all" else dfs
            r = f(0, None, lambda s: [s + 1] if s + 1 < n else [])
            return (status_name(r), r.solution == set(range(n)), r.objective) == ("OPTIMAL", True, n), (status_name(r), len(r.solution), r.objective)
        if fn in ("dijkstra", "astar"):
            nb = lambda s: [(s + 1, w(s))] if s + 1 < n else []  # noqa: E731
            rem = [0] * n
            for i in range(n - 2, -1, -1):
                rem[i] = rem[i + 1] + w(i)
            r = dijkstra(0, n - 1, nb) if fn == "dijkstra" else astar(0, n - 1, nb, lambda s: rem[s])
            st, sol, obj = _res(r)
            return (st, sol, obj) == ("OPTIMAL", path, total), (st, obj, None if sol is None else (len(sol), sol[:3], sol[-3:]))
        if fn in ("bfs_edges", "dfs_edges"):
            f = bfs_edges if fn == "bfs_edges" else dfs_edges
            st, sol, obj = _res(f(n, [(i, i + 1) for i in range(n - 1)], 0, target=n - 1, backend="python"))
            return (sol, obj) == (path, n - 1), (st, obj, None if sol is None else (len(sol), sol[:3], sol[-3:]))
        if fn == "dijkstra_edges":
            r = dijkstra_edges(n, [(i, i + 1, w(i)) for i in range(n - 1)], 0, target=n - 1, backend="python")
            st, sol, obj = _res(r)
            return (st, sol, obj) == ("OPTIMAL", path, total), (st, obj, None if sol is None else len(sol))
        if fn in ("bf_fwd", "bf_rev", "bf_rev_neg"):
            sgn = -1 if fn == "bf_rev_neg" else 1
            es = [(i, i + 1, sgn * w(i)) for i in range(n - 1)]
            if fn != "bf_fwd":
                es.reverse()
            st, sol, obj = _res(bellman_ford(0, es, n, target=n - 1, backend="python"))
            ok = (st, sol, obj) == ("OPTIMAL", path, sgn * total)
            r2 = bellman_ford(0, es, n, backend="python")
            acc, want = 0, {}
            for i in range(n):
                want[i] = acc
                acc += sgn * w(i)
            ok2 = {k: canon(v) for k, v in r2.solution.items()} == want
            return ok and ok2, (st, obj, None if sol is None else len(sol), ok2)
        if fn in ("bf_negcycle_far", "bf_negcycle_unreachable"):
            es = [(i, i + 1, 1) for i in range(n - 2)]
            es += [(n - 2, n - 1, 1), (n - 1, n - 2, -2)] if fn == "bf_negcycle_far" else [(n - 1, n - 1, -1), (n - 1, 0, 1)]
            es.reverse()
            r = bellman_ford(0, es, n, backend="python")
            st = status_name(r)
            return st == ("UNBOUNDED" if fn == "bf_negcycle_far" else "OPTIMAL"), (st,)
    if shape == "ring_fw":
        es = [(i, (i + 1) % n, 1) for i in range(n)]
        r = floyd_warshall(n, es, backend="python")
        ok = status_name(r) == "OPTIMAL" and all(canon(r.solution[i][j]) == (j - i) % n for i in range(n) for j in range(n))
        return ok, (status_name(r),)
    if shape == "ring_fw_neg":  # one slightly negative ring: total weight -1
        es = [(i, (i + 1) % n, 1) for i in range(n - 1)] + [(n - 1, 0, -n)]
        r = floyd_warshall(n, es, backend="python")
        return status_name(r) == "UNBOUNDED", (status_name(r),)
    if shape == "parallel":
        m = n
        ws = [((7 * i) % m) + 5 for i in range(m)]  # a permutation-like spread, minimum 5 somewhere in the middle
        es = [(0, 1, x) for x in ws] + [(1, 2, 3)]
        if fn == "bellman_ford":
            st, sol, obj = _res(bellman_ford(0, es, 3, target=2, backend="python"))
        elif fn == "floyd_warshall":
            r = floyd_warshall(3, es, backend="python")
            st, sol, obj = status_name(r), [0, 1, 2], canon(r.solution[0][2])
        elif fn == "dijkstra_edges":
            st, sol, obj = _res(dijkstra_edges(3, es, 0, target=2, backend="python"))
        else:
            adj = {0: [(1, x) for x in ws], 1: [(2, 3)], 2: []}
            st, sol, obj = _res(dijkstra(0, 2, lambda s: adj[s]))
        return (st, sol, obj) == ("OPTIMAL", [0, 1, 2], min(ws) + 3), (st, sol, obj)
    if shape == "tree":  # complete binary tree in heap numbering, computed labels (fresh int objects)
        depth = n
        last = 2 ** (depth + 1) - 2
        nb = lambda s: [2 * s + 1, 2 * s + 2] if 2 * s + 2 <= last else []  # noqa: E731
        goal = last - 1 - (depth % 2)
        want = []
        x = goal
        while x:
            want.append(x)
            x = (x - 1) // 2
        want = [0] + want[::-1]
        if fn in ("bfs", "dfs"):
            st, sol, obj = _res((bfs if fn == "bfs" else dfs)(0, goal, nb))
        else:
            st, sol, obj = _res(dijkstra(0, goal, lambda s: [(t, 1 + (t % 2)) for t in nb(s)]))
            return (st, sol, obj) == ("OPTIMAL", want, sum(1 + (t % 2) for t in want[1:])), (st, obj, sol and len(sol))
        return (sol, obj) == (want, depth), (st, obj, sol and len(sol))
    if shape == "star":
        m = n
        nb = lambda s: range(1, m + 1) if s == 0 else ()  # noqa: E731
        if fn == "bfs_all":
            r = bfs(0, None, nb)
            return (len(r.solution), r.objective) == (m + 1, m + 1), (status_name(r), r.objective)
        st, sol, obj = _res((bfs if fn == "bfs" else dfs)(0, m, nb))
        return (sol, obj) == ([0, m], 1), (st, sol, obj)
    if shape == "grid_open":
        R = C = n
        grid = [[0] * C for _ in range(R)]
        d8 = case.get("directions", 4) == 8
        gr, gc = R - 1, C - 1 - (R // 3)
        r = astar_grid(grid, (0, 0), (gr, gc), directions=8 if d8 else 4)
        want = (max(gr, gc) + (SQRT2 - 1) * min(gr, gc)) if d8 else gr + gc
        ok = status_name(r) == "OPTIMAL" and close(r.objective, want) and r.solution[0] == (0, 0) and r.solution[-1] == (gr, gc)
        ok = ok and len(r.solution) == (max(gr, gc) if d8 else gr + gc) + 1
        return ok, (status_name(r), r.objective, want)
    if shape == "grid_snake":
        k, c = n, case.get("cols", 9)
        grid = []
        for i in range(k):
            grid.append([0] * c)
            if i < k - 1:
                wall = [1] * c
                wall[c - 1 if i % 2 == 0 else 0] = 0
                grid.append(wall)
        goal = (2 * (k - 1), c - 1 if k % 2 == 1 else 0)
        r = astar_grid(grid, (0, 0), goal, directions=4)
        want = k * (c - 1) + 2 * (k - 1)
        return (status_name(r), canon(r.objective), len(r.solution or [])) == ("OPTIMAL", want, want + 1), (status_name(r), r.objective, want)
    raise ValueError(case)


def judge_big(case):
    t0 = time.time()
    res = guarded(call_big, case, timeout=20)
    dt = time.time() - t0
    if res[0] != "ok":
        return res, f"{case['fn']} on {case['shape']}({case['n']}): implementation {res[:2]} {str(res[2:])[:120]}"
    ok, seen = res[1]
    return (seen, round(dt, 2)), None if ok else f"{case['fn']} on {case['shape']}({case['n']}): wrong answer (by construction), observed {seen}"


def big_cases(thorough):
    out = []
    for n in [17, 65, 257, 1025, 2049] + ([20001] if not thorough else [20001, 100001]):
        for fn in ["bfs", "dfs", "dijkstra", "astar", "bfs_edges", "dfs_edges", "dijkstra_edges", "bf_fwd", "bfs_all", "dfs_all"]:
            if fn == "bf_fwd" and n > 3000:
                continue
            out.append({"kind": "big", "shape": "chain", "fn": fn, "n": n})
    out.append({"kind": "big", "shape": "chain", "fn": "bfs", "n": 1025, "iter": "gen"})
    out.append({"kind": "big", "shape": "chain", "fn": "dfs", "n": 1025, "iter": "gen"})
    for n in [17, 65, 257] + ([801] if thorough else []):
        out += [{"kind": "big", "shape": "chain", "fn": f, "n": n} for f in ("bf_rev", "bf_rev_neg", "bf_negcycle_far", "bf_negcycle_unreachable")]
    for n in [17, 65] + ([129] if thorough else []):
        out += [{"kind": "big", "shape": "ring_fw", "fn": "floyd_warshall", "n": n}, {"kind": "big", "shape": "ring_fw_neg", "fn": "floyd_warshall", "n": n}]
    for m in [257, 2049, 65537]:
        out += [{"kind": "big", "shape": "parallel", "fn": f, "n": m} for f in ("bellman_ford", "floyd_warshall", "dijkstra_edges", "dijkstra")]
    for depth in [4, 8, 12] + ([16] if thorough else []):
        out += [{"kind": "big", "shape": "tree", "fn": f, "n": depth} for f in ("bfs", "dfs", "dijkstra")]
    for m in [257, 65537] + ([999_990] if thorough else []):
        out += [{"kind": "big", "shape": "star", "fn": f, "n": m} for f in ("bfs", "dfs", "bfs_all")]
    for n in [17, 65] + ([129, 257] if thorough else []):
        out += [{"kind": "big", "shape": "grid_open", "fn": "astar_grid", "n": n, "directions": d} for d in (4, 8)]
    for k in [3, 9, 33] + ([129] if thorough else []):
        out.append({"kind": "big", "shape": "grid_snake", "fn": "astar_grid", "n": k, "cols": 9 if k < 30 else 33})
    return out


# ================================================================================================ option sweeps (class O)
def sweep_cases(rng, k):
    out = []
    for _ in range(k):
        base = gen_search_case(rng, "O")
        base["goal"] = rng.choice([["val", len(base["labels"]) - 1], ["pred", [len(base["labels"]) - 1, 1]], ["none"], ["absent"]])
        if base["goal"][0] == "val" and base["labels"][base["goal"][1]] == ["none"]:
            base["goal"] = ["pred", [base["goal"][1]]]
        n = len(base["labels"])
        for fn in ("bfs", "dfs"):
            for mi in [-1] + list(range(0, n + 3)) + [40, 999_999, 1_000_001]:
                c = copy.deepcopy(base)
                c.update(fn=fn, max_iter=mi, family="O")
                out.append(c)
        wb = gen_wsearch_case(rng, "O")
        wb["goal"] = rng.choice([["val", len(wb["labels"]) - 1], ["pred", [len(wb["labels"]) - 1, 0]]])
        n = len(wb["labels"])
        adj = [[(j, w) for j, w in es] for es in wb["adj"]]
        ds = sorted({x for x in exact_dists(n, adj, wb["start"]) if x is not None})
        for fn in ("dijkstra", "astar"):
            for mi in list(range(0, n + 3)) + [40]:
                c = copy.deepcopy(wb)
                c.update(fn=fn, max_iter=mi, family="O")
                out.append(c)
            for mc in [-1, 0, 0.5] + [int(x) for x in ds] + [int(x) + 1 for x in ds[-1:]] + [int(x) - 0.5 for x in ds[1:3]] + [10 ** 9, INF]:
                c = copy.deepcopy(wb)
                c.update(fn=fn, max_cost=mc, family="O")
                out.append(c)
        for w8 in [0, 0.5, 1, 1.0, 1.5, 2, 3, 10]:
            for hc in ([0, 1], [1, 2], [1, 1]):
                c = copy.deepcopy(wb)
                c.update(fn="astar", weight=w8, hc=hc, family="O")
                out.append(c)
    return out


def grid_sweep_cases(rng, k):
    out = []
    for _ in range(k):
        base = gen_grid_case(rng, "L")
        cells = len(base["grid"]) * len(base["grid"][0])
        for d in (4, 8):
            for hname in ("auto", "manhattan", "octile", "euclidean", "chebyshev"):
                c = copy.deepcopy(base)
                c.update(directions=d, heuristic=hname, family="O")
                out.append(c)
        for mi in list(range(0, min(cells, 12) + 2)):
            c = copy.deepcopy(base)
            c.update(max_iter=mi, family="O")
            out.append(c)
    return out


# ================================================================================================ aliasing / call sequences (class A)
# {"kind": "alias", "fn": name, ...base case fields...}
def _canon_result(r):
    sol = r.solution
    if isinstance(sol, set):
        sol = sorted(map(repr, sol))
    elif isinstance(sol, dict):
        sol = sorted((k, canon(v)) for k, v in sol.items())
    elif isinstance(sol, list):
        sol = [([canon(x) for x in row] if isinstance(row, list) else row) for row in sol]
    return (status_name(r), sol, canon(r.objective))


def call_alias(case):
    """returns a list of problems (strings)"""
    from solvor.a_star import astar, astar_grid
    from solvor.bellman_ford import bellman_ford
    from solvor.bfs import bfs, bfs_edges, dfs, dfs_edges
    from solvor.dijkstra import dijkstra, dijkstra_edges
    from solvor.floyd_warshall import floyd_warshall
    from solvor.rust import rust_available

    fn = case["fn"]
    probs = []
    backends = ["python"] + (["rust"] if rust_available() and case.get("rust", True) else [])
    if fn in ("bellman_ford", "floyd_warshall", "bfs_edges", "dfs_edges", "dijkstra_edges"):
        n = case["n"]
        if fn in ("bfs_edges", "dfs_edges"):
            edges = [[u, v] for u, v, _ in case["edges"]]
        elif fn == "dijkstra_edges":
            edges = [[u, v, abs(w)] for u, v, w in case["edges"]]
        else:
            edges = [list(e) for e in case["edges"]]
        pristine = copy.deepcopy(edges)
        s, t = case["start"], case["target"]

        def run(opt, backend):
            if fn == "bellman_ford":
                return bellman_ford(s, edges, n, backend=backend) if opt == 0 else bellman_ford(s, edges, n, target=t, backend=backend)
            if fn == "floyd_warshall":
                return floyd_warshall(n, edges, directed=(opt == 0), backend=backend)
            f = {"bfs_edges": bfs_edges, "dfs_edges": dfs_edges, "dijkstra_edges": dijkstra_edges}[fn]
            return f(n, edges, s, backend=backend) if opt == 0 else f(n, edges, s, target=t, backend=backend)

        first = {}
        seq = [(0, "python"), (1, "python"), (0, "python"), (1, "python")]
        if "rust" in backends:
            seq += [(0, "rust"), (0, "python"), (1, "rust"), (1, "python"), (1, "rust"), (0, "rust")]
        for opt, be in seq:
            try:
                r = _canon_result(run(opt, be))
            except Exception as e:  # noqa: BLE001
                r = ("exc", type(e).__name__, str(e)[:80])
            if edges != pristine:
                probs.append(f"{fn}(option {opt}, backend={be}) modified the caller's edge list: {edges} (was {pristine})")
                break
            key = (opt, be)
            if key in first and first[key] != r:
                probs.append(f"{fn}(option {opt}, backend={be}) answers differently on a repeated call: {first[key]} then {r}")
            first.setdefault(key, r)
        return probs
    if fn == "astar_grid":
        g = [list(r) for r in case["grid"]]
        costs = {int(k): v for k, v in (case.get("costs") or {}).items()} or None
        blocked = set(case["blocked"]) if isinstance(case.get("blocked"), list) else case.get("blocked", 1)
        pristine = copy.deepcopy((g, costs, blocked))
        rs = []
        for d in (case.get("directions", 4), 8, 4, case.get("directions", 4)):
            r = astar_grid(g, tuple(case["start"]), tuple(case["goal"]), directions=d, costs=costs, blocked=blocked)
            rs.append((d, _canon_result(r)))
            if (g, costs, blocked) != pristine:
                probs.append(f"astar_grid(directions={d}) modified its inputs")
                break
        for d, r in rs:
            if r != [x for dd, x in rs if dd == d][0]:
                probs.append(f"astar_grid(directions={d}) answers differently on a repeated call")
        return probs
    # call-back functions: neighbours hands out the SAME stored list objects every time
    n = len(case["adj"])
    weighted = fn in ("dijkstra", "astar")
    store = {i: ([(j, w) for j, w in es] if weighted else list(es)) for i, es in enumerate(case["adj"])}
    pristine = copy.deepcopy(store)
    goal = case["goal_idx"]
    f = {"bfs": bfs, "dfs": dfs, "dijkstra": dijkstra, "astar": astar}[fn]

    def run(mi):
        args = (case["start"], goal, lambda s: store.get(s, []))
        if fn == "astar":
            args = args + ((lambda s: 0),)
        return f(*args) if mi is None else f(*args, max_iter=mi)

    first = {}
    for mi in (None, 2, None, 1, 2, None):
        r = _canon_result(run(mi))
        if store != pristine:
            probs.append(f"{fn}(max_iter={mi}) modified the neighbour lists handed out by the call-back: {store} (was {pristine})")
            break
        if mi in first and first[mi] != r:
            probs.append(f"{fn}(max_iter={mi}) answers differently on a repeated call: {first[mi]} then {r}")
        first.setdefault(mi, r)
    return probs


def judge_alias(case):
    from harness.props import C11 as A

    res = guarded(call_alias, case, timeout=max(2, A._limit()))
    if res[0] != "ok":
        if res[0] == "hang":
            A._seen_hang()
        return res, f"{case['fn']} call sequence: implementation {res}"
    return ("ok", len(res[1])), (res[1][0] if res[1] else None)


def gen_alias_case(rng):
    from harness.props import C11 as A

    fn = rng.choice(["bellman_ford", "floyd_warshall", "bfs_edges", "dfs_edges", "dijkstra_edges", "astar_grid", "bfs", "dfs", "dijkstra", "astar"])
    if fn == "astar_grid":
        c = gen_grid_case(rng, "L")
        c.update(kind="alias", fn=fn, family="A")
        if rng.random() < 0.5:
            c["blocked"] = [1]
        return c
    if fn in ("bfs", "dfs", "dijkstra", "astar"):
        w = gen_wsearch_case(rng, "A")
        adj = w["adj"] if fn in ("dijkstra", "astar") else [[j for j, _ in es] for es in w["adj"]]
        return {"kind": "alias", "fn": fn, "adj": adj, "start": w["start"], "goal_idx": rng.randrange(len(adj)), "family": "A"}
    n, edges, _ = A.gen_wgraph(rng)
    return {"kind": "alias", "fn": fn, "n": n, "edges": [list(e) for e in edges], "start": rng.randrange(n), "target": rng.randrange(n), "family": "A"}


# ================================================================================================ rare histories (class H)
# Instrumented reference ports (plain re-implementations of the documented algorithms) report internal events;
# inputs that trigger a rare event are collected (random search + mutation of witnesses) and then judged like any other case.
def events_edges(case):
    ev = set()
    n = case["n"]
    es = [(u, v, scaled(w, case.get("scale", ["none"]))) for u, v, w in case["edges"]]
    if case["fn"] == "bellman_ford":
        dist = [INF] * n
        par = [-1] * n
        nset = [0] * n
        dist[case["start"]] = 0
        rounds = 0
        for _ in range(n - 1):
            upd = False
            for u, v, w in es:
                if dist[u] != INF and dist[u] + w < dist[v]:
                    if par[v] != -1 and par[v] != u:
                        nset[v] += 1
                    if u == v:
                        ev.add("bf_selfloop_relaxed")
                    if v == case["start"]:
                        ev.add("bf_source_improved")
                    dist[v] = dist[u] + w
                    par[v] = u
                    upd = True
            if not upd:
                break
            rounds += 1
        if rounds >= 3:
            ev.add("bf_3_updating_rounds")
        if n >= 4 and rounds == n - 1:
            ev.add("bf_every_round_updates")
        if max(nset) >= 2:
            ev.add("bf_parent_rewritten_twice")
        hits = [i for i, (u, v, w) in enumerate(es) if dist[u] != INF and dist[u] + w < dist[v]]
        if hits and hits[0] == len(es) - 1 and len(es) >= 3:
            ev.add("bf_detected_by_last_edge_only")
        if not hits and rounds >= 2 and any(w < 0 for _, _, w in es) and any(dist[u] != INF and dist[u] + w == dist[v] and dist[v] + 0 == dist[v] and u != v and par[v] != u for u, v, w in es):
            ev.add("bf_tie_between_parents")
    if case["fn"] == "floyd_warshall":
        d = [[INF] * n for _ in range(n)]
        for i in range(n):
            d[i][i] = 0
        for u, v, w in es:
            d[u][v] = min(d[u][v], w)
            if not case.get("directed", True):
                d[v][u] = min(d[v][u], w)
        for k in range(n):
            for i in range(n):
                for j in range(n):
                    if d[i][k] + d[k][j] < d[i][j]:
                        if i == k or j == k:
                            ev.add("fw_pivot_row_or_column_changes_in_place")
                        if k == n - 1 and n >= 3:
                            ev.add("fw_update_in_last_round")
                        if k < min(i, j) and i != j:
                            pass
                        d[i][j] = d[i][k] + d[k][j]
        neg = [i for i in range(n) if d[i][i] < 0]
        if len(neg) == 1 and n >= 3:
            ev.add("fw_single_negative_diagonal_entry")
        if neg and neg[0] == n - 1 and n >= 3:
            ev.add("fw_only_last_diagonal_entries_negative")
        if not neg and any(d[i][i] == 0 and any(u == i and w == 0 for u, v, w in es if u == v) for i in range(n)):
            ev.add("fw_zero_self_loop")
    return ev


def events_wsearch(case):
    import heapq

    ev = set()
    n = len(case["adj"])
    g = case["goal"]
    goals = {g[1]} if g[0] == "val" else set() if g[0] == "absent" else set(g[1])
    dist = {case["start"]: 0}
    closed = set()
    heap = [(0, 0, case["start"])]
    cnt = 1
    pushes = {}
    while heap:
        c, _, u = heapq.heappop(heap)
        if u in closed:
            ev.add("dj_stale_entry_popped")
            continue
        closed.add(u)
        if u in goals:
            if any(c2 == c and v not in closed for c2, _, v in heap):
                ev.add("dj_tie_with_goal_in_heap")
            if pushes.get(u, 0) >= 2:
                ev.add("dj_goal_pushed_twice")
            break
        for v, w in case["adj"][u]:
            if v in closed:
                ev.add("dj_closed_neighbour_skipped")
                continue
            if dist[u] + w < dist.get(v, INF):
                if v in dist:
                    pushes[v] = pushes.get(v, 1) + 1
                    if pushes[v] >= 3:
                        ev.add("dj_improved_twice")
                else:
                    pushes[v] = 1
                if w == 0:
                    ev.add("dj_zero_edge_relaxed")
                dist[v] = dist[u] + w
                heapq.heappush(heap, (dist[v], cnt, v))
                cnt += 1
    return ev


def events_search(case):
    ev = set()
    n = len(case["adj"])
    g = case["goal"]
    goals = {g[1]} if g[0] == "val" else set(g[1]) if g[0] == "pred" else set()
    visited = {case["start"]}
    fr = [case["start"]]
    bfs_mode = case["fn"] == "bfs"
    depth = {case["start"]: 0}
    while fr:
        u = fr.pop(0) if bfs_mode else fr.pop()
        if u in goals:
            break
        seen_here = set()
        for v in case["adj"][u]:
            if v in seen_here:
                ev.add("dup_neighbour_in_one_list")
            seen_here.add(v)
            if v in visited:
                if v in fr and v in goals:
                    ev.add("goal_seen_again_while_waiting")
                if v in fr and not bfs_mode:
                    ev.add("dfs_blocked_by_visited_on_push")
                if bfs_mode and v in fr and depth[v] == depth[u] + 1:
                    ev.add("bfs_second_parent_same_level")
                continue
            visited.add(v)
            depth[v] = depth[u] + 1
            fr.append(v)
    if len(visited) >= 6 and fr and len(fr) >= 3:
        ev.add("long_frontier_at_exit")
    return ev


def mutate_case(rng, case):
    c = copy.deepcopy(case)
    if c["kind"] == "edges":
        if c["edges"] and rng.random() < 0.6:
            e = rng.choice(c["edges"])
            e[2] += rng.choice([-2, -1, 1, 2])
            if c["fn"] == "dijkstra_edges":
                e[2] = abs(e[2])
        elif rng.random() < 0.5 and c["edges"]:
            rng.shuffle(c["edges"])
        else:
            c["edges"].append([rng.randrange(c["n"]), rng.randrange(c["n"]), rng.randint(-3, 5)])
    else:
        u = rng.randrange(len(c["adj"]))
        if c["kind"] == "wsearch":
            c["adj"][u].append([rng.randrange(len(c["adj"])), rng.randint(0, 4)])
        else:
            c["adj"][u].append(rng.randrange(len(c["adj"])))
        rng.shuffle(c["adj"][u])
    return c


def event_search(rng, budget, per_event):
    """returns {event: [cases]} found by random generation + mutation of witnesses"""
    found = {}
    pool = []
    for i in range(budget):
        r = i % 3
        if pool and rng.random() < 0.35:
            case = mutate_case(rng, rng.choice(pool))
        elif r == 0:
            case = gen_edges_case(rng, "H")
            case["fn"] = rng.choice(["bellman_ford", "floyd_warshall"])
            case["target"] = None if case["fn"] == "bellman_ford" and rng.random() < 0.5 else case["target"]
        elif r == 1:
            case = gen_wsearch_case(rng, "H")
        else:
            case = gen_search_case(rng, "H")
            case["labels"] = [["int", k] for k in range(len(case["labels"]))]
            case["max_iter"] = None
        case["family"] = "H"
        evs = events_edges(case) if case["kind"] == "edges" else events_wsearch(case) if case["kind"] == "wsearch" else events_search(case)
        fresh = False
        for e in evs:
            key = f"{case['fn'] if case['kind'] != 'wsearch' else 'bestfirst'}:{e}" if not e.startswith(("bf_", "fw_", "dj_")) else e
            lst = found.setdefault(key, [])
            if len(lst) < per_event:
                c = copy.deepcopy(case)
                c["event"] = key
                lst.append(c)
                fresh = True
        if fresh:
            pool.append(case)
            pool = pool[-40:]
    return found


# ================================================================================================ driver
JUDGES = {"search": judge_search, "wsearch": judge_wsearch, "edges": judge_edges, "grid": judge_grid, "big": judge_big,
          "alias": judge_alias, "work": lambda c: judge_work(c), "edit": lambda c: judge_edit(c), "xfloat": lambda c: judge_x(c)}


def judge(case):
    return JUDGES[case["kind"]](case)


def fixed_cases():
    e = lambda fn, n, edges, **kw: dict({"kind": "edges", "fn": fn, "n": n, "edges": edges, "scale": ["none"], "container": "list",  # noqa: E731
                                         "start": 0, "target": None, "directed": True, "exact": False, "family": "Mfixed"}, **kw)
    cs = []
    for fn in ("floyd_warshall", "bellman_ford"):
        cs += [e(fn, 3, [[0, 1, 1e-10], [1, 0, -2e-10], [0, 2, 1.0]]), e(fn, 2, [[0, 1, 2.0], [1, 1, -5e-10]]),
               e(fn, 3, [[0, 1, 1.0], [1, 0, -2.0], [0, 2, 1.0]]),
               e(fn, 2, [[0, 1, 1e-300], [1, 0, -2e-300]]),
               e(fn, 2, [[0, 1, 5], [1, 0, -5]], scale=["pow2", -1000], exact=True)]
    # round-off scale (-2.8e-17): floyd_warshall's order of additions sees the negative sum (bellman_ford's does not: not judged)
    cs += [e("floyd_warshall", 3, [[0, 1, 0.3], [1, 2, -0.1], [2, 0, -0.2]]), e("floyd_warshall", 2, [[0, 1, -1e-12]], directed=False), e("floyd_warshall", 2, [[0, 1, 1e-12]], directed=False)]
    chain = {"kind": "search", "labels": [["str", "a"], ["str", "b"], ["str", "c"], ["str", "d"]], "adj": [[1], [2], [3], []],
             "start": 0, "goal": ["val", 3], "max_iter": None, "family": "Ifixed"}
    for fn in ("bfs", "dfs"):
        for it in ITER_KINDS:
            cs.append(dict(chain, fn=fn, iter=it))
            cs.append(dict(chain, fn=fn, iter=it, goal=["pred", [3]]))
    cs.append({"kind": "search", "fn": "bfs", "labels": [["none"], ["int", 0], ["str", ""], ["bool", True]], "adj": [[1], [2], [3], [0]],
               "start": 0, "goal": ["val", 3], "max_iter": None, "iter": "list", "family": "Lfixed"})
    cs.append({"kind": "search", "fn": "dfs", "labels": [["int", 0], ["none"], ["tuple", []], ["float", 1.0]], "adj": [[1], [2], [3], [0]],
               "start": 1, "goal": ["val", 0], "max_iter": None, "iter": "gen", "family": "Lfixed"})
    w = {"kind": "wsearch", "labels": [["none"], ["int", 0], ["str", ""], ["off", 256, 44]], "adj": [[[1, 1], [2, 5]], [[2, 1]], [[3, 0]], []],
         "start": 0, "goal": ["val", 3], "max_iter": None, "max_cost": None, "weight": None, "hc": [1, 1], "pair": "tuple", "family": "Lfixed"}
    for fn in ("dijkstra", "astar"):
        for it in ("list", "gen", "iter", "tuple"):
            cs.append(dict(w, fn=fn, iter=it))
        cs.append(dict(w, fn=fn, iter="list", start=3, goal=["val", 0]))  # goal None as a VALUE, unreachable
        cs.append(dict(w, fn=fn, iter="list", start=1, goal=["val", 0]))
    return cs


def _corpus():
    from harness.core import VERIF

    out = []
    d = VERIF / "corpus" / "C11"
    if d.exists():
        for f in sorted(d.glob("shapes_*.json")):
            out.append(json.loads(f.read_text()))
    return out


def run_shapes(ctx):
    from harness.props import C11 as A

    rng = ctx.rng
    thorough = ctx.tier == "thorough"
    t0 = time.time()
    k = ctx.budget(120, 1000)
    cases = [c for c in _corpus()] + fixed_cases()
    for fam in ("L", "I"):
        cases += [gen_search_case(rng, fam) for _ in range(k)] + [gen_wsearch_case(rng, fam) for _ in range(k)]
    for fam, cnt in (("I", k), ("M", 2 * k), ("Mdec", k)):
        got = 0
        for _ in range(cnt * 3):
            c = gen_edges_case(rng, fam)
            if fam == "M" and c["fn"] in ("bfs_edges", "dfs_edges"):
                c["fn"] = rng.choice(["bellman_ford", "floyd_warshall"])
            if ambiguous(c):
                ctx.count("shape_skipped", "round-off could decide a cycle's sign")
                continue
            cases.append(c)
            got += 1
            if got >= cnt:
                break
    for fam in ("I", "M", "O"):
        cases += [gen_grid_case(rng, fam) for _ in range(k // 2)]
    cases += sweep_cases(rng, 4 if not thorough else 20) + grid_sweep_cases(rng, 4 if not thorough else 20)
    cases += [gen_alias_case(rng) for _ in range(2 * k)]
    cases += big_cases(thorough)
    cases += work_cases(rng, thorough)
    cases += [gen_edit_case(rng) for _ in range(2 * k)]
    cases += [gen_x_case(rng) for _ in range(3 * k)] + x_option_cases(rng, 3 if not thorough else 15)
    found = event_search(rng, ctx.budget(3000, 30000), 4 if not thorough else 12)
    for ev, cs in sorted(found.items()):
        ctx.count("shape_event", ev, len(cs))
        cases += cs
    ctx.extra["shape_events_reached"] = sorted(found)

    coq = {"bfs": [], "dfs": [], "bf": [], "fw": []}
    meta = {"bfs": [], "dfs": [], "bf": [], "fw": []}
    nviol = 0
    work_max = {}
    for case in cases:
        out, bad = judge(case)
        if case["kind"] == "work" and isinstance(out, tuple) and len(out) == 3:
            for loop, cnt in out[2].items():
                work_max[loop] = max(work_max.get(loop, 0), cnt)
                for thr in (2 ** 7, 2 ** 10, 2 ** 11, 2 ** 12, 10 ** 4, 10 ** 5, 2 ** 20):
                    if cnt > thr:
                        ctx.count("work_volume_crossed", f"{loop} > {thr}")
        if is_observation(case):
            ctx.count("observation_only", (case.get("sub") or "inf option / inf heuristic") + ": " + ("as property" if not bad else "hang" if "hang" in str(out[:1]) else "deviates / raises"))
            ctx.evaluations += 1
            continue
        fam = case.get("family", "S" if case["kind"] == "big" else "?")
        ctx.count("shape_family", fam)
        ctx.count("shape_fn", case.get("fn", "astar_grid" if case["kind"] == "grid" else "?"))
        if case["kind"] in ("search", "wsearch"):
            ctx.count("shape_iter", case.get("iter"))
        if bad:
            nviol += 1
            if nviol <= 6:
                ctx.violation(f"[shape class {fam}] {bad}", {"part": PART, "case": case, "impl": _jsonable(out)})
            continue
        ctx.nontriv(("shape", json.dumps(case, sort_keys=True, default=str)[:400]))
        ctx.sample({"shape_case": case, "impl": _jsonable(out)}, 6)
        if case["kind"] == "search" and case["iter"] != "set" and len(coq[case["fn"]]) < 1500 and (case["max_iter"] is None or isinstance(case["max_iter"], int)):
            coq[case["fn"]].append(coq_search(case, out))
            meta[case["fn"]].append(case)
        elif case["kind"] == "edges":
            c = coq_edges(case, out)
            if c is not None and c[1] is None:
                ctx.violation(f"[shape class {fam}] {case['fn']}: result is not an exact multiple of the scale {case.get('scale')} (scaling by an exactly representable factor must scale distances exactly)",
                              {"part": PART, "case": case, "impl": _jsonable(out)})
            elif c is not None and len(coq[c[0]]) < 1500:
                coq[c[0]].append(c[1])
                meta[c[0]].append(case)
    ctype = "Bfs.adjl * nat * option (nat -> bool) * Z * Bfs.result"
    fails = {}
    for which in ("bfs", "dfs"):
        fails[which] = ctx.coq_check("shape_" + which, A.IMPORTS, ctype,
                                     f"fun c => let '(adj, s, g, mi, r) := c in Bfs.obs_eqb (Bfs.{which} adj s g mi) r", coq[which], shard=400)
    fails["bf"] = ctx.coq_check("shape_bf", A.IMPORTS, "nat * wgraph * nat * option nat * BF.result",
                                "fun c => let '(s, es, n, t, r) := c in BF.result_eqb (BF.bellman_ford s es n t) r", coq["bf"], shard=400)
    fails["fw"] = ctx.coq_check("shape_fw", A.IMPORTS, "nat * wgraph * bool * FW.result",
                                "fun c => let '(n, es, dir, r) := c in FW.result_eqb (FW.floyd_warshall n es dir) r", coq["fw"], shard=300)
    if not ctx.violations:
        for which, fl in fails.items():
            for i in fl[:1]:
                ctx.violation(f"correspondence lemma shape_{which}: Gallina model and implementation differ on a shape-family case (the Python oracle accepted the output)",
                              {"part": PART, "case": meta[which][i], "coq_case": coq[which][i], "lemma": f"Cases/C11/shape_{which}_*.v corr"}, no_input=True)
    ctx.notes += [
        "shape families (HARDENING.md): L labels built fresh at every call-back call (None, falsy, ints >= 257 by arithmetic, fresh tuples/str/frozensets, mixed); "
        "I neighbours as tuple/generator/iterator/map/dict keys/set/deque/chain, edge lists as tuples / lists of lists, grids as tuples, blocked as set/frozenset; "
        "S chains/rings/trees/stars/parallel edges/grids up to 10^5..10^6 elements with answers known by construction; "
        "M exact scalings by 2^31..10^18 and 2^-10..2^-1000, huge offsets, values beyond 2^53 (relative tolerance 1e-9), decimal weights perturbed by 1e-12..1e-9 "
        "(exact Fraction oracle on the doubles; inputs where round-off could decide the sign of a cycle are skipped and counted); "
        "O max_iter / max_cost / weight / heuristic / directions sweeps; A inputs unchanged, repeated and interleaved calls incl. both back-ends; "
        "H inputs reaching internal events of instrumented reference ports",
        "a goal VALUE None means 'no goal' for bfs/dfs (documented), so the label None is only used as start / inner node / predicate goal there",
        "observation (not judged): bellman_ford keeps distances as floats even for int weights, so cancellation beyond 2^53 is lost: "
        "bellman_ford(0, [(0,1,2**60),(1,2,-2**60),(2,0,-1)], 3) answers OPTIMAL with dist[0] = -1 instead of UNBOUNDED (floyd_warshall, which keeps ints, "
        "answers UNBOUNDED); magnitudes beyond 2^53 are therefore only generated with non-negative weights and judged with relative tolerance 1e-9",
    ]
    ctx.extra["work_volume_max"] = work_max
    ctx.notes += [
        "round 3: W work-volume instances (parallel-edge fans listed heaviest first, dense quadratic DAGs, layered graphs, weighted grids, reversed "
        "chains, rings, long chains, combs) maximise heap entries / stale pops / settled nodes / relaxation rounds / inner steps / frontier length; "
        "the counts reached are in coverage.work_volume_max; A2 in-place edits of the caller's edge list / adjacency behind the same neighbours "
        "function / grid, costs, blocked between calls, compared with a fresh call on a deep copy, incl. sibling functions and both back-ends; "
        "X int vs integral float in every numeric argument, -0.0, inf/NaN weights (must raise or equal the answer without those edges), costs near "
        "1e308 (non-negative; unrepresentable distances must come out as inf), exact integers beyond 2^53 that cancel (status exact, distances within "
        "1e-9 of the largest input magnitude)",
        "observation-only (outside the property by the coordinator's POLICY_X; run under a 0.3 s guard, counted in histogram observation_only, never a "
        "violation): NaN / inf as weight, option or heuristic value; finite floats whose sums overflow (|v| >= 1e300); integer weights whose exact sums exceed "
        "2^53 mixed with negative weights for the float-valued bellman_ford / floyd_warshall (cancellation is lost: missed negative cycles, and "
        "_reconstruct_indexed can follow a parent cycle forever)",
    ]
    ctx.extra["shape_wall_s"] = round(time.time() - t0, 1)


def _jsonable(out):
    try:
        json.dumps(out)
        return out
    except TypeError:
        return repr(out)[:500]


def replay(obj):
    case = obj.get("case", obj)
    out, bad = judge(case)
    print("case:", json.dumps(case)[:600])
    print("implementation:", repr(out)[:400])
    print("verdict:", bad or "ok")
    return 1 if bad else 0


# ================================================================================================ work volume (class W, round 3)
# {"kind": "work", "shape": name, "fn": name, ...parameters}: instances that maximise the iteration count of one internal
# loop (heap entries incl. stale ones, pops, relaxation rounds, inner steps, queue/stack length, path reconstruction) at
# moderate input size, judged by construction or by a naive exact reference.  `work` reports the counts reached.
def build_work_graph(case):
    """adjacency dict {u: [(v, w), ...]} for the weighted work shapes"""
    shape = case["shape"]
    if shape == "fan_ring":  # source -> K successors through P parallel edges each, then a ring of light edges
        K, P, stride, order = case["K"], case["P"], case.get("stride", 7919), case.get("order", "desc")
        adj = {0: []}
        for i in range(1, K + 1):
            base = 10 + (i * stride) % case.get("mod", 1000)
            ws = [base + j for j in range(P)]
            if order == "desc":
                ws.reverse()
            elif order == "zigzag":
                ws = ws[::2][::-1] + ws[1::2][::-1]
            adj[0] += [(i, w) for w in ws]
        if case.get("interleave"):
            adj[0] = [adj[0][(j * K + i) % (K * P)] if False else adj[0][i * P + j] for j in range(P) for i in range(K)]
        for i in range(1, K + 1):
            adj[i] = [(i % K + 1, case.get("ring_w", 1))]
        return adj
    if shape == "dense_quadratic":  # complete DAG, w(i,j) = (j-i)^2 + c: every node is improved by each predecessor in turn
        n, c = case["n"], case.get("c", 0)
        return {i: [(j, (j - i) ** 2 + c * (j - i - 1)) for j in range(n - 1, i, -1)] for i in range(n)}
    if shape == "layered_desc":  # L layers of width B, complete bipartite between layers, weights descending in listing order
        L, B = case["L"], case["B"]
        adj = {}
        for layer in range(L):
            for a in range(B):
                u = 1 + layer * B + a
                adj[u] = [] if layer == L - 1 else [(1 + (layer + 1) * B + b, 1 + ((a * 31 + b * 17) % 23)) for b in range(B)]
        adj[0] = [(1 + a, 5 + a) for a in range(B)]
        return adj
    raise ValueError(shape)


def naive_dists(adj, s):
    """label-correcting reference on the minimum parallel edges (exact ints)"""
    best = {}
    for u, es in adj.items():
        for v, w in es:
            if (u, v) not in best or w < best[(u, v)]:
                best[(u, v)] = w
    out = {}
    for (u, v), w in best.items():
        out.setdefault(u, []).append((v, w))
    dist = {s: 0}
    todo = [s]
    while todo:
        nxt = []
        for u in todo:
            for v, w in out.get(u, []):
                if dist[u] + w < dist.get(v, INF):
                    dist[v] = dist[u] + w
                    nxt.append(v)
        todo = nxt
    return dist


def heap_profile(adj, s):
    """instrumented textbook lazy-deletion Dijkstra: how much work the instance causes"""
    import heapq

    dist = {s: 0}
    closed = set()
    heap = [(0, 0, s)]
    cnt = 1
    prof = {"pushes": 1, "max_heap": 1, "stale_pops": 0, "pops": 0, "max_improvements": 0}
    imp = {}
    while heap:
        prof["max_heap"] = max(prof["max_heap"], len(heap))
        d, _, u = heapq.heappop(heap)
        if u in closed:
            prof["stale_pops"] += 1
            continue
        closed.add(u)
        prof["pops"] += 1
        for v, w in adj.get(u, []):
            if v not in closed and d + w < dist.get(v, INF):
                dist[v] = d + w
                imp[v] = imp.get(v, 0) + 1
                heapq.heappush(heap, (d + w, cnt, v))
                cnt += 1
                prof["pushes"] += 1
    prof["max_improvements"] = max(imp.values()) if imp else 0
    return prof


def call_work(case):
    from solvor.a_star import astar, astar_grid
    from solvor.bellman_ford import bellman_ford
    from solvor.bfs import bfs, dfs
    from solvor.dijkstra import dijkstra, dijkstra_edges
    from solvor.floyd_warshall import floyd_warshall

    shape, fn = case["shape"], case["fn"]
    work = {}
    if shape in ("fan_ring", "dense_quadratic", "layered_desc"):
        adj = build_work_graph(case)
        n = max(adj) + 1
        want = naive_dists(adj, 0)
        prof = heap_profile(adj, 0)
        work = {"heap_entries": prof["max_heap"], "heap_pushes": prof["pushes"], "stale_pops": prof["stale_pops"], "settled": prof["pops"],
                "improvements_per_node": prof["max_improvements"]}
        wsof = {}
        for u, es in adj.items():
            for v, w in es:
                wsof.setdefault((u, v), set()).add(w)
        targets = case.get("targets") or sorted(want)[1:]
        if fn == "dijkstra_edges_all":
            es = [(u, v, w) for u, ws in adj.items() for v, w in ws]
            r = dijkstra_edges(n, es, 0, backend="python")
            got = {k: canon(v) for k, v in r.solution.items()}
            bad = [(t, got.get(t), want.get(t)) for t in range(n) if got.get(t) != want.get(t)]
            return work, (f"dijkstra_edges (all distances): {len(bad)} of {n} distances wrong, e.g. node {bad[0][0]}: {bad[0][1]} instead of {bad[0][2]}" if bad else None)
        es = [(u, v, w) for u, ws in adj.items() for v, w in ws] if fn == "dijkstra_edges" else None
        to_goal = None
        bads = []
        for t in targets:
            if fn == "dijkstra":
                r = dijkstra(0, t, lambda u: adj.get(u, []))
            elif fn == "dijkstra_pred":
                r = dijkstra(0, lambda x, t=t: x == t, lambda u: (e for e in adj.get(u, [])))
            elif fn == "dijkstra_edges":
                r = dijkstra_edges(n, es, 0, target=t, backend="python")
            else:  # astar with h = 0 or a consistent lower bound (half the exact distance to the target, rounded down)
                if case.get("h") == "half":
                    radj = {}
                    for u, ws in adj.items():
                        for v, w in ws:
                            radj.setdefault(v, []).append((u, w))
                    dt = naive_dists(radj, t)
                    hf = lambda x, dt=dt: dt.get(x, INF) // 2 if x in dt else INF  # noqa: E731
                else:
                    hf = lambda x: 0  # noqa: E731
                r = astar(0, t, lambda u: adj.get(u, []), hf)
            st, path, obj = status_name(r), r.solution, canon(r.objective)
            if st != "OPTIMAL" or path is None:
                bads.append(f"target {t}: status {st}, true distance {want.get(t)}")
                continue
            sums = {0}
            okp = path[0] == 0 and path[-1] == t
            for a, b in zip(path, path[1:]):
                if (a, b) not in wsof:
                    okp = False
                    break
                sums = {x + w for x in sums for w in wsof[(a, b)]}
            if not okp:
                bads.append(f"target {t}: returned path is not a path of the graph")
            elif obj != want[t]:
                bads.append(f"target {t}: reported distance {obj}, true shortest distance {want[t]}")
            elif obj not in sums:
                bads.append(f"target {t}: objective {obj} is not the weight of the returned path")
        return work, (f"{fn} on {shape}: wrong on {len(bads)} of {len(targets)} targets, e.g. {bads[0]}" if bads else None)
    if shape == "grid_costs":
        R, C = case["R"], case["C"]
        grid = [[(0 if (r * 7 + c * 3) % 11 else 2) if (r * 5 + c) % 13 else 3 for c in range(C)] for r in range(R)]
        gcase = {"kind": "grid", "grid": grid, "start": [0, 0], "goal": [R - 1, C - 1], "directions": case.get("directions", 8),
                 "heuristic": case.get("heuristic", "euclidean"), "blocked": 1, "costs": {"2": 2, "3": 4}}
        out, bad = judge_grid(gcase)
        d, _ = grid_ref(gcase)
        return {"grid_cells_reachable": len(d)}, bad
    if shape == "bf_rev_chain":  # chain listed in reverse path order: every one of the n-1 rounds updates exactly one more node
        n = case["n"]
        w = lambda i: (i % 5) - 1  # noqa: E731  (-1 .. 3: negative edges, no cycle at all)
        es = [(i, i + 1, w(i)) for i in range(n - 1)]
        es.reverse()
        acc, want = 0, []
        for i in range(n):
            want.append(acc)
            acc += w(i)
        r = bellman_ford(0, es, n, target=n - 1, backend="python")
        ok = (status_name(r), r.solution, canon(r.objective)) == ("OPTIMAL", list(range(n)), want[-1])
        if n <= 2000:
            r2 = bellman_ford(0, es, n, backend="python")
            ok2 = status_name(r2) == "OPTIMAL" and [canon(r2.solution.get(i)) for i in range(n)] == want
        else:
            ok2 = True
        es2 = es + [(n - 1, n - 2, -w(n - 2) - 1)]  # closes a cycle of weight -1 at the far end
        r3 = bellman_ford(0, es2, n, backend="python")
        ok3 = status_name(r3) == "UNBOUNDED"
        work = {"bf_rounds": n - 1, "bf_inner_steps": (n - 1) * (n - 1), "path_reconstruction_steps": n - 1}
        return work, None if ok and ok2 and ok3 else f"bellman_ford on a reversed chain of {n} nodes: path/objective ok={ok}, distance vector ok={ok2}, far negative cycle reported={ok3}"
    if shape == "fw_ring":
        n = case["n"]
        es = [(i, (i + 1) % n, 1 + (i % 2)) for i in range(n)]
        pre = [0]
        for i in range(2 * n):
            pre.append(pre[-1] + 1 + ((i % n) % 2))
        r = floyd_warshall(n, es, backend="python")
        bad = None
        if status_name(r) != "OPTIMAL":
            bad = f"status {status_name(r)}"
        else:
            for i in range(n):
                for j in range(n):
                    want = pre[j if j >= i else j + n] - pre[i]
                    if canon(r.solution[i][j]) != want:
                        bad = f"dist[{i}][{j}] = {r.solution[i][j]!r}, by construction {want}"
                        break
                if bad:
                    break
        return {"fw_inner_steps": n ** 3, "fw_pivots": n}, (f"floyd_warshall on a ring of {n} nodes: {bad}" if bad else None)
    if shape in ("long_chain", "comb"):
        n = case["n"]
        f = bfs if fn.startswith("bfs") else dfs
        kw = {"max_iter": case["max_iter"]} if case.get("max_iter") else {}
        if shape == "long_chain":
            r = f(0, n - 1, lambda s: (s + 1,) if s + 1 < n else (), **kw)
            ok = (r.solution is not None and len(r.solution) == n and r.solution[:2] == [0, 1] and r.solution[-1] == n - 1 and r.objective == n - 1
                  and all(r.solution[i] == i for i in range(0, n, max(1, n // 50))))
            return {"search_iterations": n, "path_reconstruction_steps": n - 1}, None if ok else f"{fn} on a chain of {n} nodes: status {status_name(r)}, objective {r.objective}"
        # comb: spine 0..n-1, every spine node also has `teeth` leaf neighbours listed BEFORE the next spine node
        teeth = case["teeth"]
        leaf = lambda s, k: n + s * teeth + k  # noqa: E731
        nb = lambda s: ([leaf(s, k) for k in range(teeth)] + ([s + 1] if s + 1 < n else [])) if s < n else []  # noqa: E731
        r = f(0, n - 1, nb, **kw)
        ok = r.solution == list(range(n)) and r.objective == n - 1
        return {"frontier_length": n * teeth if fn == "bfs" else teeth * n, "search_iterations": n * (teeth + 1) if fn == "bfs" else n},             None if ok else f"{fn} on a comb ({n} spine nodes, {teeth} teeth each): status {status_name(r)}, objective {r.objective}"
    raise ValueError(case)


def judge_work(case):
    t0 = time.time()
    res = guarded(call_work, case, timeout=60)
    dt = round(time.time() - t0, 2)
    if res[0] != "ok":
        return (res[:2], dt, {}), f"{case['fn']} on {case['shape']}: implementation {res[:2]} {str(res[2:])[:120]}"
    work, bad = res[1]
    return ("ok" if not bad else "bad", dt, work), bad


def work_cases(rng, thorough):
    out = []
    K0 = rng.choice([300, 420, 530])
    fans = [(K0, rng.choice([12, 15, 17]), "desc"), (rng.choice([900, 1100]), 6, "desc"), (rng.choice([200, 260]), 24, "zigzag"), (64, 5, "desc")]
    fans += [(2600, 5, "desc"), (4300, 2, "desc"), (10050, 2, "desc")] if not thorough else [(2600, 5, "desc"), (10050, 2, "desc"), (5000, 21, "desc"), (20000, 6, "zigzag"), (110000, 2, "desc")]
    for K, P, order in fans:
        base = {"kind": "work", "shape": "fan_ring", "K": K, "P": P, "order": order, "stride": rng.choice([7919, 104729, 389]), "mod": rng.choice([1000, 97, 5000]) if K < 2000 else 97,
                "ring_w": rng.choice([1, 1, 2]), "family": "W"}
        tg = sorted(set([1, 2, K // 2, K - 1, K] + [rng.randint(1, K) for _ in range(10 if K <= 1200 else 3)]))
        for fn in ("dijkstra", "astar", "dijkstra_edges"):
            out.append(dict(base, fn=fn, targets=tg if fn == "dijkstra" else tg[:6]))
        out.append(dict(base, fn="dijkstra_pred", targets=tg[:4]))
        out.append(dict(base, fn="dijkstra_edges_all"))
        out.append(dict(base, fn="dijkstra", interleave=True, targets=tg[:6]))
    for n in [40, 100, 150] + ([460] if thorough else []):
        base = {"kind": "work", "shape": "dense_quadratic", "n": n, "c": rng.choice([0, 1]), "family": "W"}
        tg = sorted(set([1, n // 2, n - 2, n - 1] + [rng.randrange(1, n) for _ in range(4)]))
        out += [dict(base, fn="dijkstra", targets=tg), dict(base, fn="astar", targets=tg[:4], h="half"), dict(base, fn="astar", targets=tg[:3]),
                dict(base, fn="dijkstra_edges", targets=tg[:3]), dict(base, fn="dijkstra_edges_all")]
    for L, B in [(6, 30), (4, 70)] + ([(5, 150)] if thorough else []):
        base = {"kind": "work", "shape": "layered_desc", "L": L, "B": B, "family": "W"}
        tg = [L * B, L * B - B + 1, (L - 1) * B + rng.randint(1, B)]
        out += [dict(base, fn="dijkstra", targets=tg), dict(base, fn="astar", targets=tg, h="half"), dict(base, fn="dijkstra_edges_all")]
    for R, C in [(70, 70), (110, 110)] + ([(330, 330)] if thorough else []):
        out += [{"kind": "work", "shape": "grid_costs", "fn": "astar_grid", "R": R, "C": C, "directions": d, "heuristic": h, "family": "W"}
                for d, h in ((4, "manhattan"), (8, "euclidean"))]
    for n in [130, 1030, 4100] + ([6000] if thorough else []):
        out.append({"kind": "work", "shape": "bf_rev_chain", "fn": "bellman_ford", "n": n, "family": "W"})
    for n in [17, 129] + ([257] if thorough else []):
        out.append({"kind": "work", "shape": "fw_ring", "fn": "floyd_warshall", "n": n, "family": "W"})
    for n in [2 ** 12 + 2, 10 ** 4 + 2, 10 ** 5 + 2] + ([2 ** 20 + 2] if thorough else []):
        for fn in ("bfs", "dfs"):
            out.append({"kind": "work", "shape": "long_chain", "fn": fn, "n": n, "max_iter": 2 ** 21 if n > 10 ** 6 else None, "family": "W"})
    for n, teeth in [(70, 70), (110, 100)] + ([(1030, 1030)] if thorough else []):
        for fn in ("bfs", "dfs"):
            out.append({"kind": "work", "shape": "comb", "fn": fn, "n": n, "teeth": teeth, "max_iter": 2 ** 21 if n * teeth > 900000 else None, "family": "W"})
    return out


# ================================================================================================ in-place edits between calls (class A2, round 3)
# {"kind": "edit", "fn": name, "n": n, "edges": [[u, v, w]], "edits": [[op, ...]], "start": s, "target": t}
# The caller's object is used for a call, MUTATED IN PLACE, used again (and handed to the sibling functions of the module);
# every answer must equal the answer of a fresh call on a deep copy of the object as it is at that moment.
def apply_edit(edges, ed):
    op = ed[0]
    if op == "weight" and edges:
        edges[ed[1] % len(edges)][2] = ed[2]
    elif op == "append":
        edges.append([ed[1], ed[2], ed[3]])
    elif op == "pop" and edges:
        edges.pop(ed[1] % len(edges))
    elif op == "replace" and edges:
        edges[ed[1] % len(edges)] = [ed[2], ed[3], ed[4]]
    elif op == "reverse":
        edges.reverse()


def call_edit(case):
    from solvor.a_star import astar, astar_grid
    from solvor.bellman_ford import bellman_ford
    from solvor.bfs import bfs, bfs_edges, dfs, dfs_edges
    from solvor.dijkstra import dijkstra, dijkstra_edges
    from solvor.floyd_warshall import floyd_warshall
    from solvor.rust import rust_available

    fn = case["fn"]
    probs = []
    n, s, t = case.get("n"), case.get("start"), case.get("target")
    backends = ["python"] + (["rust"] if rust_available() else [])
    if fn == "grid":
        grid = [list(r) for r in case["grid"]]
        costs = {2: 2, 3: 3}
        blocked = {1}
        kw = lambda g, c, b, d: dict(directions=d, costs=c, blocked=b)  # noqa: E731
        steps = [None] + case["edits"]
        for ed in steps:
            if ed is not None:
                if ed[0] == "cell":
                    grid[ed[1] % len(grid)][ed[2] % len(grid[0])] = ed[3]
                elif ed[0] == "cost":
                    costs[ed[1]] = ed[2]
                elif ed[0] == "block":
                    blocked.symmetric_difference_update({ed[1]})
            if grid[case["start"][0]][case["start"][1]] in blocked or grid[case["goal"][0]][case["goal"][1]] in blocked:
                continue
            for d in (4, 8):
                got = _canon_result(astar_grid(grid, tuple(case["start"]), tuple(case["goal"]), **kw(grid, costs, blocked, d)))
                g2, c2, b2 = copy.deepcopy((grid, costs, blocked))
                want = _canon_result(astar_grid(g2, tuple(case["start"]), tuple(case["goal"]), **kw(g2, c2, b2, d)))
                if got != want:
                    probs.append(f"astar_grid(directions={d}) after the in-place edit {ed}: {got} but a fresh call on a copy gives {want}")
        return probs
    if fn in ("bfs", "dfs", "dijkstra", "astar"):
        weighted = fn in ("dijkstra", "astar")
        store = {i: [] for i in range(n)}
        for u, v, w in case["edges"]:
            store[u].append((v, abs(w)) if weighted else v)
        nb = lambda x: store.get(x, [])  # noqa: E731  the SAME function object for every call
        hz = lambda x: 0  # noqa: E731
        f = {"bfs": bfs, "dfs": dfs, "dijkstra": dijkstra, "astar": astar}[fn]
        sib = {"bfs": dfs, "dfs": bfs, "dijkstra": astar, "astar": dijkstra}[fn]

        def run(g, fun, nbf):
            return _canon_result(fun(s, g, nbf, hz) if fun is astar else fun(s, g, nbf))

        for ed in [None] + case["edits"]:
            if ed is not None:
                if ed[0] == "append":
                    store[ed[1] % n].append((ed[2] % n, abs(ed[3])) if weighted else ed[2] % n)
                elif ed[0] == "pop" and store[ed[1] % n]:
                    store[ed[1] % n].pop()
                elif ed[0] == "weight" and weighted and store[ed[1] % n]:
                    v, _ = store[ed[1] % n][0]
                    store[ed[1] % n][0] = (v, abs(ed[2]))
                elif ed[0] == "reverse":
                    store[ed[1] % n].reverse()
                elif ed[0] == "clear":
                    store[ed[1] % n].clear()
            for fun in (f, sib, f):
                for goal in (t, (t + 1) % n):
                    got = run(goal, fun, nb)
                    fresh = copy.deepcopy(store)
                    want = run(goal, fun, lambda x, fresh=fresh: fresh.get(x, []))
                    if got != want:
                        probs.append(f"{fun.__name__}(goal={goal}) after the in-place edit {ed} of the graph behind the same neighbours function: {got}, fresh call on a copy: {want}")
        return probs
    edges = [list(e) for e in case["edges"]]
    if fn == "dijkstra_edges":
        for e in edges:
            e[2] = abs(e[2])

    def calls(es, be):
        pairs = [[u, v] for u, v, _ in es]
        if fn == "bellman_ford":
            return [("bellman_ford", lambda: bellman_ford(s, es, n, backend=be)), ("bellman_ford(target)", lambda: bellman_ford(s, es, n, target=t, backend=be))]
        if fn == "floyd_warshall":
            return [("floyd_warshall", lambda: floyd_warshall(n, es, backend=be)), ("floyd_warshall(directed=False)", lambda: floyd_warshall(n, es, directed=False, backend=be))]
        if fn == "dijkstra_edges":
            return [("dijkstra_edges", lambda: dijkstra_edges(n, es, s, backend=be)), ("dijkstra_edges(target)", lambda: dijkstra_edges(n, es, s, target=t, backend=be))]
        return [("bfs_edges", lambda: bfs_edges(n, pairs, s, target=t, backend=be)), ("dfs_edges", lambda: dfs_edges(n, pairs, s, target=t, backend=be)),
                ("bfs_edges(all)", lambda: bfs_edges(n, pairs, s, backend=be))]

    def safe(th):
        try:
            return _canon_result(th())
        except Exception as e:  # noqa: BLE001
            return ("exc", type(e).__name__)

    for ed in [None] + case["edits"]:
        if ed is not None:
            apply_edit(edges, ed)
            if fn == "dijkstra_edges":
                for e in edges:
                    e[2] = abs(e[2])
        for be in backends:
            fresh = copy.deepcopy(edges)
            for (name, th), (_, th2) in zip(calls(edges, be), calls(fresh, be)):
                got, want = safe(th), safe(th2)
                if got != want:
                    probs.append(f"{name} (backend={be}) after the in-place edit {ed} of the caller's edge list: {got}, fresh call on a copy: {want}")
    return probs


def judge_edit(case):
    from harness.props import C11 as A

    res = guarded(call_edit, case, timeout=max(3, A._limit()))
    if res[0] != "ok":
        if res[0] == "hang":
            A._seen_hang()
        return res, f"{case['fn']} edit sequence: implementation {res}"
    return ("ok", len(res[1])), (res[1][0] if res[1] else None)


def gen_edit_case(rng):
    from harness.props import C11 as A

    fn = rng.choice(["bellman_ford", "floyd_warshall", "dijkstra_edges", "bfs_edges", "bfs", "dfs", "dijkstra", "astar", "grid"])
    if fn == "grid":
        g = gen_grid_case(rng, "A2")
        eds = []
        R, C = len(g["grid"]), len(g["grid"][0])
        for _ in range(rng.randint(2, 5)):
            r = rng.random()
            eds.append(["cell", rng.randrange(R), rng.randrange(C), rng.choice([0, 1, 2, 3])] if r < 0.6 else ["cost", rng.choice([2, 3]), rng.choice([1, 2, 5])] if r < 0.85 else ["block", rng.choice([2, 3])])
        return {"kind": "edit", "fn": "grid", "grid": g["grid"], "start": g["start"], "goal": g["goal"], "edits": eds, "family": "A2"}
    n, edges, _ = A.gen_wgraph(rng)
    eds = []
    for _ in range(rng.randint(2, 5)):
        r = rng.random()
        if r < 0.3:
            eds.append(["weight", rng.randrange(20), rng.randint(-3, 6)])
        elif r < 0.6:
            eds.append(["append", rng.randrange(n), rng.randrange(n), rng.randint(-2, 6)])
        elif r < 0.75:
            eds.append(["pop", rng.randrange(20)])
        elif r < 0.9:
            eds.append(["replace", rng.randrange(20), rng.randrange(n), rng.randrange(n), rng.randint(-2, 6)])
        else:
            eds.append(rng.choice([["reverse", rng.randrange(n)], ["clear", rng.randrange(n)]]))
    return {"kind": "edit", "fn": fn, "n": n, "edges": [list(e) for e in edges], "edits": eds, "start": rng.randrange(n), "target": rng.randrange(n), "family": "A2"}


# ================================================================================================ float extremes (class X, round 3)
# {"kind": "xfloat", "sub": "intfloat"|"negzero"|"infnan"|"overflow"|"cancel"|"hinf", "fn": name, "n": n, "edges": [[u, v, w]],
#  "start": s, "target": t|None, "directed": bool, ...}
MAXF = Fraction(1.7976931348623157e308)


def _num(x, mode):
    """int <-> integral float"""
    if isinstance(x, bool) or x is None:
        return x
    if mode == "float" and isinstance(x, int) and abs(x) < 2 ** 53:
        return float(x)
    if mode == "int" and isinstance(x, float) and x == int(x):
        return int(x)
    return x


def bf_float_port(start, edges, n, target):
    """the documented algorithm with float distances (what the code does today): used only to recognise the known
    float-cancellation behaviour, never as an oracle"""
    dist = [INF] * n
    par = [-1] * n
    dist[start] = 0.0
    for _ in range(n - 1):
        upd = False
        for u, v, w in edges:
            if dist[u] != INF and dist[u] + w < dist[v]:
                dist[v] = dist[u] + w
                par[v] = u
                upd = True
        if not upd:
            break
    for u, v, w in edges:
        if dist[u] != INF and dist[u] + w < dist[v]:
            return ("Unbounded", "-inf", None)
    if target is None:
        return ("Dists", [canon(x) for x in dist])
    if dist[target] == INF:
        return ("Infeasible", None, None)
    x, steps = target, 0
    while par[x] != -1:
        x = par[x]
        steps += 1
        if steps > n:
            return ("Hang",)
    return ("Path", None, canon(dist[target]))


def fw_float_port(n, edges, directed):
    """the documented algorithm with the float 0.0 diagonal the code uses today (recognition of the known class only)"""
    d = [[INF] * n for _ in range(n)]
    for i in range(n):
        d[i][i] = 0.0
    for u, v, w in edges:
        d[u][v] = min(d[u][v], w)
        if not directed:
            d[v][u] = min(d[v][u], w)
    for k in range(n):
        for i in range(n):
            for j in range(n):
                if d[i][k] + d[k][j] < d[i][j]:
                    d[i][j] = d[i][k] + d[k][j]
    if any(d[i][i] < 0 for i in range(n)):
        return ("Unbounded",)
    return ("Dist", [[canon(x) for x in row] for row in d])


def call_x(case):
    """returns (outcome, problem)"""
    sub, fn = case["sub"], case["fn"]
    n, s, t = case["n"], case["start"], case.get("target")
    base = {"kind": "edges", "fn": fn, "n": n, "edges": case["edges"], "scale": ["none"], "container": "list", "start": s, "target": t,
            "directed": case.get("directed", True), "exact": True}
    if sub in ("intfloat", "negzero"):
        a = call_edges(base)
        if sub == "intfloat":
            alt = dict(base, edges=[[u, v, _num(w, "float" if isinstance(w, int) else "int")] for u, v, w in case["edges"]])
        else:
            z = case.get("zero", -0.0)
            alt = dict(base, edges=[[u, v, (z if w == 0 else w)] for u, v, w in case["edges"]])
        b = call_edges(alt)
        return (a[0], b[0]), None if a == b else f"{fn}: {'int vs integral-float weights' if sub == 'intfloat' else 'weights 0 vs ' + repr(case.get('zero', -0.0))} change the answer: {a} vs {b}"
    if sub == "infnan":
        special = [e for e in case["edges"] if isinstance(e[2], float) and (e[2] != e[2] or e[2] in (INF, -INF))]
        plain = dict(base, edges=[e for e in case["edges"] if e not in special])
        try:
            a = call_edges(base)
        except (ValueError, TypeError) as e:
            return ("raised", type(e).__name__), None
        b = call_edges(plain)
        return (a[0], b[0]), None if a == b else f"{fn} with edges of weight {sorted({repr(e[2]) for e in special})}: answer {a} is neither an error nor the answer without those edges {b}"
    if sub == "overflow":
        out = call_edges(base)
        es = [(u, v, Fraction(w)) for u, v, w in case["edges"]]
        if fn == "floyd_warshall" and not case.get("directed", True):
            es = [e for (u, v, w) in es for e in ((u, v, w), (v, u, w))]
        from harness.props import C11 as A

        orc = A.GraphOracle(n, es)

        def okd(got, want):
            if want is None or want > MAXF:
                return got is None  # unreachable, or not representable: inf
            return got is not None and close(got, want)

        if fn == "floyd_warshall":
            if out[0] != "Dist":
                return out[0], f"{fn} near 1e308: {out[0]} on a graph without negative weights"
            for i in range(n):
                for j in range(n):
                    if not okd(out[1][i][j], orc.dist(i, j)):
                        return out[0], f"{fn} near 1e308: dist[{i}][{j}] = {out[1][i][j]!r}, exact {float(orc.dist(i, j)) if orc.dist(i, j) is not None and orc.dist(i, j) <= MAXF else orc.dist(i, j)!r}"
            return out[0], None
        if t is None:
            if out[0] != "Dists":
                return out[0], f"{fn} near 1e308: {out}"
            for v in range(n):
                if not okd(out[1][v], orc.dist(s, v)):
                    return out[0], f"{fn} near 1e308: dist[{v}] = {out[1][v]!r}, exact {orc.dist(s, v)!r}"
            return out[0], None
        d = orc.dist(s, t)
        if d is None or d > MAXF:
            return out[0], None if out[0] in ("Infeasible",) else f"{fn} near 1e308: target {t} has no representable distance but result is {out}"
        if out[0] != "Path" or not close(out[2], d):
            return out[0], f"{fn} near 1e308: result {out}, exact distance {float(d)!r}"
        ok = out[1] and out[1][0] == s and out[1][-1] == t and all((a, b) in orc.ws for a, b in zip(out[1], out[1][1:]))
        return out[0], None if ok else f"{fn} near 1e308: {out[1]} is not a path {s}->{t}"
    if sub == "cancel":
        base["exact"] = float(max([abs(w) for _, _, w in case["edges"]] + [1]))
        out = call_edges(base)
        return out[0], None
    raise ValueError(sub)


OBSERVATION_SUBS = ("infnan", "overflow", "cancel")  # outside the property (coordinator's POLICY_X a, b, c): run, counted, never judged


def is_observation(case):
    if case["kind"] == "xfloat":
        return case["sub"] in OBSERVATION_SUBS
    return case.get("hinf") or any(isinstance(case.get(k), float) and case.get(k) in (INF, -INF) for k in ("max_iter", "max_cost"))


def judge_x(case):
    from harness.props import C11 as A

    obs = case["sub"] in OBSERVATION_SUBS
    res = guarded(call_x, case, timeout=0.3 if obs else A._limit())  # a hang (parent cycle by float absorption) is cut quickly
    if res[0] != "ok":
        if res[0] == "hang" and not obs:
            A._seen_hang()
        return res, f"{case['fn']} ({case['sub']}): implementation {res}"
    return res[1]


def gen_x_case(rng):
    from harness.props import C11 as A

    n, edges, _ = A.gen_wgraph(rng)
    sub = rng.choice(["intfloat", "negzero", "infnan", "overflow", "cancel", "cancel"])
    fn = rng.choice(["bellman_ford", "floyd_warshall", "dijkstra_edges"])
    edges = [list(e) for e in edges]
    case = {"kind": "xfloat", "sub": sub, "fn": fn, "n": n, "start": rng.randrange(n), "target": rng.choice([None, rng.randrange(n)]),
            "directed": rng.random() < 0.75, "family": "X"}
    if sub == "intfloat":
        edges = [[u, v, rng.choice([w, float(w)])] for u, v, w in edges]
    elif sub == "negzero":
        edges = [[u, v, (0 if rng.random() < 0.4 else w)] for u, v, w in edges]
        case["zero"] = rng.choice([-0.0, 0.0])
    elif sub == "infnan":
        for _ in range(rng.randint(1, 3)):
            edges.insert(rng.randrange(len(edges) + 1), [rng.randrange(n), rng.randrange(n), rng.choice([INF, float("nan"), INF])])
    elif sub == "overflow":
        k = rng.choice([2e307, 3e307, 6e307, 1e308])
        edges = [[u, v, (abs(w) * k if rng.random() < 0.8 else float(abs(w)))] for u, v, w in edges]
        edges = [[u, v, w] for u, v, w in edges if w < 1.7e308]
    else:  # cancel: exact integers beyond 2^53 next to their negatives and small numbers
        fn = case["fn"] = rng.choice(["bellman_ford", "floyd_warshall"])
        B = rng.choice([2 ** 60, 2 ** 53 + 1, 10 ** 18, 2 ** 62 + 5])
        edges = [[u, v, (w + B if r < 0.3 else w - B if r < 0.6 else w)] for (u, v, w), r in ((e, rng.random()) for e in edges)]
    if fn == "dijkstra_edges" and sub != "cancel":
        edges = [[u, v, (abs(w) if w == w else w)] for u, v, w in edges]
    case["edges"] = edges
    return case


def x_option_cases(rng, k):
    """integral floats vs ints / inf in the numeric OPTIONS of the call-back solvers and the grid solver"""
    out = []
    for _ in range(k):
        w = gen_wsearch_case(rng, "X")
        for fn in ("dijkstra", "astar"):
            for mi in (None, 3, 3.0, 1e9, INF):
                for mc in (None, 4, 4.0, INF):
                    c = copy.deepcopy(w)
                    c.update(fn=fn, max_iter=mi, max_cost=mc, family="X")
                    if rng.random() < 0.5:
                        c["adj"] = [[[j, float(x)] for j, x in es] for es in c["adj"]]
                    out.append(c)
            c = copy.deepcopy(w)
            c.update(fn="astar", weight=rng.choice([1, 1.0, 2, 2.0]), hfloat=True, family="X")
            out.append(c)
            c = copy.deepcopy(w)
            c.update(fn="astar", hinf=True, hc=rng.choice([[1, 1], [1, 2]]), family="X")  # heuristic = inf on dead ends
            out.append(c)
        s = gen_search_case(rng, "X")
        for fn in ("bfs", "dfs"):
            for mi in (2, 2.0, 1e9, INF, 0.5, -0.0):
                c = copy.deepcopy(s)
                c.update(fn=fn, max_iter=mi, family="X")
                out.append(c)
        g = gen_grid_case(rng, "X")
        for mi in (None, 5.0, INF):
            c = copy.deepcopy(g)
            c.update(max_iter=mi, weight=rng.choice([None, 1.0, 1, 2.0]), family="X")
            if c["costs"]:
                c["costs"] = {kk: float(v) for kk, v in c["costs"].items()}
            if rng.random() < 0.4:
                c["grid"] = [[float(x) for x in row] for row in c["grid"]]
            out.append(c)
    return out
