"""C13 - kruskal and prim return minimum spanning trees (or say why not).

Tie to /repo: random small weighted multigraphs are run on solvor.mst.kruskal (backend="python"; the Rust
back-end is C12's business) and solvor.mst.prim (working tree); the same inputs are evaluated by the Gallina
model SV.C13.Mst inside coqc (vm_compute) and must give the same status / edge list / objective.
Independently of the model: (a) a Python oracle by exhaustive spanning-forest enumeration judges the
implementation outputs against the property itself (edges of the input, acyclic, spanning, objective = sum =
minimum, kruskal and prim agree); (b) the Coq boolean checkers kruskal_check / prim_check (proved sound
w.r.t. the Prop specification in MstSpecProofs.v) and the brute-force kruskal_min_check judge the same outputs.
"""
import copy
import itertools
import json
from collections import Counter, UserList
from fractions import Fraction

from harness.core import Ctx, VERIF, cbool, clist, cnat, copt, cz, guarded

ID = "C13"
ANCHORS = ["solvor/mst.py", "solvor/utils/data_structures.py"]
IMPORTS = "From SV Require Import C13.Mst C13.MstSpec."
BRUTE_LIMIT = 40000  # max number of edge subsets enumerated by the oracle for one graph


# ---------------------------------------------------------------- generators
def gen_edges(rng, big=False):
    """(n, undirected edge list [(u, v, w)], tag).  Small n, tiny weight ranges: ties, duplicates, self loops,
    negative weights, disconnected graphs and isolated nodes are all frequent."""
    n = rng.choice([1, 2, 3, 3, 4, 4, 5, 5, 6, 6] + ([7, 7] if big else []))
    wmode = rng.choice(["equal", "ties", "ties", "neg", "wide", "distinct"])
    shape = rng.choice(["random", "random", "dense", "tree+", "split", "isolated", "multi", "sparse"])

    def w(k=[0]):
        if wmode == "equal":
            return 3
        if wmode == "ties":
            return rng.randint(1, 2)
        if wmode == "neg":
            return rng.randint(-4, 3)
        if wmode == "wide":
            return rng.randint(-20, 20)
        k[0] += 1
        return k[0] * rng.choice([1, -1]) if rng.random() < 0.3 else k[0] + 10

    edges = []
    nodes = list(range(n))
    maxm = 11 if n <= 6 else 12

    def pair(pool):
        a = rng.choice(pool)
        b = rng.choice(pool)
        return a, b

    if shape in ("random", "sparse", "multi"):
        m = rng.randint(0, maxm if shape != "sparse" else max(0, n - 1))
        for _ in range(m):
            a, b = pair(nodes)
            if a == b and rng.random() < 0.6:
                b = rng.choice(nodes)
            edges.append((a, b, w()))
            if shape == "multi" and rng.random() < 0.5 and len(edges) < maxm:
                # duplicate edge, other direction / other weight
                edges.append((b, a, w()) if rng.random() < 0.5 else (a, b, w()))
    elif shape == "dense":
        allp = [(a, b) for a in nodes for b in nodes if a < b]
        rng.shuffle(allp)
        for a, b in allp[:maxm]:
            edges.append((a, b, w()) if rng.random() < 0.5 else (b, a, w()))
    elif shape == "tree+":
        perm = nodes[:]
        rng.shuffle(perm)
        for i in range(1, n):
            edges.append((perm[i], perm[rng.randrange(i)], w()))
        for _ in range(rng.randint(0, max(0, maxm - len(edges)))):
            a, b = pair(nodes)
            edges.append((a, b, w()))
        rng.shuffle(edges)
    elif shape == "split":
        k = rng.randint(1, max(1, n - 1))
        perm = nodes[:]
        rng.shuffle(perm)
        g1, g2 = perm[:k], perm[k:]
        for grp in (g1, g2):
            if grp:
                for _ in range(rng.randint(0, 5)):
                    a, b = pair(grp)
                    edges.append((a, b, w()))
        rng.shuffle(edges)
    else:  # isolated: edges avoid one node
        pool = nodes[:-1] if n > 1 else nodes
        pool = pool if rng.random() < 0.5 else nodes[1:] or nodes
        for _ in range(rng.randint(0, 8)):
            a, b = pair(pool)
            edges.append((a, b, w()))
    return n, edges[:maxm + 2], f"{shape}/{wmode}"


def gen_kruskal(rng, big=False):
    n, edges, tag = gen_edges(rng, big)
    return {"kind": "kruskal", "n": n, "edges": [list(e) for e in edges], "allow_forest": rng.random() < 0.5,
            "float_w": rng.random() < 0.15, "tag": tag}


def gen_kruskal_bad(rng):
    n = rng.choice([0, 0, 1, 2, 3, -1])
    edges = [(rng.randint(0, 3), rng.randint(0, 3), rng.randint(-2, 2)) for _ in range(rng.randint(0, 4))]
    if n > 0:
        # force one endpoint out of range
        k = rng.randrange(len(edges) + 1)
        bad = (n + rng.randint(0, 2), rng.randrange(n), 1) if rng.random() < 0.5 else (rng.randrange(n), n, 1)
        if rng.random() < 0.2:
            bad = (-1, 0, 1)
        edges = [(min(a, n - 1), min(b, n - 1), w) for a, b, w in edges]
        edges.insert(k, bad)
    return {"kind": "kruskal_bad", "n": n, "edges": [list(e) for e in edges], "allow_forest": rng.random() < 0.5}


def gen_deep_edges(rng, big=False, k=None):
    """(n, edges, tag) on 8..18 nodes whose weights come in tournament order: weight 1 joins singletons pairwise,
    weight 2 the pairs, weight 3 the quadruples, ... so union-by-rank builds union-find trees of height >= 3 before the
    heavier edges (random pairs incl. redundant ones, pendant nodes hanging on the heaviest edges, isolated nodes) query
    deep nodes.  Node labels are randomly permuted, the edge list is shuffled."""
    k = k or rng.choice([8, 8, 8, 16] if not big else [8, 8, 16, 16])
    n = k + (rng.randint(0, 6) if k == 8 else rng.randint(0, 2))
    canonical = rng.random() < 0.4
    edges = []
    blocks = [[i] for i in range(k)]
    level = 0
    while len(blocks) > 1:
        level += 1
        nxt = []
        for i in range(0, len(blocks), 2):
            A, B = blocks[i], blocks[i + 1]
            a, b = (A[0], B[0]) if canonical else (rng.choice(A), rng.choice(B))
            edges.append((a, b, level) if rng.random() < 0.7 else (b, a, level))
            nxt.append(A + B)
        blocks = nxt
    for _ in range(rng.randint(3, 10) if k <= 16 else rng.randint(k // 2, 2 * k)):
        a, b = rng.randrange(k), rng.randrange(k)
        edges.append((a, b, level + rng.randint(1, 5)))
    for x in range(k, n):
        r = rng.random()
        if r < 0.75:
            edges.append((x, rng.randrange(x), 20 + rng.randint(0, 3)) if rng.random() < 0.5 else (rng.randrange(x), x, 20 + rng.randint(0, 3)))
            if rng.random() < 0.3:
                edges.append((rng.randrange(k), x, 30 + rng.randint(0, 3)))
        # else: isolated node (disconnected graph: every edge is processed, no early break)
    perm = list(range(n))
    rng.shuffle(perm)
    edges = [(perm[a], perm[b], w) for a, b, w in edges]
    rng.shuffle(edges)
    return n, edges, f"deep{k}/{'canon' if canonical else 'rand'}"


def gen_kruskal_deep(rng, big=False):
    n, edges, tag = gen_deep_edges(rng, big)
    return {"kind": "kruskal", "n": n, "edges": [list(e) for e in edges], "allow_forest": rng.random() < 0.5,
            "float_w": rng.random() < 0.1, "tag": tag}


def gen_prim(rng, big=False, base=None):
    """Symmetric adjacency dict built from an undirected edge list; random key order, isolated keys, any start."""
    n, edges, tag = base if base is not None else gen_edges(rng, big)
    adj = {i: [] for i in range(n)}
    und = []
    for a, b, w in edges:
        und.append([a, b, w])
        adj[a].append([b, w])
        if a != b or rng.random() < 0.5:
            adj[b].append([a, w])
    order = list(range(n))
    rng.shuffle(order)
    for a in order:
        if rng.random() < 0.3:
            rng.shuffle(adj[a])
    adjl = [[a, adj[a]] for a in order]
    start = None if rng.random() < 0.3 else rng.randrange(n)
    return {"kind": "prim", "adj": adjl, "und": und, "start": start, "sym": True,
            "labelling": rng.choice(["int", "int", "str", "tuple", "mixed", "perm"]), "tag": tag,
            "float_w": rng.random() < 0.1, "tuple_adj": rng.random() < 0.2}


def gen_prim_raw(rng, big=False):
    """Arbitrary (possibly asymmetric) adjacency dict: neighbours that are not keys, start that is no node, empty dict.
    Judged by the model and by the direction-aware part of the oracle only."""
    n = rng.choice([0, 1, 2, 3, 4, 5])
    keys = [i for i in range(n) if rng.random() < 0.75]
    rng.shuffle(keys)
    adjl = []
    for a in keys:
        ns = [[rng.randrange(n + 1), rng.randint(-3, 3)] for _ in range(rng.randint(0, 3))]
        adjl.append([a, ns])
    r = rng.random()
    start = None if r < 0.3 else (rng.randrange(n + 1) if r < 0.9 else n + 3)
    return {"kind": "prim", "adj": adjl, "und": None, "start": start, "sym": False,
            "labelling": rng.choice(["int", "str", "mixed"]), "tag": "raw", "float_w": False, "tuple_adj": False}


# ---------------------------------------------------------------- round-2 families (HARDENING.md classes L I S M O A H)
EDGE_KINDS = ["list", "tuple", "list_of_lists", "tuple_of_lists", "userlist"]
ADJ_KINDS = ["list", "tuple", "list2", "items", "reiter"]


def gen_kruskal_containers(rng, big=False):
    """class I (kruskal): the edge container as list / tuple / UserList of tuples or of 3-element lists."""
    c = gen_kruskal(rng, big) if rng.random() < 0.7 else gen_kruskal_deep(rng, big)
    c["edges_kind"] = rng.choice(EDGE_KINDS[1:])
    c["tag"] = "I:" + c["edges_kind"]
    return c


def gen_prim_labels(rng, big=False, base=None):
    """class L (+I): prim over a pool of awkward hashable labels - None, False/0/0.0/-0.0, True/1/1.0, "", (), frozenset(),
    ints >= 257 and 2^70+1 built at call time, inf, bytes, nested tuples - every occurrence a fresh object; adjacency values
    as list / tuple / list of 2-lists / dict items view / re-iterable object."""
    c = gen_prim(rng, big, base=base)
    ids = prim_nodes(c)
    rest = [k for k in range(3, POOL_SIZE)]
    rng.shuffle(rest)
    picks = ([0] if rng.random() < 0.7 else []) + ([1] if rng.random() < 0.6 else []) + ([2] if rng.random() < 0.4 else []) + rest
    extra = [POOL_SIZE + k for k in range(len(ids))]
    picks = (picks + extra)[:len(ids)]
    rng.shuffle(picks)
    c["labelling"] = "pool"
    c["label_ids"] = [[i, k] for i, k in zip(ids, picks)]
    c["pool_variant"] = [rng.randrange(4), rng.randrange(3)]
    if rng.random() < 0.3:
        c["pool_spelling"] = "per-occurrence"
    c["adj_kind"] = rng.choice(ADJ_KINDS)
    c["tuple_adj"] = False
    lab = dict((i, k) for i, k in c["label_ids"])
    if c["start"] is not None and lab.get(c["start"]) == 0:
        # start=None means "default start": the node labelled None can only be the start as the first key of the dict
        a0 = c["start"]
        c["adj"] = [kn for kn in c["adj"] if kn[0] == a0] + [kn for kn in c["adj"] if kn[0] != a0]
        c["start"] = None
    c["tag"] = "L:pool"
    return c


def gen_prim_iterables(rng, big=False):
    """class I (prim): adjacency values of every re-iterable kind; a few one-shot generators (the annotation says Iterable)."""
    c = gen_prim(rng, big)
    c["adj_kind"] = rng.choice(ADJ_KINDS[1:] + ["gen"])
    c["tuple_adj"] = False
    c["labelling"] = rng.choice(["int", "str", "tuple", "bigint", "mixed"])
    c["tag"] = "I:" + c["adj_kind"]
    return c


MAGNITUDES = ["2^31", "2^31", "1e9", "1e9", "mix44", "mix44", "tiny-diff", "tiny-diff", "dyadic", "dyadic", "2^53", "2^60", "1e18", "float-huge"]


def magnify(rng, edges, mode):
    """New integer weights (model units) + (float_w, wscale): small structure (ties, order) of the old weights is kept, the
    scale moves far from the comfort zone.  float inputs are only used where the float is exactly that integer."""
    ws = sorted({w for _, _, w in edges})
    rank = {w: i for i, w in enumerate(ws)}
    base = {"2^31": 2 ** 31, "1e9": 10 ** 9, "2^53": 2 ** 53, "2^60": 2 ** 60, "1e18": 10 ** 18}.get(mode)
    if base is not None:
        sign = rng.choice([1, 1, -1])
        neww = {w: sign * base + rank[w] - rng.randrange(2) for w in ws} if rng.random() < 0.7 else {w: (rank[w] - 1) * base + rank[w] for w in ws}
        fw, p = (mode in ("2^31", "1e9") and rng.random() < 0.5), 0
    elif mode == "mix44":
        neww = {w: (2 ** 44 + rank[w]) if rng.random() < 0.5 else rank[w] - 1 for w in ws}
        fw, p = rng.random() < 0.5, 0
    elif mode == "tiny-diff":
        neww = {w: 2 ** 40 + rank[w] for w in ws}      # with wscale -40: 1 + k * 2^-40, neighbours differ by ~1e-12
        fw, p = True, -40
    elif mode == "dyadic":
        neww = {w: w * rng.choice([1, 3, 5]) for w in ws}
        fw, p = True, rng.choice([-3, -1, -20])
    else:  # float-huge: multiples of 2^30 below 2^60, exactly representable
        neww = {w: (2 ** 29 + rank[w]) * 2 ** 30 for w in ws}
        fw, p = True, 0
    return [[a, b, neww[w]] for a, b, w in edges], fw, p


def gen_kruskal_magnitude(rng, big=False):
    c = gen_kruskal(rng, big) if rng.random() < 0.7 else gen_kruskal_deep(rng, big)
    mode = rng.choice(MAGNITUDES)
    c["edges"], c["float_w"], p = magnify(rng, c["edges"], mode)
    if p:
        c["wscale"] = p
    c["tag"] = "M:" + mode
    return c


def gen_prim_magnitude(rng, big=False):
    n, edges, _ = gen_edges(rng, big)
    mode = rng.choice(MAGNITUDES)
    edges2, fw, p = magnify(rng, [list(e) for e in edges], mode)
    c = gen_prim(rng, big, base=(n, [tuple(e) for e in edges2], "M:" + mode))
    c["float_w"] = fw
    if p:
        c["wscale"] = p
    return c


def big_edge_family(rng, thorough):
    """class S: a few structured large instances (judged by the naive label-array reference and the size-independent
    validity checks): > 2048 / 65537 edges in few weight classes, long chains, two cliques joined by a bridge, balanced
    union sequences of 32 / 64 / 128 nodes (union-find height 5..7), thresholds 17 / 65 / 257 / 801 / 1025 edges."""
    out = []

    def K(n, edges, tag, af=None):
        out.append({"kind": "kruskal", "n": n, "edges": [list(e) for e in edges], "big": True,
                    "allow_forest": rng.random() < 0.5 if af is None else af, "float_w": rng.random() < 0.2,
                    "edges_kind": rng.choice(["list", "tuple"]), "tag": "S:" + tag, "alias": len(edges) <= 70000})

    def connected_multigraph(n, m, wmax):
        perm = list(range(n))
        rng.shuffle(perm)
        es = [(perm[i], perm[rng.randrange(i)], rng.randint(1, wmax)) for i in range(1, n)]
        while len(es) < m:
            es.append((rng.randrange(n), rng.randrange(n), rng.randint(1, wmax)))
        rng.shuffle(es)
        return es

    for m in [17, 65, 257, 801, 1025]:
        n = rng.choice([6, 12, 30])
        K(n, connected_multigraph(n, m, 3), f"m{m}")
    for m in [2049, 2050, rng.randint(2051, 2600), 4097]:
        n = rng.choice([3, 8, 40, 70])
        K(n, connected_multigraph(n, m, rng.choice([1, 2, 3, 50])), f"m{m}")
    # a bridge in the middle of a long edge list, everything else heavy parallel edges
    half = rng.randint(1024, 1300)
    K(3, [(0, 1, 5)] * half + [(1, 2, 3)] + [(0, 1, 5)] * half, "bridge-middle", af=False)
    # two cliques joined by one bridge
    q = 35
    cl = [(a, b, rng.randint(1, 3)) for a in range(q) for b in range(a + 1, q)]
    cl2 = [(a + q, b + q, w) for a, b, w in cl]
    es = cl + [(rng.randrange(q), q + rng.randrange(q), rng.randint(1, 3))] + cl2
    if rng.random() < 0.5:
        rng.shuffle(es)
    K(2 * q, es, "two-cliques")
    K(20, connected_multigraph(20, 65537, 3), "m65537")
    for n in [257, 1025, 3000]:
        chain = [(i, i + 1, rng.randint(1, 4)) for i in range(n - 1)]
        chords = [(a, rng.randrange(n), rng.randint(2, 9)) for a in (rng.randrange(n) for _ in range(n // 3))]
        es = chain + chords
        rng.shuffle(es)
        K(n, es, f"chain{n}")
    for k in [32, 64, 128]:
        n, edges, tag = gen_deep_edges(rng, True, k=k)
        K(n, edges, tag)
    if thorough:
        K(30, connected_multigraph(30, 100001, 5), "m1e5")
        K(50, connected_multigraph(50, 1000001, 3), "m1e6")
        K(66000, [(i, i + 1, 1 + i % 3) for i in range(65999)], "chain66000")
        for _ in range(12):
            m = rng.choice([2049, 2300, 3000, 4097, 8200])
            n = rng.choice([3, 5, 20, 60, 200])
            K(n, connected_multigraph(n, m, rng.choice([1, 2, 3, 4, 100])), f"m{m}")
    return out


def big_prim_family(rng, thorough):
    out = []

    def P(n, und, tag, start=None, labelling="int"):
        adj = {i: [] for i in range(n)}
        for a, b, w in und:
            adj[a].append([b, w])
            if a != b:
                adj[b].append([a, w])
        order = list(range(n))
        if rng.random() < 0.5:
            rng.shuffle(order)
        out.append({"kind": "prim", "adj": [[a, adj[a]] for a in order], "und": None, "start": start, "sym": True, "big": True,
                    "labelling": labelling, "tag": "S:" + tag, "float_w": False, "tuple_adj": False,
                    "adj_kind": rng.choice(["list", "tuple"])})

    for n in [300, 1025, 2500]:
        P(n, [(i, i + 1, rng.randint(1, 3)) for i in range(n - 1)], f"chain{n}", start=rng.choice([None, 0, n // 2, n - 1]), labelling=rng.choice(["int", "bigint", "str"]))
        P(n, [(i, (i + 1) % n, rng.randint(1, 3)) for i in range(n)], f"cycle{n}", start=rng.randrange(n))
    P(2100, [(0, i, rng.randint(1, 3)) for i in range(1, 2100)], "star2100", start=rng.choice([0, 7]))
    P(3, [(0, 1, rng.randint(1, 3)) for _ in range(2049)] + [(1, 2, 2)], "parallel2049", start=rng.choice([0, 2]))
    side = 22
    grid = [(r * side + c, r * side + c + 1, rng.randint(1, 3)) for r in range(side) for c in range(side - 1)]
    grid += [(r * side + c, (r + 1) * side + c, rng.randint(1, 3)) for r in range(side - 1) for c in range(side)]
    P(side * side, grid, "grid22", start=rng.randrange(side * side), labelling="tuple")
    dense = [(a, b, rng.randint(1, 3)) for a in range(66) for b in range(a + 1, 66)]
    P(66, dense, "dense66", start=rng.randrange(66), labelling="str")
    if thorough:
        P(20000, [(i, i + 1, 1 + i % 2) for i in range(19999)], "chain20000", start=0)
        P(400, [(a, b, rng.randint(1, 5)) for a in range(400) for b in range(a + 1, min(400, a + 30))], "band400", start=5)
    return out


def start_sweep(rng, big=False):
    """class O: the one option of prim - every node as start (and the default) on the same graph."""
    base = gen_prim_labels(rng, big) if rng.random() < 0.4 else gen_prim(rng, big)
    out = []
    lab = dict((i, k) for i, k in base.get("label_ids", []))
    for s in [None] + prim_nodes(base):
        if s is not None and lab.get(s) == 0:
            continue
        out.append(dict(base, start=s, tag="O:start-sweep"))
    return out


def uf_events(n, edges):
    """class H: a reference port of kruskal's union-find (recursive compression, union by rank) that reports rare internal
    events of a run - used to steer generation and for the evidence histograms, never as an oracle."""
    parent, rank = list(range(n)), [0] * n
    ev = {"depth": 0, "swaps": 0, "rank_ties": 0, "compressions": 0, "rejected_deep": 0, "early_break": 0, "rejected": 0}

    def depth(x):
        d = 0
        while parent[x] != x:
            x, d = parent[x], d + 1
        return d

    def find(x):
        if parent[x] != x:
            r = find(parent[x])
            if parent[x] != r:
                ev["compressions"] += 1
            parent[x] = r
        return parent[x]

    acc = 0
    for u, v, _ in sorted(edges, key=lambda e: e[2]):
        d = max(depth(u), depth(v))
        ev["depth"] = max(ev["depth"], d)
        ru, rv = find(u), find(v)
        if ru == rv:
            ev["rejected"] += 1
            if d >= 2:
                ev["rejected_deep"] += 1
            continue
        if rank[ru] < rank[rv]:
            ru, rv = rv, ru
            ev["swaps"] += 1
        parent[rv] = ru
        if rank[ru] == rank[rv]:
            rank[ru] += 1
            ev["rank_ties"] += 1
        acc += 1
        if acc == n - 1:
            ev["early_break"] = 1
            break
    return ev


def directed_cases(rng, big, want):
    """Event-directed selection: many candidate inputs are scored by the reference port only (no implementation run);
    the candidates richest in rare events (deep finds followed by rejections, rank swaps, compressions) are kept."""
    scored = []
    for _ in range(want * 25):
        c = gen_kruskal_deep(rng, big) if rng.random() < 0.6 else gen_kruskal(rng, True)
        if c["n"] < 1:
            continue
        ev = uf_events(c["n"], [tuple(e) for e in c["edges"]])
        score = 3 * ev["rejected_deep"] + 2 * ev["swaps"] + ev["compressions"] + 4 * max(0, ev["depth"] - 2)
        scored.append((score, len(scored), c))
    scored.sort(reverse=True)
    out = []
    for _, _, c in scored[:want]:
        c["tag"] = "H:directed"
        out.append(c)
    return out


# ---------------------------------------------------------------- round-3 families (HARDENING.md addendum: A2, X, W)
def gen_kruskal_seq(rng, big=False):
    """class A2: kruskal on ONE list object that the caller edits in place between the calls (replace an element by another
    tuple, change a weight inside a 3-element list, pop+append, insert, swap, reverse, clear+refill), with prim and the
    other allow_forest called in between.  Every call is judged on the content the list has at that moment."""
    c = gen_kruskal(rng, big) if rng.random() < 0.75 else gen_kruskal_deep(rng, big)
    c["edges_kind"] = rng.choice(["list", "list", "list_of_lists", "userlist"])
    if rng.random() < 0.3:
        c["float_w"] = "mixed"
    n = c["n"]
    cur = [list(e) for e in c["edges"]]
    ops = []
    for _ in range(rng.randint(1, 5)):
        kinds = ["append", "af", "prim"] + (["set", "set", "set", "setw", "setw", "pop", "pop_append", "insert", "swap", "reverse", "refill"] if cur else [])
        k = rng.choice(kinds)
        i = rng.randrange(len(cur)) if cur else 0
        wnew = rng.choice([-9, -1, 0, 1, 2, 7, 30])
        enew = [rng.randrange(n), rng.randrange(n), wnew]
        if k == "set":
            op = ["set", i, [cur[i][0], cur[i][1], wnew] if rng.random() < 0.6 else enew]
            cur[i] = op[2]
        elif k == "setw":
            op = ["setw", i, wnew]
            cur[i] = [cur[i][0], cur[i][1], wnew]
        elif k == "pop":
            op = ["pop", i]
            cur.pop(i)
        elif k == "pop_append":
            op = ["pop_append", i, enew]
            cur.pop(i)
            cur.append(enew)
        elif k == "insert":
            op = ["insert", i, enew]
            cur.insert(i, enew)
        elif k == "append":
            op = ["append", enew]
            cur.append(enew)
        elif k == "swap":
            j = rng.randrange(len(cur))
            op = ["swap", i, j]
            cur[i], cur[j] = cur[j], cur[i]
        elif k == "reverse":
            op = ["reverse"]
            cur.reverse()
        elif k == "refill":
            new = [[rng.randrange(n), rng.randrange(n), rng.randint(-3, 5)] for _ in range(len(cur))]
            op = ["refill", new]
            cur = [list(e) for e in new]
        else:
            op = [k]
        ops.append(op)
    return dict(c, kind="kruskal_seq", ops=ops, tag="A2:kruskal")


def apply_edge_op(obj, op, conv, lists, counter):
    """Apply one in-place edit to the caller's edge container (and report the model-level edit to mirror)."""
    mk = (lambda e: [e[0], e[1], conv(e[2], counter)]) if lists else (lambda e: (e[0], e[1], conv(e[2], counter)))
    k = op[0]
    if k == "set":
        obj[op[1]] = mk(op[2])
    elif k == "setw":
        if lists:
            obj[op[1]][2] = conv(op[2], counter)          # the element object stays, its weight changes
        else:
            obj[op[1]] = (obj[op[1]][0], obj[op[1]][1], conv(op[2], counter))
    elif k == "pop":
        obj.pop(op[1])
    elif k == "pop_append":
        obj.pop(op[1])
        obj.append(mk(op[2]))
    elif k == "insert":
        obj.insert(op[1], mk(op[2]))
    elif k == "append":
        obj.append(mk(op[1]))
    elif k == "swap":
        obj[op[1]], obj[op[2]] = obj[op[2]], obj[op[1]]
    elif k == "reverse":
        obj.reverse()
    elif k == "refill":
        obj[:] = [mk(e) for e in op[1]]


def mirror_edge_op(cur, op):
    k = op[0]
    if k == "set":
        cur[op[1]] = list(op[2])
    elif k == "setw":
        cur[op[1]] = [cur[op[1]][0], cur[op[1]][1], op[2]]
    elif k == "pop":
        cur.pop(op[1])
    elif k == "pop_append":
        cur.pop(op[1])
        cur.append(list(op[2]))
    elif k == "insert":
        cur.insert(op[1], list(op[2]))
    elif k == "append":
        cur.append(list(op[1]))
    elif k == "swap":
        cur[op[1]], cur[op[2]] = cur[op[2]], cur[op[1]]
    elif k == "reverse":
        cur.reverse()
    elif k == "refill":
        cur[:] = [list(e) for e in op[1]]


def to_adjacency(n, edges):
    g = {i: [] for i in range(n)}
    for u, v, w in edges:
        g[u].append((v, w))
        if u != v:
            g[v].append((u, w))
    return g


def run_kruskal_seq(case):
    """-> list of (ordinary kruskal case describing the content at that moment, result of the call on the SHARED object)."""
    from solvor.mst import kruskal, prim

    conv = w_conv(case)
    obj = build_edges(case)
    lists = case.get("edges_kind") == "list_of_lists"
    cur = [list(e) for e in case["edges"]]
    af = case["allow_forest"]
    out = []

    snaps = []

    def call(tag):
        sub = {"kind": "kruskal", "n": case["n"], "edges": [list(e) for e in cur], "allow_forest": af, "float_w": case.get("float_w"),
               "alias": False, "tag": case.get("tag"), "step": tag}
        r = canon_result(kruskal(case["n"], obj, allow_forest=af, backend="python"), None, case)
        r["alias"] = None
        snaps.append((copy.deepcopy(obj), af, tag))     # the fresh-copy comparison runs AFTER the sequence: no foreign call in between
        out.append((sub, {"out": "ok", **r}))

    call("initial")
    for k, op in enumerate(case["ops"]):
        if op[0] == "af":
            af = not af
        elif op[0] == "prim":
            prim(to_adjacency(case["n"], [tuple(e) for e in obj]))
        else:
            apply_edge_op(obj, op, conv, lists, k)
            mirror_edge_op(cur, op)
        call(f"after op {k} {op[0]}")
    for (snap, af_s, tag), (sub, r) in zip(snaps, out):
        fresh = canon_result(kruskal(case["n"], snap, allow_forest=af_s, backend="python"), None, case)
        if public(fresh) != public(r):
            r["alias"] = (f"after in-place edits ({tag}) the call on the caller's list gave {public(r)}, "
                          f"a fresh deep copy of the same content gives {public(fresh)}")
    return out


def gen_prim_seq(rng, big=False):
    """class A2 (prim): the caller's dict / adjacency lists are edited in place between calls: a weight replaced, an edge
    added or deleted (both directions), a new node added, an adjacency list replaced by a new object, kruskal called in between."""
    c = gen_prim_labels(rng, big) if rng.random() < 0.4 else gen_prim(rng, big)
    c["adj_kind"] = rng.choice(["list", "list", "list2"])
    c["tuple_adj"] = False
    nodes = prim_nodes(c)
    if not nodes:
        return c
    adj = {a: [list(p) for p in ns] for a, ns in c["adj"]}
    ops = []
    nxt = max(nodes) + 1
    for _ in range(rng.randint(1, 4)):
        und = [(a, b, w) for a, ns in adj.items() for b, w in ns if a <= b]
        k = rng.choice(["add", "newnode", "kruskal", "relist"] + (["setw", "setw", "setw", "del"] if und else []))
        if k in ("setw", "del"):
            a, b, w = rng.choice(und)
            if [b, w] not in adj[a] or (a != b and [a, w] not in adj[b]):
                continue
            wn = rng.choice([-9, -1, 0, 1, 2, 7, 30])
            op = [k, a, b, w] + ([wn] if k == "setw" else [])
            ia = adj[a].index([b, w])
            if k == "setw":
                adj[a][ia] = [b, wn]
                if a != b:
                    adj[b][adj[b].index([a, w])] = [a, wn]
            else:
                adj[a].pop(ia)
                if a != b:
                    adj[b].pop(adj[b].index([a, w]))
        elif k == "add":
            a, b, w = rng.choice(nodes), rng.choice(nodes), rng.randint(-3, 5)
            op = ["add", a, b, w]
            adj[a].append([b, w])
            if a != b:
                adj[b].append([a, w])
        elif k == "newnode":
            a, w = rng.choice(nodes), rng.randint(-3, 5)
            op = ["newnode", nxt, a, w]
            adj[nxt] = [[a, w]]
            adj[a].append([nxt, w])
            nodes.append(nxt)
            nxt += 1
        else:
            op = [k] + ([rng.choice(nodes)] if k == "relist" else [])
        ops.append(op)
    return dict(c, kind="prim_seq", ops=ops, tag="A2:prim")


def run_prim_seq(case):
    from solvor.mst import kruskal, prim

    lab = labeller(case)
    conv = w_conv(case)
    back = {}
    known = []
    for a, ns in case["adj"]:
        known += [a] + [b for b, _ in ns]
    for op in case["ops"]:
        if op[0] == "newnode":
            known.append(op[1])
    if case["start"] is not None:
        known.append(case["start"])
    for i in dict.fromkeys(known):
        assert lab(i) not in back
        back[lab(i)] = i
    graph, _ = build_graph(case, lab)
    lists = case["adj_kind"] == "list2"
    adj = [[a, [list(p) for p in ns]] for a, ns in case["adj"]]
    mk = (lambda b, w, k: [lab(b), conv(w, k)]) if lists else (lambda b, w, k: (lab(b), conv(w, k)))
    out = []

    def row(a):
        return next(ns for k, ns in adj if k == a)

    snaps = []

    def call(tag):
        sub = dict(case, kind="prim", adj=[[a, [list(p) for p in ns]] for a, ns in adj], alias=False, step=tag, und=None)
        sub.pop("ops", None)
        start = None if case["start"] is None else lab(case["start"])
        r = canon_result(prim(graph, start=start), back, case)
        r["alias"] = None
        snaps.append((copy.deepcopy(graph), tag))       # compared with a fresh call after the sequence
        out.append((sub, {"out": "ok", **r}))

    call("initial")
    for k, op in enumerate(case["ops"]):
        if op[0] in ("setw", "del"):
            a, b, w = op[1:4]
            for x, y in ([(a, b)] if a == b else [(a, b), (b, a)]):
                i = row(x).index([y, w])
                if op[0] == "setw":
                    row(x)[i] = [y, op[4]]
                    if lists:
                        graph[lab(x)][i][1] = conv(op[4], k)
                    else:
                        graph[lab(x)][i] = mk(y, op[4], k)
                else:
                    row(x).pop(i)
                    graph[lab(x)].pop(i)
        elif op[0] == "add":
            a, b, w = op[1:4]
            for x, y in ([(a, b)] if a == b else [(a, b), (b, a)]):
                row(x).append([y, w])
                graph[lab(x)].append(mk(y, w, k))
        elif op[0] == "newnode":
            x, a, w = op[1:4]
            adj.append([x, [[a, w]]])
            graph[lab(x)] = [mk(a, w, k)]
            if not any(kk == a for kk, _ in adj):
                adj.append([a, []])
                graph[lab(a)] = []
            row(a).append([x, w])
            graph[lab(a)].append(mk(x, w, k))
        elif op[0] == "relist":
            if any(kk == op[1] for kk, _ in adj):
                graph[lab(op[1])] = list(graph[lab(op[1])])
        elif op[0] == "kruskal":
            sub = dict(case, adj=[[a, ns] for a, ns in adj])
            kc = kruskal_of_prim(sub) if sym_ok(sub) else None
            if kc:
                kruskal(kc["n"], [tuple(e) for e in kc["edges"]], backend="python")
        call(f"after op {k} {op[0]}")
    for (snap, tag), (sub, r) in zip(snaps, out):
        fresh = canon_result(prim(snap, start=None if case["start"] is None else lab(case["start"])), back, case)
        if public(fresh) != public(r):
            r["alias"] = (f"after in-place edits ({tag}) prim on the caller's dict gave {public(r)}, "
                          f"a fresh deep copy of the same content gives {public(fresh)}")
    return out


X_MODES = ["negzero"] * 4 + ["mixed"] * 4 + ["within53"] * 4 + ["cancel", "overflow", "inf"]


def x_weights(rng, edges, mode):
    """class X: float extremes.  -> (edges with new model weights, case fields)."""
    fields = {}
    if mode == "cancel":
        pool = [2 ** 60, -2 ** 60, 2 ** 60 + 2 ** 10, -2 ** 60 + 2 ** 10, 1, -1, 3, 0]
        fields["float_w"] = rng.choice([False, True, "mixed"])      # every pool value is an exactly representable float
    elif mode == "overflow":
        sign = rng.choice([1, 1, -1])          # weights near 1e308 = 53-bit mantissa * 2^971: the model sees the mantissas
        pool = [sign * int(x / 2.0 ** 971) for x in (1e308, 1.5e308, 1.2e308, 1.7e308, 1.0000001e308)]
        fields["float_w"], fields["wscale"] = True, 971
    elif mode == "inf":
        pool = [BIG, BIG, 1, 2, 5, -3] + ([-BIG] if rng.random() < 0.4 else [])
        fields["float_w"] = rng.choice([False, True])
    elif mode == "negzero":
        pool = [0, 0, 0, 1, -1]
        fields["float_w"], fields["negzero"] = True, True
    elif mode == "within53":
        # huge but exactly representable, sums stay below 2^53: +-2^45 next to tiny values that must not be absorbed
        pool = [2 ** 45, -2 ** 45, 2 ** 45 + 1, -2 ** 45 + 1, 1, -1, 0, 3]
        fields["float_w"] = rng.choice([False, True, "mixed"])
    else:
        pool = [33, 33, 2, 7, -4, 0]
        fields["float_w"] = "mixed"
    return [[a, b, rng.choice(pool)] for a, b, _ in edges], fields


def gen_kruskal_x(rng, big=False):
    c = gen_kruskal(rng, big)
    mode = rng.choice(X_MODES)
    c["edges"], f = x_weights(rng, c["edges"], mode)
    c.update(f)
    c["tag"] = "X:" + mode
    return c


def gen_prim_x(rng, big=False):
    n, edges, _ = gen_edges(rng, big)
    mode = rng.choice(X_MODES)
    e2, f = x_weights(rng, [list(e) for e in edges], mode)
    c = gen_prim(rng, big, base=(n, [tuple(e) for e in e2], "X:" + mode))
    c.update(f)
    return c


def nan_checks(ctx):
    """NaN weights: outside the property (POLICY_X) - the calls are made (a hang would be cut by the guard) and only counted."""
    from solvor.mst import kruskal, prim

    nan = float("nan")
    rng = ctx.rng
    for _ in range(ctx.budget(6, 30)):
        n, edges, _ = gen_edges(rng)
        es = [(a, b, (nan if rng.random() < 0.3 else float(w))) for a, b, w in edges]
        for name, fn in [("kruskal", lambda es=es, n=n: kruskal(n, es, allow_forest=True, backend="python")),
                         ("prim", lambda es=es, n=n: prim(to_adjacency(n, es), start=0))]:
            res = guarded(fn, timeout=5)
            ctx.count("observation_only", "nan-weights")
            ctx.count("observation_only_outcome", res[0] if res[0] != "ok" else res[1].status.name)


def work_volume_family(rng, thorough):
    """class W: inputs that maximise the iteration count of each loop at moderate size and cross 2^7, 2^10, 2^11, 2^12, 10^4,
    10^5 (2^20 thorough) iterations: kruskal's scan of the sorted edges (no early break: the last needed edge is the heaviest
    or a node is isolated), prim's pop loop over a lazy-deletion heap full of stale entries (parallel edges, heaviest listed
    first, and one node behind an edge heavier than all of them), prim's loop over many nodes.  Answers known by construction."""
    out = []
    sizes = [130, 1030, 2050, 4100, 10005, 100005] + ([2 ** 20 + 2] if thorough else [])
    for m in sizes:
        n = rng.choice([4, 9, 40])
        perm = list(range(n))
        rng.shuffle(perm)
        core = [(perm[i], perm[rng.randrange(i)], rng.randint(1, 3)) for i in range(1, n - 1)]     # spans all but the last node
        fill = [(perm[rng.randrange(n - 1)], perm[rng.randrange(n - 1)], rng.randint(1, 9)) for _ in range(m - len(core) - 1)]
        mode = rng.choice(["last-heaviest", "isolated"])
        es = core + fill + ([(perm[n - 1], perm[rng.randrange(n - 1)], 50)] if mode == "last-heaviest" else [])
        rng.shuffle(es)
        want = None
        out.append({"kind": "kruskal", "n": n, "edges": [list(e) for e in es], "big": True, "allow_forest": mode == "isolated",
                    "float_w": False, "edges_kind": "list", "tag": f"W:kruskal-scan-{m}", "alias": m <= 20000,
                    "expect_iterations": len(es), "want": want})
    for k in [130, 1030, 2050, 4100, 10005, 100005] + ([2 ** 20 + 2] if thorough else []):
        # nodes 0,1 joined by k parallel edges listed heaviest first; node 2 hangs on node 0 by an edge heavier than all of them
        par = [[1, w] for w in range(k + 1, 1, -1)]
        adj = [[0, par + [[2, k + 5]]], [1, [[0, w] for w in range(k + 1, 1, -1)]], [2, [[0, k + 5]]]]
        out.append({"kind": "prim", "adj": adj, "und": None, "start": 0, "sym": True, "big": True, "labelling": rng.choice(["int", "str"]),
                    "tag": f"W:prim-stale-{k}", "float_w": False, "tuple_adj": False, "adj_kind": "list", "alias": k <= 20000,
                    "expect_iterations": k + 1, "expect_objective": 2 + k + 5})
    for n in [5000, 12000] + ([200000] if thorough else []):
        und = [(i, i + 1, 1 + (i * 7) % 3) for i in range(n - 1)]
        adj = {i: [] for i in range(n)}
        for a, b, w in und:
            adj[a].append([b, w])
            adj[b].append([a, w])
        out.append({"kind": "prim", "adj": [[a, adj[a]] for a in range(n)], "und": None, "start": 0, "sym": True, "big": True,
                    "labelling": "int", "tag": f"W:prim-chain-{n}", "float_w": False, "tuple_adj": False, "adj_kind": "list", "alias": False,
                    "expect_iterations": n - 1, "expect_objective": sum(w for _, _, w in und)})
    return out


def label_of(mode, i):
    """A FRESH label object for node id i (called once per occurrence: dict key, every neighbour listing, start), so
    labels that are equal are in general not identical objects."""
    if mode == "int":
        return i
    if mode == "perm":
        return (i * 5 + 3) % 11 + 100 * (i // 11)
    if mode == "bigint":
        return int(str(1000 + 37 * i))          # ints >= 257 built at call time: == holds, `is` does not
    if mode == "str":
        return "".join(["node-", str(i)])
    if mode == "tuple":
        return tuple([i % 2, "t" + str(i)])
    return [i, f"s{i}", (i, i), frozenset([i]), float(i) + 0.5, (None, i), -i - 1][i % 7] if i < 7 else ("big", i)


ZERO_LIKE = [lambda: False, lambda: 0, lambda: 0.0, lambda: -0.0]
ONE_LIKE = [lambda: True, lambda: 1, lambda: 1.0]
POOL_SIZE = 20


def pool_label(k, z, o, i):
    """Label number k of the pool of awkward hashables (pairwise unequal for fixed z, o); a fresh object on every call."""
    if k == 0:
        return None
    if k == 1:
        return ZERO_LIKE[z]()
    if k == 2:
        return ONE_LIKE[o]()
    if k >= POOL_SIZE:
        return tuple(["n", k, i])
    return [None, None, None,
            lambda: "".join([]), lambda: tuple([]), lambda: frozenset([]), lambda: str(0), lambda: tuple([None]),
            lambda: tuple([0]), lambda: int("1257"), lambda: (1 << 70) + 1, lambda: -1, lambda: float("inf"),
            lambda: bytes(), lambda: str(None), lambda: tuple([1, 2]), lambda: frozenset([None]), lambda: int("100000"),
            lambda: -0.5, lambda: tuple(["a", tuple(["b", None])])][k]()


def labeller(case):
    """id -> fresh label, for the case's labelling mode."""
    mode = case["labelling"]
    if mode == "pool":
        ids = {int(a): int(k) for a, k in case["label_ids"]}
        z, o = case.get("pool_variant", [0, 0])
        if case.get("pool_spelling") == "per-occurrence":
            # the same node is spelled False / 0 / 0.0 / -0.0 (True / 1 / 1.0) at different occurrences: equal, distinct types
            cnt = itertools.count()
            return lambda i: pool_label(ids.get(i, POOL_SIZE + i), next(cnt) % 4, next(cnt) % 3, i)
        return lambda i: pool_label(ids.get(i, POOL_SIZE + i), z, o, i)
    return lambda i: label_of(mode, i)


class ReIterable:
    """An iterable that is neither list nor tuple (fresh iterator on every iter())."""

    def __init__(self, items):
        self._items = list(items)

    def __iter__(self):
        return iter(list(self._items))


# ---------------------------------------------------------------- implementation runs
TWO53 = 2 ** 53


BIG = 2 ** 80              # model stand-in for an infinite weight (float inf / -inf in the call); finite model weights stay below 2^72
FLOAT_MAX = int(__import__("sys").float_info.max)


def observation_only(case):
    """POLICY_X: outside the property (finite data of moderate magnitude; kruskal / prim accumulate the objective in a float by
    design): NaN / +-inf weights, magnitudes whose sums overflow the float range, integer or float weights whose sums do not fit
    in 2^53.  Such cases are still run (a hang is cut by the guard) but nothing about them is judged."""
    if case["kind"] in ("kruskal", "kruskal_seq"):
        ws = [e[2] for e in case["edges"]] + [op[2][2] for op in case.get("ops", []) if op[0] in ("set", "pop_append", "insert")] \
            + [op[1][2] for op in case.get("ops", []) if op[0] == "append"] + [op[2] for op in case.get("ops", []) if op[0] == "setw"]
    elif case["kind"] in ("prim", "prim_seq"):
        ws = [w for _, ns in case["adj"] for _, w in ns]
    else:
        return None
    p = case.get("wscale", 0)
    if any(is_inf_w(w) for w in ws):
        return "inf-weights"
    if p >= 900:
        return "overflow-magnitude"
    if sum(abs(w) for w in ws) * (2 ** p if p > 0 else 1) >= TWO53 * (2 if case["kind"].startswith("prim") else 1):
        return "sums-beyond-2^53"
    return None


def is_inf_w(w):
    return isinstance(w, int) and abs(w) >= BIG // 2


def w_conv(case):
    """Model weight (an integer W) -> the number handed to the implementation.  The returned function takes the weight and
    an occurrence index: int, float(W), float(W) * 2^p (exact), +-inf for |W| >= BIG/2, -0.0 for zero ("negzero"),
    ints and floats alternating ("float_w": "mixed")."""
    p = case.get("wscale", 0)
    fw = case.get("float_w")
    negzero = case.get("negzero")

    def conv(w, k=0):
        if is_inf_w(w):
            return float("inf") if w > 0 else float("-inf")
        if w == 0 and negzero and k % 3 != 2:
            return -0.0
        if p:
            return float(w) * 2.0 ** p
        if fw == "mixed":
            return float(w) if k % 2 else int(w)
        return float(w) if fw else int(w)
    return conv


def w_back(case, x, objective=False):
    """Implementation number -> model units: int when integral; for an edge weight +-inf -> +-BIG; for the objective
    +inf -> None (as float("inf") of an INFEASIBLE result), -inf -> "-inf", nan -> "nan"."""
    p = case.get("wscale", 0) if case else 0
    if isinstance(x, float):
        if x != x:
            return "nan"
        if x in (float("inf"), float("-inf")):
            if objective:
                return None if x > 0 else "-inf"
            return BIG if x > 0 else -BIG
        if p:
            x = x / 2.0 ** p
        if x == int(x):
            return int(x)
    return x


def canon_w(x):
    return w_back(None, x, objective=True)


def canon_result(res, back=None, case=None):
    """Result -> dict(status, solution, objective, iterations, evaluations) in model units, labels mapped back."""
    sol = res.solution
    if sol is not None:
        sol = [[(back[u] if back else u), (back[v] if back else v), w_back(case, w)] for (u, v, w) in sol]
    return {"status": res.status.name, "solution": sol, "objective": w_back(case, res.objective, objective=True),
            "iterations": int(res.iterations), "evaluations": int(res.evaluations)}


def public(r):
    return (r["status"], r["solution"], r["objective"])


def build_edges(case):
    conv = w_conv(case)
    kind = case.get("edges_kind", "list")
    if kind in ("list_of_lists", "tuple_of_lists"):
        es = [[u, v, conv(w, k)] for k, (u, v, w) in enumerate(case["edges"])]
    else:
        es = [(u, v, conv(w, k)) for k, (u, v, w) in enumerate(case["edges"])]
    if kind in ("tuple", "tuple_of_lists"):
        return tuple(es)
    if kind == "userlist":
        return UserList(es)
    return es


def run_kruskal_impl(case):
    """kruskal(backend="python") + aliasing / call-sequence checks: the caller's edge container is not modified, the
    same object gives the same answer again, also after calls with the other allow_forest / the other back-end."""
    from solvor.mst import kruskal
    from solvor.rust import rust_available

    edges = build_edges(case)
    snap = copy.deepcopy(edges)
    af = case["allow_forest"]
    r = canon_result(kruskal(case["n"], edges, allow_forest=af, backend="python"), None, case)
    alias = None
    if edges != snap or type(edges) is not type(snap):
        alias = "kruskal modified the caller's edge list"
    elif case.get("alias", True):
        kruskal(case["n"], edges, allow_forest=not af, backend="python")
        if rust_available() and not case.get("wscale") and len(edges) <= 5000:
            try:
                kruskal(case["n"], edges, allow_forest=af, backend="rust")
            except Exception:  # noqa: BLE001 - the Rust back-end is C12's subject; here only its side effects on the input matter
                pass
        r2 = canon_result(kruskal(case["n"], edges, allow_forest=af, backend="python"), None, case)
        if edges != snap:
            alias = "a sequence of kruskal calls modified the caller's edge list"
        elif public(r2) != public(r):
            alias = f"same edge list object, same options, different answer after intermediate calls: {public(r2)}"
    r["alias"] = alias
    return r


def build_graph(case, lab):
    conv = w_conv(case)
    kind = case.get("adj_kind", "tuple" if case.get("tuple_adj") else "list")
    graph, plain = {}, {}
    for a, ns in case["adj"]:
        items = [(lab(b), conv(w, a + k)) for k, (b, w) in enumerate(ns)]
        plain[a] = [(b, conv(w, a + k)) for k, (b, w) in enumerate(ns)]
        if kind == "items" and len({b for b, _ in ns}) == len(ns):
            val = dict(items).items()
        elif kind == "list2":
            val = [list(it) for it in items]
        elif kind == "reiter":
            val = ReIterable(items)
        elif kind == "gen":
            val = (it for it in items)
        elif kind in ("tuple", "items"):
            val = tuple(items)
        else:
            val = items
        graph[lab(a)] = val
    return graph, plain


def graph_snapshot(graph, back):
    return [(back[k], [(back[b], w) for b, w in v]) for k, v in graph.items()]


def run_prim_impl(case):
    from solvor.mst import prim

    lab = labeller(case)
    ids = []
    for a, ns in case["adj"]:
        ids.append(a)
        ids.extend(b for b, _ in ns)
    if case["start"] is not None:
        ids.append(case["start"])
    back = {}
    for i in dict.fromkeys(ids):
        lbl = lab(i)
        assert lbl not in back, ("label map must be injective", lbl)
        back[lbl] = i
    graph, plain = build_graph(case, lab)
    start = None if case["start"] is None else lab(case["start"])
    assert not (start is None and case["start"] is not None), "a start labelled None cannot be passed (None means default)"
    oneshot = case.get("adj_kind") == "gen"   # a generator can be consumed only once: no snapshot / second call on the same object
    before = None if oneshot else graph_snapshot(graph, back)
    r = canon_result(prim(graph, start=start), back, case)
    alias = None
    if not oneshot:
        if graph_snapshot(graph, back) != before:
            alias = "prim modified the caller's graph"
        elif case.get("alias", True) and case["adj"]:
            other = lab(case["adj"][-1][0])
            if other is not None:
                prim(graph, start=other)
            r2 = canon_result(prim(graph, start=None if case["start"] is None else lab(case["start"])), back, case)
            if graph_snapshot(graph, back) != before:
                alias = "a sequence of prim calls modified the caller's graph"
            elif public(r2) != public(r):
                alias = f"same graph object, same start, different answer after an intermediate call: {public(r2)}"
    r["alias"] = alias
    return r


def run_impl(case):
    fn = run_prim_impl if case["kind"] == "prim" else run_kruskal_impl
    res = guarded(fn, case, timeout=20 if case.get("big") else 5)
    if res[0] == "ok":
        return {"out": "ok", **res[1]}
    if res[0] == "exc":
        return {"out": "exc", "type": res[1], "msg": res[2]}
    return {"out": "hang"}


# ---------------------------------------------------------------- independent oracle (the property itself)
def comp_ids(nodes, und_edges):
    """Connected components by plain DFS: node -> component index."""
    adj = {x: [] for x in nodes}
    for a, b, _ in und_edges:
        adj[a].append(b)
        adj[b].append(a)
    comp, k = {}, 0
    for x in nodes:
        if x in comp:
            continue
        stack = [x]
        comp[x] = k
        while stack:
            y = stack.pop()
            for z in adj[y]:
                if z not in comp:
                    comp[z] = k
                    stack.append(z)
        k += 1
    return comp, k


def is_forest(nodes, es):
    """No cycle (self loops and parallel edges are cycles): edge count = nodes - components."""
    _, k = comp_ids(nodes, es)
    return len(es) == len(nodes) - k


def brute_min_forest(nodes, und_edges):
    """Minimum weight of a spanning forest by enumerating all edge subsets of the right size. None if too many."""
    m = len(und_edges)
    if m > 40:
        return None
    _, k = comp_ids(nodes, und_edges)
    size = len(nodes) - k
    cnt = 1
    for i in range(size):
        cnt = cnt * (m - i) // (i + 1)
    if cnt > BRUTE_LIMIT:
        return None
    best = None
    for sub in itertools.combinations(range(m), size):
        es = [und_edges[i] for i in sub]
        if is_forest(nodes, es):
            wt = sum(e[2] for e in es)
            if best is None or wt < best:
                best = wt
    return best


def naive_min_forest(nodes, und_edges):
    """Weight of a minimum spanning forest by Kruskal over a plain label table with member lists (relabel the smaller
    class), any size.  Independent of solvor: no union-find tree, no ranks, no compression."""
    lab = {x: x for x in nodes}
    members = {x: [x] for x in nodes}
    total = 0
    for a, b, w in sorted(und_edges, key=lambda e: e[2]):
        la, lb = lab[a], lab[b]
        if la != lb:
            total += w
            if len(members[la]) < len(members[lb]):
                la, lb = lb, la
            for x in members[lb]:
                lab[x] = la
            members[la] += members.pop(lb)
    return total


def obj_problem(obj, exact, weights, scale=0):
    """The reported objective against the exact total of the returned edges.  Equal whenever float addition is exact on these
    weights (sum of magnitudes below 2^53); beyond that only float rounding of the running sum is allowed; infinite weights
    give inf / -inf / nan as IEEE addition does; a finite total beyond the float range gives +-inf."""
    pos, neg = any(is_inf_w(w) and w > 0 for w in weights), any(is_inf_w(w) and w < 0 for w in weights)
    if pos or neg:
        want = "nan" if pos and neg else (None if pos else "-inf")
        return None if obj == want or (obj is None and want is None) else f"objective {obj} but the returned edges have infinite weights (expected {want or 'inf'})"
    if obj == exact and obj is not None:
        return None
    mag = sum(abs(w) for w in weights)
    if obj is None or obj == "-inf":
        ok = exact * 2 ** max(scale, 0) > FLOAT_MAX if obj is None else exact * 2 ** max(scale, 0) < -FLOAT_MAX
        return None if ok else f"objective {'inf' if obj is None else '-inf'} but the total weight of the returned edges is {exact}"
    if mag < TWO53 or not isinstance(obj, (int, float)):
        return f"objective {obj} is not the total weight {exact} of the returned edges"
    if abs(Fraction(obj) - exact) <= Fraction(mag) * max(1, len(weights)) / 10 ** 12:
        return None
    return f"objective {obj} is not the total weight {exact} of the returned edges (beyond float rounding)"


def undirected_key(e):
    a, b, w = e
    return (min(a, b), max(a, b), w)


def judge_tree(nodes, und_edges, sol, obj, directed_multiset=None, scale=0):
    """Common part: sol is a spanning forest of (nodes, und_edges) of minimum weight and obj is its weight."""
    nodeset = set(nodes)
    for e in sol:
        if not (isinstance(e[2], int) and e[0] in nodeset and e[1] in nodeset):
            return f"edge {e} is not an edge over the nodes with an integer weight"
    if directed_multiset is not None:
        have, want = Counter(map(tuple, sol)), directed_multiset
    else:
        have, want = Counter(undirected_key(e) for e in sol), Counter(undirected_key(e) for e in und_edges)
    for k, c in have.items():
        if want.get(k, 0) < c:
            return f"edge {k} used {c} times but occurs {want.get(k, 0)} times in the input"
    if not is_forest(nodes, sol):
        return f"returned edges contain a cycle: {sol}"
    comp_in, k_in = comp_ids(nodes, und_edges)
    comp_out, k_out = comp_ids(nodes, sol)
    if k_in != k_out or len(sol) != len(nodes) - k_in:
        return f"returned edges do not span: {k_out} components / {len(sol)} edges, input has {k_in} components on {len(nodes)} nodes"
    total = sum(e[2] for e in sol)
    bad = obj_problem(obj, total, [e[2] for e in sol], scale)
    if bad:
        return bad
    best = brute_min_forest(nodes, und_edges)
    ref = naive_min_forest(nodes, und_edges)
    assert best is None or best == ref, ("oracles disagree", nodes, und_edges, best, ref)
    if best is not None and total != best:
        return f"total weight {total} of the returned edges is not the minimum {best} over all spanning forests"
    if total != ref:
        return f"total weight {total} of the returned edges is not the minimum {ref} (naive label-array Kruskal reference)"
    return None


def oracle_kruskal(case, r):
    n, edges, af = case["n"], [tuple(e) for e in case["edges"]], case["allow_forest"]
    if r["out"] != "ok":
        return f"implementation {r['out']}: {r.get('type')} {r.get('msg')}"
    nodes = list(range(n))
    _, k = comp_ids(nodes, edges)
    st, sol, obj = r["status"], r["solution"], r["objective"]
    if k == 1:
        if st != "OPTIMAL" or sol is None:
            return f"connected graph but status {st}, solution {sol}"
        if len(sol) != n - 1:
            return f"{len(sol)} edges returned for a connected graph on {n} nodes"
    elif af:
        if st != "FEASIBLE" or sol is None:
            return f"disconnected graph with allow_forest but status {st}, solution {sol}"
    else:
        if st != "INFEASIBLE" or sol is not None or obj is not None:
            return f"disconnected graph but status {st}, solution {sol}, objective {obj}"
        return None
    return judge_tree(nodes, edges, [tuple(e) for e in sol], obj, directed_multiset=Counter(edges), scale=case.get("wscale", 0))


def prim_nodes(case):
    nodes = {}
    for a, ns in case["adj"]:
        nodes.setdefault(a)
    for a, ns in case["adj"]:
        for b, _ in ns:
            nodes.setdefault(b)
    return list(nodes)


def oracle_prim(case, r):
    """Symmetric graphs: the full property.  Raw graphs: edges are arcs of the dict, they grow a tree from start,
    OPTIMAL iff every node is reachable from start along the adjacency lists."""
    if r["out"] != "ok":
        return f"implementation {r['out']}: {r.get('type')} {r.get('msg')}"
    st, sol, obj = r["status"], r["solution"], r["objective"]
    nodes = prim_nodes(case)
    if not case["adj"]:
        return None if (st, sol, obj) == ("OPTIMAL", [], 0) else f"empty graph gave {st} {sol} {obj}"
    start = case["start"] if case["start"] is not None else case["adj"][0][0]
    arcs = Counter((a, b, w) for a, ns in case["adj"] for b, w in ns)
    if case["sym"]:
        und = und_of(case)
        _, k = comp_ids(nodes, und)
        if k == 1:
            if st != "OPTIMAL" or sol is None:
                return f"connected graph but status {st}"
            solt = [tuple(e) for e in sol]
            for e in solt:
                if arcs.get(e, 0) < 1:
                    return f"edge {e} is not in the adjacency dict"
            return judge_tree(nodes, und, solt, obj, scale=case.get("wscale", 0))
        if st != "INFEASIBLE" or sol is not None or obj is not None:
            return f"disconnected graph but status {st}, solution {sol}, objective {obj}"
        return None
    # raw
    out = {a: [b for b, _ in ns] for a, ns in case["adj"]}
    seen, stack = {start}, [start]
    while stack:
        y = stack.pop()
        for z in out.get(y, []):
            if z not in seen:
                seen.add(z)
                stack.append(z)
    if start not in set(nodes):
        return None  # start is not a node: outside the property (recorded as a note), model comparison only
    if all(x in seen for x in nodes):
        if st != "OPTIMAL" or sol is None:
            return f"all nodes reachable from start but status {st}"
        inn = {start}
        for a, b, w in map(tuple, sol):
            if arcs.get((a, b, w), 0) < 1 or a not in inn or b in inn:
                return f"edge {(a, b, w)} does not extend the tree grown from start"
            inn.add(b)
        if inn != set(nodes) or obj_problem(obj, sum(e[2] for e in sol), [e[2] for e in sol], case.get("wscale", 0)):
            return f"tree covers {sorted(inn)} of {sorted(nodes)}, objective {obj}"
        return None
    if st != "INFEASIBLE" or sol is not None or obj is not None:
        return f"unreachable nodes but status {st}, solution {sol}, objective {obj}"
    return None


def oracle_agree(case, r, rk):
    """prim and kruskal on the same undirected graph: same feasibility, same objective."""
    if r["out"] != "ok" or rk["out"] != "ok":
        return None
    tot = lambda x: None if x["solution"] is None else sum(e[2] for e in x["solution"])  # noqa: E731
    a = (r["status"] == "OPTIMAL", tot(r))
    b = (rk["status"] == "OPTIMAL", tot(rk))
    return None if a == b else f"prim gives {r['status']} {r['objective']}, kruskal gives {rk['status']} {rk['objective']}"


def kruskal_of_prim(case):
    nodes = prim_nodes(case)
    idx = {x: i for i, x in enumerate(nodes)}
    return {"kind": "kruskal", "n": len(nodes), "edges": [[idx[a], idx[b], w] for a, b, w in und_of(case)],
            "allow_forest": False, "float_w": False, "tag": "from-prim", "alias": False, "big": case.get("big", False)}


def oracle(case, r):
    return oracle_main(case, r) or r.get("alias")


def oracle_main(case, r):
    if case["kind"] == "kruskal":
        return oracle_kruskal(case, r)
    if case["kind"] == "kruskal_bad":
        ok = r["out"] == "exc" and r["type"] == "ValueError"
        return None if ok else f"malformed input (n_nodes={case['n']}) did not raise ValueError: {r}"
    bad = oracle_prim(case, r)
    if bad is None and case["sym"] and case["adj"]:
        bad = oracle_agree(case, r, run_impl(kruskal_of_prim(case)))
    return bad


def shrink(case, r, budget=400):
    """Drop edges (chunks first for long lists) while the oracle still rejects the implementation's answer."""
    cur = case
    calls = 0

    def fails(c2):
        nonlocal calls
        calls += 1
        return bool(oracle(c2, run_impl(c2)))

    if cur["kind"] in ("kruskal", "kruskal_bad"):
        chunk = max(1, len(cur["edges"]) // 2)
        while chunk >= 1 and calls < budget:
            i, progressed = 0, False
            while i < len(cur["edges"]) and calls < budget:
                c2 = dict(cur, edges=cur["edges"][:i] + cur["edges"][i + chunk:])
                if len(c2["edges"]) < len(cur["edges"]) and fails(c2):
                    cur, progressed = c2, True
                else:
                    i += chunk
            if chunk == 1 and not progressed:
                break
            chunk = chunk // 2 if chunk > 1 else (1 if progressed else 0)
        return cur
    if cur["sym"]:
        changed = True
        while changed and calls < budget:
            changed = False
            for a, b, w in und_of(cur):
                if calls >= budget:
                    break
                adj = {k: [list(p) for p in ns] for k, ns in cur["adj"]}
                adj[a].remove([b, w])
                if a != b:
                    adj[b].remove([a, w])
                c2 = dict(cur, adj=[[k, adj[k]] for k, _ in cur["adj"]], und=None)
                if sym_ok(c2) and fails(c2):
                    cur, changed = c2, True
                    break
    return cur


def und_of(case):
    """Undirected edge multiset of a symmetric adjacency dict: one edge per arc pair (a,b,w)/(b,a,w), a < b;
    every listing of a self loop counts as one edge (self loops are never part of a forest)."""
    arcs = Counter((a, b, w) for a, ns in case["adj"] for b, w in ns)
    und = []
    for (a, b, w), c in sorted(arcs.items()):
        if a < b:
            und += [(a, b, w)] * min(c, arcs.get((b, a, w), 0))
        elif a == b:
            und += [(a, a, w)] * c
    return und


def sym_ok(case):
    arcs = Counter((a, b, w) for a, ns in case["adj"] for b, w in ns)
    return all(arcs.get((b, a, w), 0) == c for (a, b, w), c in arcs.items())


# ---------------------------------------------------------------- Coq terms
def c_edge(e):
    return f"({cnat(e[0])}, {cnat(e[1])}, {cz(e[2])})"


def c_obs(r, scale=0):
    if r["out"] == "exc" and r["type"] == "ValueError":
        return "ORaised"
    if r["out"] != "ok" or r["status"] not in ("OPTIMAL", "FEASIBLE", "INFEASIBLE"):
        return "OFail"
    sol = r["solution"]
    if sol is not None and not all(isinstance(e[2], int) and e[0] >= 0 and e[1] >= 0 for e in sol):
        return "OFail"
    obj = r["objective"]
    if sol is not None and all(isinstance(e[2], int) for e in sol) and obj != sum(e[2] for e in sol) and \
            obj_problem(obj, sum(e[2] for e in sol), [e[2] for e in sol], scale) is None:
        obj = sum(e[2] for e in sol)   # beyond 2^53 the float objective is the rounded total: the model is compared on the exact one
    if (obj is None and sol is not None) or (obj is not None and not isinstance(obj, int)):
        return "OFail"
    s = copt(sol, lambda l: clist(l, c_edge))
    o = copt(obj, cz)
    return f"(ODone ({r['status']}, {s}, {o}) {cnat(r['iterations'])} {cnat(r['evaluations'])})"


def c_kruskal_case(case, r):
    return f"(({cnat(case['n'])}, {clist(case['edges'], c_edge)}, {cbool(case['allow_forest'])}), {c_obs(r, case.get('wscale', 0))})"


def c_graph(case):
    return clist(case["adj"], lambda kn: f"({cnat(kn[0])}, {clist(kn[1], lambda p: f'({cnat(p[0])}, {cz(p[1])})')})")


def c_prim_case(case, r):
    return f"(({c_graph(case)}, {copt(case['start'], cnat)}), {c_obs(r, case.get('wscale', 0))})"


K_TYPE = "(nat * list edge * bool) * obs_outcome"
P_TYPE = "(graph * option nat) * obs_outcome"
K_CORR = "fun c => let '((n, es, af), o) := c in outcome_eqb false (obs_of (kruskal n es af)) o"
P_CORR = "fun c => let '((g, st), o) := c in outcome_eqb false (obs_of (prim g st)) o"
K_SPEC_BIG = "fun c => let '((n, es, af), o) := c in match o with ODone ob _ _ => kruskal_check n es af ob | _ => false end"
MIN_CHECK_MAX_EDGES = 13
K_SPEC = "fun c => let '((n, es, af), o) := c in match o with ODone ob _ _ => kruskal_check n es af ob && kruskal_min_check n es ob | _ => false end"
P_SPEC = "fun c => let '((g, st), o) := c in match o with ODone ob _ _ => prim_check g st ob | _ => false end"


# ---------------------------------------------------------------- fixed edge cases
def fixed_cases():
    K = lambda n, es, af=False, fw=False: {"kind": "kruskal", "n": n, "edges": [list(e) for e in es], "allow_forest": af,
                                           "float_w": fw, "tag": "fixed"}
    out = [
        K(1, []), K(1, [], True), K(1, [(0, 0, 5)]), K(2, []), K(2, [], True), K(2, [(0, 1, -3)]),
        K(2, [(0, 0, 1), (1, 1, 1)]), K(2, [(0, 1, 5), (1, 0, 2), (0, 1, 2)]),
        K(4, [(0, 1, 4), (0, 2, 3), (1, 2, 2), (1, 3, 5), (2, 3, 6)]),          # docstring example
        K(3, [(0, 1, 1), (1, 2, 1), (0, 2, 1)]), K(3, [(2, 0, 1), (1, 2, 1), (0, 1, 1)], fw=True),
        K(4, [(0, 1, 1), (2, 3, 1)]), K(4, [(0, 1, 1), (2, 3, 1)], True), K(4, [(0, 1, 1), (0, 1, 0), (1, 0, -1)], True),
        K(5, [(0, 1, 2), (1, 2, 2), (2, 0, 2), (3, 4, 2), (3, 3, 1)], True),
        K(3, [(0, 1, -5), (1, 2, -5), (0, 2, -7)]),
        {"kind": "kruskal_bad", "n": 0, "edges": [], "allow_forest": False},
        {"kind": "kruskal_bad", "n": 2, "edges": [[0, 2, 1]], "allow_forest": False},
        {"kind": "kruskal_bad", "n": 2, "edges": [[0, 1, 1], [3, 0, 1]], "allow_forest": True},
        {"kind": "kruskal_bad", "n": -1, "edges": [], "allow_forest": False},
    ]

    def P(und, n, start=None, lab="int", iso=()):
        adj = {i: [] for i in range(n)}
        for a, b, w in und:
            adj[a].append([b, w])
            if a != b:
                adj[b].append([a, w])
        return {"kind": "prim", "adj": [[a, adj[a]] for a in range(n)], "und": [list(e) for e in und], "start": start,
                "sym": True, "labelling": lab, "tag": "fixed", "float_w": False, "tuple_adj": False}

    out += [
        {"kind": "prim", "adj": [], "und": [], "start": None, "sym": True, "labelling": "int", "tag": "fixed", "float_w": False, "tuple_adj": False},
        {"kind": "prim", "adj": [], "und": [], "start": 3, "sym": True, "labelling": "str", "tag": "fixed", "float_w": False, "tuple_adj": False},
        P([], 1), P([], 1, 0), P([(0, 0, 2)], 1), P([], 2), P([(0, 1, -3)], 2, 1, "str"),
        P([(0, 1, 4), (0, 2, 3), (1, 2, 2), (1, 3, 5), (2, 3, 6)], 4, 0),
        P([(0, 1, 4), (0, 2, 3), (1, 2, 2), (1, 3, 5), (2, 3, 6)], 4, 3, "tuple"),
        P([(0, 1, 1), (1, 2, 1), (0, 2, 1)], 3, 2, "mixed"), P([(0, 1, 1), (2, 3, 1)], 4, 0), P([(0, 1, 1), (2, 3, 1)], 4, 3),
        P([(0, 1, 5), (1, 0, 2), (0, 1, 2)], 2), P([(0, 1, 1), (1, 2, 1)], 4, 1),
        P([(0, 1, -5), (1, 2, -5), (0, 2, -7)], 3, 1, "perm"),
    ]
    return out


def _corpus():
    out = []
    d = VERIF / "corpus" / "C13"
    if d.exists():
        for f in sorted(d.glob("*.json")):
            o = json.loads(f.read_text())
            if o.get("kind") in ("kruskal", "kruskal_bad", "prim", "kruskal_seq", "prim_seq"):
                out.append(o)
    return out


def coq_sized(case):
    """Cases evaluated by the Gallina model / checkers inside coqc (vm_compute stays cheap): up to ~150 edges."""
    if case["kind"] == "prim":
        return sum(len(ns) for _, ns in case["adj"]) <= 300 and len(case["adj"]) <= 140
    return len(case["edges"]) <= 150 and case["n"] <= 140


def nontrivial(case, r):
    if r["out"] != "ok":
        return False
    if r["status"] == "OPTIMAL":
        return len(r["solution"]) >= 2 and r["iterations"] > len(r["solution"])
    return r["iterations"] >= 1


def canon_case(case):
    keys = ("kind", "n", "edges", "allow_forest", "adj", "start", "labelling", "label_ids", "pool_variant", "adj_kind",
            "edges_kind", "wscale", "float_w", "negzero", "step", "pool_spelling")
    return json.dumps({k: case.get(k) for k in keys}, sort_keys=True)


# ---------------------------------------------------------------- the check
def run(ctx: Ctx):
    ctx.rule = ("random weighted multigraphs on 1..6 nodes (7 thorough), <= 13 edges (judged by exhaustive spanning-forest enumeration) "
                "plus a deep-union-find family on 8..18 nodes (tournament-ordered weights 1,2,3[,4] building union-find trees of height >= 3, "
                "then heavier redundant edges, pendant and isolated nodes, permuted labels; judged by a naive label-array Kruskal reference),  weight modes equal/ties/negative/wide/distinct, "
                "shapes random/dense/tree+extra/split/isolated/multi-edge/sparse, self loops, allow_forest on/off, prim with any start "
                "and int/str/tuple/mixed labels, plus malformed kruskal inputs and raw (asymmetric) prim dicts; "
                "non-trivial = OPTIMAL with >= 2 edges after at least one rejected edge / skipped heap entry, or a non-OPTIMAL "
                "answer after >= 1 iteration; distinct = canonical JSON of the call")
    ctx.proof_step(["C13"])
    big = ctx.tier == "thorough"
    cases = _corpus() + fixed_cases()
    cases += [gen_kruskal(ctx.rng, big) for _ in range(ctx.budget(350, 6000))]
    cases += [gen_prim(ctx.rng, big) for _ in range(ctx.budget(350, 6000))]
    cases += [gen_kruskal_bad(ctx.rng) for _ in range(ctx.budget(30, 300))]
    cases += [gen_prim_raw(ctx.rng, big) for _ in range(ctx.budget(80, 1500))]
    cases += [gen_kruskal_deep(ctx.rng, big) for _ in range(ctx.budget(70, 2500))]
    cases += [gen_prim(ctx.rng, big, base=gen_deep_edges(ctx.rng, big)) for _ in range(ctx.budget(20, 500))]
    # round 2 (HARDENING.md): L labels, I iterables, M magnitudes, O option sweep, H event-directed, S sizes; A runs on every case
    cases += [gen_prim_labels(ctx.rng, big) for _ in range(ctx.budget(70, 800))]
    cases += [gen_prim_labels(ctx.rng, big, base=gen_deep_edges(ctx.rng, big)) for _ in range(ctx.budget(10, 200))]
    cases += [gen_prim_iterables(ctx.rng, big) for _ in range(ctx.budget(50, 400))]
    cases += [gen_kruskal_containers(ctx.rng, big) for _ in range(ctx.budget(40, 400))]
    cases += [gen_kruskal_magnitude(ctx.rng, big) for _ in range(ctx.budget(60, 800))]
    cases += [gen_prim_magnitude(ctx.rng, big) for _ in range(ctx.budget(40, 500))]
    for _ in range(ctx.budget(6, 60)):
        cases += start_sweep(ctx.rng, big)
    cases += directed_cases(ctx.rng, big, ctx.budget(12, 60))
    cases += big_edge_family(ctx.rng, big) + big_prim_family(ctx.rng, big)
    # round 3: A2 in-place edits between calls, X float extremes, W work volume
    cases += [gen_kruskal_seq(ctx.rng, big) for _ in range(ctx.budget(60, 1000))]
    cases += [gen_prim_seq(ctx.rng, big) for _ in range(ctx.budget(40, 600))]
    cases += [gen_kruskal_x(ctx.rng, big) for _ in range(ctx.budget(50, 600))]
    cases += [gen_prim_x(ctx.rng, big) for _ in range(ctx.budget(40, 500))]
    cases += work_volume_family(ctx.rng, big)
    nan_checks(ctx)

    k_cases, k_meta, p_cases, p_meta, ks_cases, ps_cases = [], [], [], [], [], []
    brute_skipped = 0
    import time as _time
    _t0 = _time.time()
    work = []
    judged = []
    for case in cases:
        obs = observation_only(case)
        if obs:
            res = guarded(run_kruskal_seq if case["kind"] == "kruskal_seq" else run_prim_seq if case["kind"] == "prim_seq" else run_impl, case, timeout=10)
            ctx.count("observation_only", obs)
            ctx.count("observation_only_outcome", "hang" if res[0] == "hang" else ("raised" if res[0] == "exc" else "returned"))
            continue
        judged.append(case)
    for case in judged:
        if case["kind"].endswith("_seq"):
            res = guarded(run_kruskal_seq if case["kind"] == "kruskal_seq" else run_prim_seq, case, timeout=10)
            if res[0] == "ok":
                work += [(sub, r, case) for sub, r in res[1]]
            else:
                ctx.violation(f"{case['kind']}: implementation {res[0]} {res[1:]} during a call sequence on a shared, edited object", {"case": case})
        else:
            work.append((case, run_impl(case), None))
    volume = {"kruskal_scan_iterations_max": 0, "prim_pop_iterations_max": 0, "prim_heap_pushes_max": 0}
    for case, r, origin in work:
        ctx.evaluations += 1
        kind = case["kind"]
        if r["out"] == "ok":
            if kind == "kruskal":
                volume["kruskal_scan_iterations_max"] = max(volume["kruskal_scan_iterations_max"], r["iterations"])
            elif kind == "prim":
                volume["prim_pop_iterations_max"] = max(volume["prim_pop_iterations_max"], r["iterations"])
                volume["prim_heap_pushes_max"] = max(volume["prim_heap_pushes_max"], r["evaluations"])
            for key, thr in (("iterations", 128), ("iterations", 1024), ("iterations", 2048), ("iterations", 4096), ("iterations", 10 ** 4), ("iterations", 10 ** 5), ("iterations", 2 ** 20)):
                if r[key] > thr:
                    ctx.count(f"{kind}_loop_iterations_over", thr)
        ctx.count("kind", kind if kind != "prim" else ("prim" if case["sym"] else "prim_raw"))
        ctx.count(f"{kind}_status", r.get("status", r["out"] + ":" + str(r.get("type"))))
        if kind == "kruskal":
            ctx.count("n", case["n"])
            ctx.count("m", len(case["edges"]))
            ctx.count("allow_forest", case["allow_forest"])
            ctx.count("shape", case.get("tag"))
        elif kind == "prim":
            ctx.count("prim_nodes", len(prim_nodes(case)))
            ctx.count("prim_start", "None" if case["start"] is None else "given")
            ctx.count("labelling", case["labelling"])
        if kind == "kruskal" and len(case["edges"]) <= 400 and case["n"] >= 1:
            ev = uf_events(case["n"], [tuple(e) for e in case["edges"]])
            ctx.count("uf_max_find_depth", ev["depth"])
            for k in ("swaps", "compressions", "rejected_deep", "early_break"):
                ctx.count("uf_event_" + k, "yes" if ev[k] else "no")
        if kind != "kruskal_bad":
            ctx.count("family", str(case.get("tag", "")).split("/")[0] if str(case.get("tag", "")).startswith(("deep", "S:", "L:", "I:", "M:", "O:", "H:", "A2:", "X:", "W:")) else "small-random")
            ctx.count("containers", case.get("edges_kind") or case.get("adj_kind") or "list")
        bad = oracle(case, r)
        if not bad and r["out"] == "ok" and case.get("expect_iterations") is not None:
            # work-volume instances: the loop count and the answer are known by construction
            if r["iterations"] != case["expect_iterations"]:
                bad = f"loop ran {r['iterations']} iterations, by construction it needs {case['expect_iterations']}"
            elif case.get("expect_objective") is not None and r["objective"] != case["expect_objective"]:
                bad = f"objective {r['objective']}, by construction {case['expect_objective']}"
        if bad and origin is not None:
            ctx.violation(f"{kind} ({case.get('step')}): {bad}", {"case": origin, "failing_step": case, "impl": r})
        elif bad:
            small = shrink(case, r) if len(ctx.violations) < 4 else case   # shrinking long edge lists is the expensive part
            rs = run_impl(small)
            ctx.violation(f"{kind}: {oracle(small, rs) or bad}", {"case": small, "impl": rs, "original_case": case})
        if nontrivial(case, r):
            ctx.nontriv(canon_case(case))
        if kind in ("kruskal", "kruskal_bad"):
            if kind == "kruskal":
                ctx.sample({"call": f"kruskal({case['n']}, {case['edges'][:40]}, allow_forest={case['allow_forest']}, backend='python')",
                            "result": {k: r.get(k) for k in ("status", "solution", "objective")}}, 2)
            if case["n"] >= 0 and all(u >= 0 and v >= 0 for u, v, _ in case["edges"]) and coq_sized(case):
                k_cases.append(c_kruskal_case(case, r))
                k_meta.append((case, r))
                if kind == "kruskal":
                    ks_cases.append((c_kruskal_case(case, r), case, r))
        else:
            ctx.sample({"call": f"prim(adj={case['adj'][:12]}, start={case['start']}, labels={case['labelling']})",
                        "result": {k: r.get(k) for k in ("status", "solution", "objective")}}, 4)
            if coq_sized(case):
                p_cases.append(c_prim_case(case, r))
                p_meta.append((case, r))
                if case["sym"]:
                    ps_cases.append((c_prim_case(case, r), case, r))
    ctx.notes.append("weights are integers (some passed as integral floats); float addition is exact on them, model over Z")
    ctx.notes.append("prim with a start that is not a node of the graph (returns OPTIMAL [] on a 1-node graph, INFEASIBLE otherwise) is "
                     "outside the property; such calls are only compared with the model")
    ctx.notes.append("graphs with > 13 edges: minimality is judged by the naive label-array Kruskal reference of the harness and the Coq "
                     "structural checker kruskal_check; the exponential Coq kruskal_min_check runs only up to 13 edges")
    ctx.notes.append("round-2 families: prim labels from a pool of awkward hashables (None, False/0/0.0, True/1, '', (), ints >= 257, 2^70+1, inf, ...) "
                     "built fresh at every occurrence; containers (tuple/UserList/lists of lists; items views, re-iterables); magnitudes "
                     "2^31..10^18, 2^44+1 mixes, 2^-40 differences, dyadic floats (model sees the integer numerators; beyond 2^53 the float "
                     "objective is only required to be the rounded total, the TREE must still be exactly minimum); start sweeps; "
                     "event-directed union-find histories; sizes up to 65537 edges (10^6 thorough) judged by the naive reference; "
                     "every call is followed by input-unmodified / same-answer-again checks (other allow_forest, Rust back-end, other start in between)")
    ctx.extra["work_volume_max"] = volume
    ctx.notes.append("round-3 families: A2 call sequences on ONE edge list / graph dict edited in place between the calls (each call judged on "
                     "the content at that moment by the full oracle, compared with a fresh deep copy, and sent to the Coq correspondence); "
                     "X float extremes (2^60 cancellation, 1e308 overflow of the objective to inf, inf / -inf weights - the model sees +-2^2000 -, "
                     "-0.0, ints and equal floats mixed; NaN weights judged structurally only); W work volume (kruskal scans of up to 10^5 "
                     "(2^20 thorough) edges without early break, prim popping up to 10^5 stale heap entries, chains of 12000 nodes) with loop counts "
                     "and answers known by construction; coverage.work_volume_max has the maximum count per loop")
    ctx.notes.append("observation-only (outside the property, POLICY_X): NaN / inf weights, magnitudes near 1e308, weights whose sums do not fit "
                     "in 2^53 (the objective is a float by design) - run under the guard and counted in the observation_only histograms, never judged")
    ctx.notes.append("cases with > 150 edges are not evaluated inside coqc (insertion-sort model, vm_compute cost); they are judged by the Python oracle only")
    ctx.notes.append("iterations / evaluations counters are modelled but not compared (the property does not mention them)")
    ctx.notes.append("theorems are about the Gallina model over Z with nat node ids; hashable labels are mapped injectively to nat by "
                     "the harness (the code only hashes / compares labels for equality; heap ties are broken by the unique counter)")
    ctx.notes.append("prim theorems assume distinct dict keys (always true of a Python dict) and start in the node set; minimality "
                     "and agreement with kruskal additionally assume a symmetric adjacency dict (undirected graph)")

    _t1 = _time.time()
    bad_k = ctx.coq_check("kruskal", IMPORTS, K_TYPE, K_CORR, k_cases)
    bad_p = ctx.coq_check("prim", IMPORTS, P_TYPE, P_CORR, p_cases)
    ks_small = [x for x in ks_cases if len(x[1]["edges"]) <= MIN_CHECK_MAX_EDGES]
    ks_big = [x for x in ks_cases if len(x[1]["edges"]) > MIN_CHECK_MAX_EDGES]
    bad_small = ctx.coq_check("kruskal_spec", IMPORTS, K_TYPE, K_SPEC, [c for c, _, _ in ks_small])
    bad_big = ctx.coq_check("kruskal_spec_big", IMPORTS, K_TYPE, K_SPEC_BIG, [c for c, _, _ in ks_big])
    ks_cases = ks_small + ks_big
    bad_ks = bad_small + [len(ks_small) + i for i in bad_big]
    bad_ps = ctx.coq_check("prim_spec", IMPORTS, P_TYPE, P_SPEC, [c for c, _, _ in ps_cases])
    ctx.traces_validated += len(k_cases) + len(p_cases)
    ctx.extra["phase_seconds"] = {"implementation_and_oracle": round(_t1 - _t0, 1), "coq": round(_time.time() - _t1, 1)}

    # the Coq spec checkers are a second, independent judge of the implementation outputs
    for i in bad_ks[:3]:
        _, case, r = ks_cases[i]
        ctx.violation("kruskal: Coq checker kruskal_check/kruskal_min_check (sound w.r.t. kruskal_spec) rejects the implementation output",
                      {"case": case, "impl": r})
    for i in bad_ps[:3]:
        _, case, r = ps_cases[i]
        ctx.violation("prim: Coq checker prim_check (sound w.r.t. prim_spec) rejects the implementation output", {"case": case, "impl": r})

    disagree = [k_meta[i] for i in bad_k] + [p_meta[i] for i in bad_p]
    if (disagree or ctx.broken) and not ctx.violations:
        found = False
        pool = [c for c, _ in disagree]
        for it in range(30000):
            if pool and it % 3 == 0:
                case = mutate(ctx.rng, ctx.rng.choice(pool))
            else:
                case = (gen_kruskal if it % 2 else gen_prim)(ctx.rng, True)
            r = run_impl(case)
            bad = oracle(case, r)
            if bad:
                small = shrink(case, r)
                rs = run_impl(small)
                ctx.violation(f"{case['kind']}: {oracle(small, rs) or bad}", {"case": small, "impl": rs, "original_case": case})
                found = True
                break
        if not found:
            for case, r in disagree[:2]:
                if case["kind"] == "prim":
                    term = f"obs_of (prim {c_graph(case)} {copt(case['start'], cnat)})"
                    lemma = "Cases/C13/prim_*.v corr"
                else:
                    term = f"obs_of (kruskal {cnat(case['n'])} {clist(case['edges'], c_edge)} {cbool(case['allow_forest'])})"
                    lemma = "Cases/C13/kruskal_*.v corr"
                model = ctx.coq_eval("show", IMPORTS, term)
                ctx.violation(f"correspondence lemma {lemma}: model SV.C13.Mst and implementation differ on status/solution/objective "
                              "(the independent oracle accepts the implementation's answer)",
                              {"case": case, "impl": r, "model": model, "lemma": lemma}, no_input=True)


def mutate(rng, case):
    case = json.loads(json.dumps(case))
    if case["kind"] == "kruskal" and case["edges"]:
        i = rng.randrange(len(case["edges"]))
        r = rng.random()
        if r < 0.4:
            case["edges"][i][2] += rng.choice([-1, 1])
        elif r < 0.7:
            case["edges"].append(list(case["edges"][i]))
        else:
            rng.shuffle(case["edges"])
        return case
    if case["kind"] == "prim":
        return gen_prim(rng, True)
    return gen_kruskal(rng, True)


def replay(obj):
    case = obj.get("case") or (obj if obj.get("kind") in ("kruskal", "kruskal_bad", "prim", "kruskal_seq", "prim_seq") else None)
    if case is not None and case["kind"].endswith("_seq"):
        worst = 0
        for sub, r in (run_kruskal_seq if case["kind"] == "kruskal_seq" else run_prim_seq)(case):
            bad = oracle(sub, r)
            print(sub.get("step"), "->", public(r), "|", bad or "ok")
            worst |= bool(bad)
        return int(worst)
    if case is None:
        print("replay names an unchecked obligation:", obj.get("unchecked") or obj.get("what"))
        return 1
    r = run_impl(case)
    bad = oracle(case, r)
    print("call:", {k: case.get(k) for k in ("kind", "n", "edges", "allow_forest", "adj", "start", "labelling")})
    print("implementation:", r)
    print("oracle verdict:", bad or "ok")
    if obj.get("model"):
        print("model output recorded at check time:", obj["model"])
    return 1 if bad else 0
