"""C03 round-3 hardening (HARDENING.md, 'Round-3 addendum'): run_hard3(ctx), called from harness/props/C03.py.

W  work volume: families that MAXIMISE the number of pivots of the Bland loop of _phase2 at moderate size (generalised Klee-Minty
   LPs with base 4 / 5, the eps-cube with geometric objective, with redundant rows, explicit max_iter above / below the needed
   count, a phase-1 variant), crossing 2^7, 2^10, 2^11, 2^12, 10^4 pivots in quick (10^5 = the default limit itself in thorough);
   optimum known by construction (exact integer primal/dual pair) or certified by a verified dual point; small members also go
   through the Coq model + proved certificate checker.  Interior point: max_iter up to 4097 (10001 thorough) iterations.
   A MAX_ITER answer is judged by the property itself: it is only allowed when the iteration limit was reached
   (iterations == max_iter); the maximum count reached per loop is reported in histogram 'work_max'.
A2 in-place edits between calls: solve, mutate the caller's lists in place (entry, rhs, cost, appended row / column), solve again
   with both solvers, compare with a fresh call on a deep copy.
X  float extremes: 2^60 / -2^60 cancelling entries, rows and costs of magnitude 1e300..1e308 (sums overflow), -0.0, integral
   floats vs ints in every numeric argument are JUDGED; NaN / +-inf data, overflow-scale magnitudes, +-2^60 cancellation and the
   ill-conditioned eps-cube duals are OBSERVATION ONLY (coordinator's POLICY_X: outside the property), counted in 'observation_only'.
"""
from __future__ import annotations

import copy
import json
import math
from fractions import Fraction

from harness.core import guarded, pmap


def _M():
    import harness.props.C03 as M

    return M


def _H():
    from harness.props import C03_hard as H

    return H


# =============================================================================== W: pivot-maximising families
def km_general(N, base, pad=0, extra=0, minimize_form=False, rowmul=None):
    """max sum 2^(N-1-j) x_j  s.t.  sum_{j<i} 2^(i-j+1) x_j + x_i <= base^(i+1)   (base >= 4).
    Optimum base^N at x = (0,..,0,base^N), certified exactly by the dual y = e_N (checked in integers below).
    pad: zero-cost columns appended (they never enter); extra: redundant far rows appended; rowmul: positive integer row factors."""
    c = [2 ** (N - 1 - j) for j in range(N)] + [0] * pad
    A = [[2 ** (i - j + 1) if j < i else (1 if j == i else 0) for j in range(N)] + [1 if (i + k) % 3 == 0 else 0 for k in range(pad)] for i in range(N)]
    b = [base ** (i + 1) for i in range(N)]
    for k in range(extra):
        A.append([1] * (N + pad)); b.append(base ** N * (N + 2 + k))
    if rowmul:
        for i in range(len(A)):
            f = rowmul[i % len(rowmul)]
            A[i] = [f * a for a in A[i]]; b[i] = f * b[i]
    xs = [0] * (N - 1) + [base ** N] + [0] * pad
    ys = [0] * (N - 1) + [Fraction(1, (rowmul[(N - 1) % len(rowmul)] if rowmul else 1))] + [0] * extra
    assert all(sum(a * x for a, x in zip(r, xs)) <= bi for r, bi in zip(A, b))
    assert all(sum(A[i][j] * ys[i] for i in range(len(A))) >= c[j] for j in range(len(c)))
    assert sum(cj * xj for cj, xj in zip(c, xs)) == sum(bi * yi for bi, yi in zip(b, ys)) == base ** N
    case = {"c": c, "A": A, "b": b, "minimize": False, "max_iter": None, "expect": "OPTIMAL", "expect_obj": base ** N,
            "family": f"klee-minty-b{base}", "timeout": 300}
    if minimize_form:
        case["c"] = [-v for v in c]; case["minimize"] = True; case["expect_obj"] = -(base ** N)
    return case


def eps_cube(N, e=0.25, order="lohi"):
    """0 <= x_1 <= 1,  e x_{i-1} <= x_i <= 1 - e x_{i-1};  max f_N = sum e^(N-1-j) x_j.  Data in [0, 1] (dyadic for e = 1/4, 3/8).
    Optimum by construction: f_N = x_N + e x_{N-1} + e^2 f_{N-2} <= 1 + e^2 F_{N-2} (the row x_N + e x_{N-1} <= 1 and induction on the
    (N-2)-cube), attained with x_N = 1 - e x_{N-1}; F_1 = F_2 = 1, so F_N = sum_{k < ceil(N/2)} e^(2k) (exact rational)."""
    A, b = [], []
    for i in range(N):
        lo = [0.0] * N; hi = [0.0] * N
        hi[i] = 1.0
        if i > 0:
            hi[i - 1] = e; lo[i - 1] = e; lo[i] = -1.0
        rows = ([(lo, 0.0)] if i > 0 else []) + [(hi, 1.0)]
        if order != "lohi":
            rows = rows[::-1]
        for r, t in rows:
            A.append(r); b.append(t)
    c = [e ** (N - 1 - j) for j in range(N)]
    opt = sum(Fraction(e) ** (2 * k) for k in range((N + 1) // 2))
    return {"c": c, "A": A, "b": b, "minimize": False, "max_iter": None, "expect": "OPTIMAL", "expect_obj": float(opt),
            "family": f"eps-cube-{e}", "timeout": 300}


def eps_cube_dual(N, e, order="lohi"):
    """the dual LP of eps_cube(N, e) written in the solver's form (max -b.y, -A^T y <= -c, y >= 0): same optimum up to sign.
    Well-scaled data (entries 1, e, right-hand sides e^k >= 2e-5) but ill-conditioned vertices: the tableau entries grow to 1e3..1e4."""
    p = eps_cube(N, e, order)
    A, b, c = p["A"], p["b"], p["c"]
    m, n = len(b), len(c)
    return {"c": [-v for v in b], "A": [[-A[i][j] for i in range(m)] for j in range(n)], "b": [-v for v in c], "minimize": False, "max_iter": None,
            "expect": "OPTIMAL", "expect_obj": -p["expect_obj"], "family": f"eps-cube-dual-{e}", "timeout": 300}


def with_phase1(case, t=1):
    """the same LP with a redundant '>=' row  sum x >= t  (negative rhs: phase 1 has to run first)"""
    k = copy.deepcopy(case)
    n = len(k["c"])
    k["A"].append([-1] * n); k["b"].append(-t)
    k["family"] += "+phase1"
    return k


def _count_work(case):
    """(phase-1 pivots, phase-2 pivots, total) of the run, from the instrumented _phase2"""
    H = _H()
    M = _M()
    H._install_events()
    H._EV.clear(); H._EV["on"] = True
    res = guarded(M._call_simplex, case, timeout=case.get("timeout", 60))
    ev = dict(H._EV); H._EV.clear()
    calls = ev.get("p2_calls", [])
    p1 = sum(c[1] for c in calls if c[2]); p2 = sum(c[1] for c in calls if not c[2])
    return res, p1, p2


def _work_w(case):
    """run once (instrumented), judge by construction; MAX_ITER is allowed only when the limit was reached"""
    M = _M(); H = _H()
    M._install_trace()
    del M._TRACE[:]
    res, p1, p2 = _count_work(case)
    if res[0] != "ok":
        return {"fail": list(res)}, f"solve_lp did not return: {res}", p1, p2
    r = res[1]
    out = {"status": r.status.name, "solution": [float(v) for v in r.solution], "objective": float(r.objective), "iterations": int(r.iterations),
           "pivots": []}
    limit = 100000 if case["max_iter"] is None else case["max_iter"]
    if out["status"] == "MAX_ITER":
        if out["iterations"] < limit:
            return out, (f"MAX_ITER after {out['iterations']} iterations although the iteration limit is {limit}: the limit was not reached and the LP "
                         f"has the finite optimum {case.get('expect_obj', '(see dual certificate)')}"), p1, p2
        if out["iterations"] > limit:
            return out, f"iterations {out['iterations']} exceed the limit {limit}", p1, p2
        if case.get("needs") is not None and case["needs"] < limit:
            return out, f"MAX_ITER at the limit {limit} but Bland's rule needs only {case['needs']} pivots on this LP (measured on the reference run)", p1, p2
        return out, None, p1, p2
    k2 = dict(case); k2["max_iter"] = None      # judge_construct treats MAX_ITER itself; everything else by construction
    return out, H.judge_construct(k2, out), p1, p2


# =============================================================================== A2: in-place edits between calls
def check_inplace(case):
    import random
    import warnings

    from solvor.interior_point import solve_lp_interior
    from solvor.simplex import solve_lp

    H = _H()
    rng = random.Random(json.dumps(case, sort_keys=True, default=str))
    c, A, b = list(case["c"]), [list(r) for r in case["A"]], list(case["b"])
    probs = []

    def both(cc, AA, bb):
        out = []
        with warnings.catch_warnings():
            warnings.simplefilter("ignore")
            for fn, kw in ((solve_lp, {}), (solve_lp_interior, {"max_iter": 15})):
                for mn in (True, False):
                    r = guarded(fn, cc, AA, bb, minimize=mn, timeout=10, **kw)
                    out.append(H._res_tuple(r[1]) if r[0] == "ok" else tuple(r))
        return out

    both(c, A, b)
    for step in range(4):
        how = rng.choice(["entry", "rhs", "cost", "row", "col", "swap"])
        if how == "entry":
            i, j = rng.randrange(len(A)), rng.randrange(len(c)); A[i][j] = A[i][j] + rng.choice([-3, -1, 1, 2, 7])
        elif how == "rhs":
            i = rng.randrange(len(b)); b[i] = b[i] + rng.choice([-4, -1, 1, 5])
        elif how == "cost":
            j = rng.randrange(len(c)); c[j] = -c[j] + rng.choice([0, 1])
        elif how == "row":
            A.append([rng.randint(-3, 4) for _ in c]); b.append(rng.randint(-2, 6))
        elif how == "col":
            c.append(rng.randint(-3, 3))
            for r in A:
                r.append(rng.randint(-2, 3))
        else:
            i, k = rng.randrange(len(A)), rng.randrange(len(A)); A[i], A[k] = A[k], A[i]; b[i], b[k] = b[k], b[i]
        snap = copy.deepcopy((c, A, b))
        got = both(c, A, b)
        want = both(*copy.deepcopy(snap))
        if (c, A, b) != snap:
            probs.append(f"inputs modified by the call after in-place edit '{how}'")
            c, A, b = copy.deepcopy(snap)
        for g, w in zip(got, want):
            same = (g == w) or (len(g) == 4 and len(w) == 4 and isinstance(g[1], tuple) and H._same(g, w))
            if not same:
                probs.append(f"after the in-place edit '{how}' (step {step}) the call on the caller's mutated lists c={c} A={A} b={b} gives {g}, "
                             f"a fresh call on a deep copy gives {w}")
                break
        if probs:
            break
    return probs


# =============================================================================== X: float extremes
INF = float("inf")
NAN = float("nan")


def gen_extreme(rng):
    """(case, expectation): expectation 'oracle' = exact verdict of the finite LP (computed on `ref`), 'empty' = no feasible point exists
    (non-finite data): the call must raise or must not answer OPTIMAL / UNBOUNDED"""
    M = _M()
    base = M.gen_lp(rng)
    base["max_iter"] = None
    c, A, b = list(base["c"]), [list(r) for r in base["A"]], list(base["b"])
    kind = rng.choice(["cancel60", "huge-row", "huge-cost", "negzero", "intfloat", "inf-rhs", "neginf-rhs", "nan-row", "tiny"])
    ref = None
    expect = "oracle"
    if kind == "cancel60":       # a row  2^60 x_j - 2^60 x_k + (small) <= small : exact LP, entries cancel
        i = rng.randrange(len(A)); j = rng.randrange(len(c)); k = rng.randrange(len(c))
        if j != k:
            A[i][j] += 2.0 ** 60; A[i][k] -= 2.0 ** 60
    elif kind == "huge-row":
        i = rng.randrange(len(A)); f = rng.choice([1e300, 2.0 ** 1000, 1e150])
        if all(abs(a) <= 9 for a in A[i]) and abs(b[i]) <= 100:
            A[i] = [a * f for a in A[i]]; b[i] = b[i] * f
    elif kind == "huge-cost":
        f = rng.choice([1e300, 1e307, 2.0 ** 1000]); c = [v * f for v in c]
    elif kind == "negzero":
        c = [-0.0 if v == 0 else float(v) for v in c]; A = [[-0.0 if a == 0 else float(a) for a in r] for r in A]; b = [-0.0 if v == 0 else float(v) for v in b]
    elif kind == "intfloat":
        c = [float(v) if rng.random() < 0.5 else v for v in c]; A = [[float(a) if rng.random() < 0.5 else a for a in r] for r in A]
        b = [float(v) if rng.random() < 0.5 else v for v in b]
    elif kind == "tiny":
        f = rng.choice([1e-300, 2.0 ** -1000, 1e-150]); i = rng.randrange(len(A))
        A[i] = [a * f for a in A[i]]; b[i] = b[i] * f
    elif kind == "inf-rhs":       # vacuous rows
        idx = [i for i in range(len(b)) if rng.random() < 0.4] or [0]
        ref = {"c": c, "A": [r for i, r in enumerate(A) if i not in idx] or [[0] * len(c)], "b": [v for i, v in enumerate(b) if i not in idx] or [0]}
        b = [INF if i in idx else v for i, v in enumerate(b)]
    elif kind == "neginf-rhs":
        b[rng.randrange(len(b))] = -INF; expect = "empty"
    else:
        i = rng.randrange(len(A))
        if rng.random() < 0.5:
            A[i][rng.randrange(len(c))] = NAN
        else:
            b[i] = NAN
        expect = "empty"
    case = {"c": c, "A": A, "b": b, "minimize": base["minimize"], "max_iter": None, "family": "extreme-" + kind}
    return case, expect, ref


def _finite_ok(v):
    return isinstance(v, (int, float)) and math.isfinite(v)


def _work_extreme(item):
    import warnings

    M = _M()
    case, expect, ref = item
    with warnings.catch_warnings():
        warnings.simplefilter("ignore")
        out = M.run_simplex(case)
    if "fail" in out:
        if out["fail"][0] == "hang":
            return out, None, "solve_lp hangs"
        return out, None, None                      # raising is allowed for extreme data
    st = out["status"]
    if expect == "empty":
        if st in ("OPTIMAL", "UNBOUNDED"):
            return out, ("INFEASIBLE",), (f"status {st} although no point can satisfy the constraints (a right-hand side is -inf / a row contains NaN); "
                                           "the call must raise or answer INFEASIBLE")
        return out, ("INFEASIBLE",), None
    data = ref or case
    orc = M.oracle_lp([Fraction(v) for v in data["c"]], [[Fraction(a) for a in r] for r in data["A"]], [Fraction(v) for v in data["b"]], case["minimize"])
    if st == "MAX_ITER":
        return out, orc, ("MAX_ITER before the default limit" if out["iterations"] < 100000 else None)
    if st != orc[0]:
        return out, orc, f"status {st} but the exact verdict is {orc[0]}"
    if st == "OPTIMAL":
        x = out["solution"]
        if any(not _finite_ok(v) or v < -1e-7 for v in x):
            return out, orc, f"OPTIMAL point not finite / not >= 0: {x}"
        for i, row in enumerate(data["A"]):
            lhs = sum(Fraction(a) * Fraction(v) for a, v in zip(row, x))
            scale = 1 + abs(Fraction(data["b"][i])) + sum(abs(Fraction(a) * Fraction(v)) for a, v in zip(row, x))
            if lhs > Fraction(data["b"][i]) + Fraction(1, 10 ** 7) * scale:
                return out, orc, f"row {i} violated by the OPTIMAL point {x}"
        cx = sum(Fraction(a) * Fraction(v) for a, v in zip(case["c"], x))
        opt = orc[1]
        if abs(cx - opt) > Fraction(1, 10 ** 6) * (1 + abs(opt)):
            return out, orc, f"c.x = {float(cx)} at the returned point but the true optimum is {float(opt)}"
        obj = out["objective"]
        if math.isfinite(obj):
            if abs(Fraction(obj) - cx) > Fraction(1, 10 ** 7) * (1 + abs(cx)):
                return out, orc, f"reported objective {obj} != c.x = {float(cx)}"
        elif abs(cx) < Fraction(10) ** 307:      # the float value of c.x may overflow to +-inf only if c.x is out of range
            return out, orc, f"reported objective {obj} but c.x = {float(cx)} is finite"
    return out, orc, None


OBSERVATION_ONLY_KINDS = ("cancel60", "huge-row", "huge-cost", "tiny", "inf-rhs", "neginf-rhs", "nan-row")


# =============================================================================== driver
def run_hard3(ctx):
    import time

    M = _M(); H = _H()
    thorough = ctx.tier == "thorough"
    t0 = time.time()
    ctx.notes += [
        "round-3 families: W pivot-maximising LPs (generalised Klee-Minty base 4/5, eps-cube; histogram work_max gives the largest pivot count "
        "reached in _phase2 / in phase 1 / interior-point iterations), A2 in-place edits between calls, X float extremes",
        "a MAX_ITER answer is accepted only when iterations == max_iter (the property: 'short of its iteration limit'); for the work-volume "
        "family the reference pivot count of the same LP (run with the default limit) additionally tells whether an explicit limit suffices",
        "OBSERVATION ONLY (coordinator policy, outside C03's quantifier over finite well-scaled data): NaN / +-inf data values, magnitudes >= 1e150 "
        "whose products overflow (and 1e-150 underflow), +-2^60 entries that cancel (the simplex works in floats by design), and the "
        "ill-conditioned duals of the eps-cubes (tableau entries grow by many orders of magnitude); these cases are generated, run under the guard and "
        "counted in histogram 'observation_only' (ok / deviates), never reported; judged X cases: -0.0 and integral floats vs ints",
    ]
    # ------------------------------------------------------------------ W
    w = [km_general(N, 4) for N in (7, 10, 13, 15, 16, 17)] + [km_general(19, 4)]
    w += [km_general(N, 5) for N in (9, 14, 16)] + [km_general(17, 5, minimize_form=True)]
    w += [km_general(15, 4, pad=3), km_general(15, 4, extra=2), km_general(16, 5, rowmul=[1, 3, 7, 2]), km_general(14, 4, pad=2, extra=1, minimize_form=True)]
    w += [eps_cube(N, e, o) for N, e, o in ((8, 0.25, "lohi"), (12, 0.375, "hilo"), (14, 0.25, "lohi"), (15, 0.375, "lohi"), (16, 0.25, "hilo"))]
    w += [with_phase1(km_general(14, 4)), with_phase1(km_general(16, 5), t=3), with_phase1(eps_cube(13, 0.25), t=1)]
    w += [eps_cube_dual(8, 0.25), eps_cube_dual(10, 0.375, "hilo"), eps_cube_dual(12, 0.375, "hilo"), eps_cube_dual(12, 0.25), eps_cube_dual(15, 0.375, "lohi")]
    if thorough:
        w += [km_general(20, 4), km_general(21, 4), km_general(20, 5, pad=2), eps_cube(18, 0.25), eps_cube(19, 0.375), eps_cube(20, 0.25)]
    # explicit limits around the needed count (reference count measured on the unlimited run of the same LP)
    lim = []
    for base_case in (km_general(15, 4), eps_cube(14, 0.25)) + ((km_general(16, 5),) if thorough else ()):
        res, p1, p2 = _count_work(base_case)
        need = p1 + p2
        if res[0] == "ok" and res[1].status.name == "OPTIMAL":
            for mi in sorted({need - 1, need, need + 1, 2048, 4096, 10000, 100001} | ({2 * need, 1024, 99999} if thorough else set())):
                if mi >= 0:
                    lim.append({**copy.deepcopy(base_case), "max_iter": mi, "needs": need, "family": base_case["family"] + "+limit"})
    w += lim
    w.sort(key=lambda k: -len(k["c"]))      # longest runs first
    wres = pmap(_work_w, w, chunksize=1)
    wmax = {"phase2": 0, "phase1": 0}
    for case, (out, bad, p1, p2) in zip(w, wres):
        ctx.evaluations += 1
        ctx.count("hard_family", case["family"])
        wmax["phase2"] = max(wmax["phase2"], p2); wmax["phase1"] = max(wmax["phase1"], p1)
        for thr in (128, 1024, 2048, 4096, 10000, 100000):
            if p1 + p2 >= thr:
                ctx.count("work_crossed_pivots", thr)
        if case["family"].startswith("eps-cube-dual"):     # POLICY_X (e): ill-conditioned, observation only
            ctx.count("observation_only", "illconditioned-eps-cube-dual:" + ("deviates" if bad else "ok"))
            continue
        if bad:
            ctx.violation(f"solve_lp [{case['family']}, {len(case['b'])} rows x {len(case['c'])} variables, {p1 + p2} pivots]: {bad}",
                          {"kind": "simplex", **{k: case[k] for k in ("c", "A", "b", "minimize", "max_iter")}, "expect": case["expect"],
                           "expect_obj": str(case.get("expect_obj")), "impl": {k: out.get(k) for k in ("status", "objective", "iterations")}})
        elif p1 + p2:
            ctx.nontriv("W" + case["family"] + str(len(case["c"])) + str(case["max_iter"]))
    ctx.count("work_max", "phase2_pivots=" + str(wmax["phase2"])); ctx.count("work_max", "phase1_pivots=" + str(wmax["phase1"]))
    # small members through the Coq model and the proved certificate checker
    small = [km_general(N, 4) for N in (4, 6, 8)] + [km_general(7, 5, pad=1), eps_cube(5, 0.25), eps_cube(7, 0.375, "hilo"), with_phase1(km_general(6, 4))]
    terms, meta = [], []
    for case in small:
        out = M.run_simplex(case)
        bad = H.judge_construct(case, out)
        ctx.evaluations += 1
        ctx.count("hard_family", case["family"] + "-small")
        if bad:
            ctx.violation(f"solve_lp [{case['family']}]: {bad}", {"kind": "simplex", **{k: case[k] for k in ("c", "A", "b", "minimize", "max_iter")},
                                                                   "expect": case["expect"], "impl": {k: out.get(k) for k in ("status", "objective", "iterations")}})
        elif "fail" not in out:
            ctx.traces_validated += 1
            terms.append(M.coq_case(case, out)); meta.append((case, out))
    failing = ctx.coq_check("h3km", M.IMPORTS, "lp_case", "(fun k => corr_check eps_default tol7 k && cert_case_check k)", terms, shard=1)
    # interior point: many iterations
    ipm = []
    for mi in [129, 1025, 4097] + ([10001] if thorough else []):
        for case in ({"c": [1, 1], "A": [[1, 2], [3, 1]], "b": [4, 6], "minimize": False}, {"c": [2, 3, 1], "A": [[-1, -1, -1], [1, 0, 2]], "b": [-2, 8], "minimize": True},
                     {"c": [-1, -1], "A": [[-1, 1]], "b": [1], "minimize": True}, {"c": [1], "A": [[1], [-1]], "b": [1, -2], "minimize": True}):
            ipm.append(({**case, "max_iter": mi}, f"work-{mi}"))
    imax = 0
    for (case, kind), (out, orc, bad) in zip(ipm, pmap(M._work_ipm, ipm, chunksize=1)):
        ctx.evaluations += 1
        ctx.count("hard_family", "ipm-work")
        imax = max(imax, out.get("iterations", 0))
        if not bad and out.get("status") in ("FEASIBLE", "MAX_ITER") and out.get("iterations") != case["max_iter"]:
            bad = f"status {out['status']} after {out['iterations']} iterations although max_iter = {case['max_iter']} (the limit was not reached and the answer is not OPTIMAL)"
        if bad:
            ctx.violation(f"solve_lp_interior [{kind}]: {bad}", {"kind": "ipm", **case, "impl": {k: v for k, v in out.items() if k != "xyz"}})
    ctx.count("work_max", "ipm_iterations=" + str(imax))
    # ------------------------------------------------------------------ A2
    a2 = [M.gen_lp(ctx.rng) for _ in range(ctx.budget(30, 300))]
    for case, probs in zip(a2, pmap(check_inplace, a2)):
        ctx.evaluations += 1
        ctx.count("hard_family", "inplace")
        for p in probs[:1]:
            ctx.violation("in-place edit between calls: " + p, {"kind": "inplace", **{k: case[k] for k in ("c", "A", "b", "minimize")}})
    # ------------------------------------------------------------------ X
    xs = [gen_extreme(ctx.rng) for _ in range(ctx.budget(120, 1500))]
    xs += [({"c": [1], "A": [[1]], "b": [-INF], "minimize": True, "max_iter": None, "family": "extreme-neginf-rhs"}, "empty", None),
           ({"c": [-1], "A": [[NAN], [1]], "b": [1, 3], "minimize": True, "max_iter": None, "family": "extreme-nan-row"}, "empty", None),
           ({"c": [-1], "A": [[1], [1]], "b": [INF, 3], "minimize": True, "max_iter": None, "family": "extreme-inf-rhs"}, "oracle", {"c": [-1], "A": [[1]], "b": [3]})]
    for (case, expect, ref), (out, orc, bad) in zip(xs, pmap(_work_extreme, xs)):
        ctx.evaluations += 1
        ctx.count("hard_family", case["family"])
        kind = case["family"][8:]
        outcome = out.get("status") or ("hang" if out.get("fail", ["?"])[0] == "hang" else "raise " + str(out.get("fail", ["?", "?"])[1]))
        ctx.count("extreme_outcome", kind + ":" + outcome)
        if kind in OBSERVATION_ONLY_KINDS:
            # POLICY_X (a)(b)(c): NaN / +-inf data, magnitudes whose products overflow, +-2^60 cancellation in a float API - outside the property
            ctx.count("observation_only", kind + ":" + ("deviates" if bad else "ok"))
            continue
        if bad:
            ctx.violation(f"solve_lp [{case['family']}]: {bad}", {"kind": "extreme", **{k: case[k] for k in ("c", "A", "b", "minimize", "max_iter")},
                                                                  "impl": {k: str(out.get(k)) for k in ("status", "solution", "objective")}})
    ctx.extra.setdefault("hard_timing_s", {})["round3"] = round(time.time() - t0, 1)
    if failing and not ctx.violations:
        case, out = meta[failing[0]]
        ctx.violation(f"correspondence / certificate lemma (round-3 family {case['family']}): model and implementation differ or the proved checker rejects the answer",
                      {"kind": "simplex", **{k: case[k] for k in ("c", "A", "b", "minimize", "max_iter")}, "impl": out, "lemma": "Cases/C03/h3km_*.v corr"}, no_input=True)
