"""C15 round-2 hardening: input-shape classes of /verif/HARDENING.md for articulation_points, bridges,
kcore_decomposition, kcore, pagerank, louvain.

L  labels       - every case of the main stream is presented to the implementation under a label map (fresh, equal-but-not-
                  identical objects built at call time; huge ints; negatives/0/0.0/""/() falsy; tuples; strings; a mixed-type
                  pool with None/False/frozenset) - the models and oracles keep working on the nat ids (maps for functions that
                  order labels, bridges and louvain, are strictly monotone so canonical (min,max) orientation is preserved).
I  iterables    - `nodes` as list/tuple/generator/iterator/dict view/map object, neighbour callbacks returning
                  list/tuple/generator/iterator/the caller's own list object.
S  sizes        - structured instances with answers known by construction (paths, cycles, stars, cliques, barbells, binary
                  trees, parallel-edge bundles) crossing 17/65/257/801/1025/2049/65537.
M  magnitudes   - option values far from the comfort zone (damping 1e-12 / 1-1e-12, tol 0 / 1e-300 / 1e9, resolution 1e-12 /
                  2^53 / int, k = -10^18 / 2^60), huge labels (2^31, 2^53+1, 2^60, 10^18).
O  options      - max_iter sweep 0..40 with a prefix-consistency oracle, defaults (omitted keyword arguments) against the
                  documented values, k sweep, resolution sweep.
A  aliasing     - caller's node list / neighbour lists unchanged, same call twice, different options in both orders,
                  mutation of a returned solution must not leak into the next call.
H  histories    - rare internal events (reference ports report them) are counted; missing ones are searched for with a
                  directed budget and fed through the full pipeline (incl. Coq correspondence).
"""
import copy
import math
from fractions import Fraction

ORDERABLE = ["ident", "bigint", "p31", "huge53", "huge60", "e18", "neg", "float", "tuple", "str", "intfloat", "floatx"]
_FLOATX = [float("-inf"), -1e308, -2.0**60, -1e9, -1.0, -5e-324, 0.0, 5e-324, 1e-300, 1.0, 2.0**53, 2.0**60, 1e300, 1e308, float("inf")]
UNORDERABLE = ["mixed", "none"]
NODE_MODES = ["list", "tuple", "gen", "iter", "keys", "map"]
NB_MODES = ["list", "tuple", "gen", "iter", "shared"]
_MIXED = [None, False, "", (), 0.5, "x", (1, 2), frozenset({1}), 300, -1, "ab", (0,), 1e300, 2**60, b"q", (None,), "None", 7.25]

def label_of(mode, i, none_id=None):
    if mode == "ident":
        return i
    if mode == "bigint":
        return 1000 + 7 * i
    if mode == "p31":
        return 2**31 - 2 + i
    if mode == "huge53":
        return 2**53 - 1 + i
    if mode == "huge60":
        return 2**60 + i
    if mode == "e18":
        return 10**18 + i
    if mode == "neg":
        return i - 3
    if mode == "float":
        return i * 0.5 - 1.0
    if mode == "tuple":
        return () if i == 0 else (i // 3, i % 3)
    if mode == "str":
        return "" if i == 0 else f"n{i:04d}"
    if mode == "intfloat":
        return i - 2  # node list holds ints; the neighbour callback answers with the equal floats (33 vs 33.0, 0 vs -0.0)
    if mode == "floatx":
        return _FLOATX[i]
    if mode == "mixed":
        return _MIXED[i] if i < len(_MIXED) else (i, "z")
    if mode == "none":
        return None if i == none_id else 400 + i
    raise ValueError(mode)


def fresh(x):
    """an object equal to x; a different object wherever CPython allows one to be built"""
    if x is None or isinstance(x, bool):
        return x
    if isinstance(x, int):
        return int(str(x))
    if isinstance(x, float):
        return float(repr(x))
    if isinstance(x, str):
        return "".join(list(x))
    if isinstance(x, bytes):
        return bytes(list(x))
    if isinstance(x, tuple):
        return tuple(fresh(y) for y in x)
    if isinstance(x, frozenset):
        return frozenset(set(x))
    return x


class Bound:
    """One case presented to the implementation: label map + container shapes.  `nodes()` builds a new node iterable for
    every call; `nbfn` is the neighbour callback; `back` maps labels to ids; `unchanged()` says whether the caller-owned
    containers still have their original content."""

    def __init__(self, nodes, nb, pres):
        self.labmode, self.nmode, self.bmode = pres
        if self.labmode == "floatx" and any(i >= len(_FLOATX) for i in set(nodes) | {w for v in nodes for w in nb[v]}):
            self.labmode = "float"
        none_id = min(nodes) if nodes else None
        self.lab = {i: label_of(self.labmode, i, none_id) for i in set(nodes) | {w for v in nodes for w in nb[v]}}
        self.back = {l: i for i, l in self.lab.items()}
        assert len(self.back) == len(self.lab)
        self.node_list = [self.lab[v] for v in nodes]
        if self.labmode == "intfloat":
            self.owned = {self.lab[v]: [-0.0 if self.lab[w] == 0 else float(self.lab[w]) for w in nb[v]] for v in nodes}
        else:
            self.owned = {self.lab[v]: [fresh(self.lab[w]) for w in nb[v]] for v in nodes}
        self._nodes0 = copy.deepcopy(self.node_list)
        self._owned0 = copy.deepcopy(self.owned)
        self.orderable = self.labmode in ORDERABLE

    def nodes(self):
        m, nl = self.nmode, self.node_list
        if m == "list":
            return nl  # the caller's own list object
        if m == "tuple":
            return tuple(nl)
        if m == "gen":
            return (v for v in nl)
        if m == "iter":
            return iter(list(nl))
        if m == "keys":
            return dict.fromkeys(nl).keys()
        return map(lambda v: v, nl)

    def nbfn(self, v):
        own = self.owned[v]
        m = self.bmode
        if m == "shared":
            return own  # the caller's own list object
        new = [fresh(w) for w in own]
        if m == "list":
            return new
        if m == "tuple":
            return tuple(new)
        if m == "gen":
            return (w for w in new)
        return iter(new)

    def unchanged(self):
        return self.node_list == self._nodes0 and self.owned == self._owned0 and \
            [type(x) for x in self.node_list] == [type(x) for x in self._nodes0]

    def ids(self, labels):
        return [self.back[l] for l in labels]


def gen_pres(rng):
    r = rng.random()
    if r < 0.25:
        lab = "ident"
    elif r < 0.85:
        lab = rng.choice(ORDERABLE[1:])
    else:
        lab = rng.choice(UNORDERABLE)
    return (lab, rng.choice(NODE_MODES), rng.choice(NB_MODES))


IDENT = ("ident", "list", "list")


# ---------------------------------------------------------------- M / O : option corners for the main stream
def gen_params_corner(rng):
    """(damping p/q, tol, max_iter, resolution) from the corners of the option space"""
    dpq = rng.choice([(17, 20), (17, 20), (1, 10**12), (10**12 - 1, 10**12), (1, 10**9), (999999999, 10**9), (1, 2), (84, 100), (86, 100)])
    tol = rng.choice([0.0, 1e-300, 1e-15, 1e-12, 1e-9, 1e-6, 1e-6, 0.999999e-6, 1.000001e-6, 1.0, 1e9, 0.3 - 0.1 - 0.2 + 1e-6])
    mi = rng.choice([0, 1, 2, 3, 4, 7, 16, 17, 24, 99, 100, 101, 10**9])
    if (tol < 1e-9 or dpq[0] / dpq[1] > 0.99) and mi > 24:
        mi = rng.choice([1, 2, 5, 12])  # would not converge (or only after ~1e12 iterations): keep the run (and the Q model) short
    res = rng.choice([1.0, 1, 2, 1e-12, 1e-9, 1e9, 2.0**53, 2**60, 0.999999999, 1.000000001, 0.3 - 0.1 - 0.2 + 1.0, 1e-300])
    return dpq, tol, mi, res


# ---------------------------------------------------------------- S : structured instances, answers by construction
def _path(n):
    return list(range(n)), (lambda v: [w for w in (v - 1, v + 1) if 0 <= w < n])


def _cycle(n):
    return list(range(n)), (lambda v: [(v + 1) % n])  # one way: the functions symmetrise; pagerank sees a directed cycle


def _star(n):  # centre 0, leaves 1..n
    return list(range(n + 1)), (lambda v: list(range(1, n + 1)) if v == 0 else [])


def _clique(m):
    return list(range(m)), (lambda v: [w for w in range(m) if w > v])


def structured(tier):
    """(name, nodes, nbfn, expect) with expect = dict(cut=set|None, bridges=set|None, core=fn v->int, depth=int,
    pr_uniform=bool, lv=bool, pr_iter=int)"""
    out = []
    big = tier == "thorough"
    for n in [17, 65, 257, 801, 1025, 2049, 4097, 65537] + ([100000, 300000] if big else []):
        nodes, f = _path(n)
        out.append((f"path{n}", nodes, f, dict(cut=set(range(1, n - 1)), bridges={(i, i + 1) for i in range(n - 1)}, core=lambda v: 1,
                                                depth=n, lv=n <= 4097, pr_iter=100 if n <= 2049 else 3)))
        nodes, f = _cycle(n)
        out.append((f"cycle{n}", nodes, f, dict(cut=set(), bridges=set(), core=lambda v: 2, depth=n, pr_uniform=True, lv=n <= 4097, pr_iter=100)))
    for n in [17, 257, 2049] + ([65537, 100000] if big else [65537]):
        nodes, f = _star(n)
        out.append((f"star{n}", nodes, f, dict(cut={0}, bridges={(0, i) for i in range(1, n + 1)}, core=lambda v: 1, depth=2,
                                                lv=n <= 2049, pr_iter=100 if n <= 2049 else 2)))
    for m in [17, 65] + ([129] if big else []):
        nodes, f = _clique(m)
        out.append((f"clique{m}", nodes, f, dict(cut=set(), bridges=set(), core=lambda v, m=m: m - 1, depth=m, pr_uniform=False, lv=True, pr_iter=100)))
    # barbell: K17 on 0..16, K17 on 20..36, path 16-17-18-19-20
    def barbell(v):
        if v <= 16:
            return [w for w in range(17) if w > v] + ([17] if v == 16 else [])
        if v < 20:
            return [v + 1]
        return [w for w in range(20, 37) if w > v]
    out.append(("barbell17", list(range(37)), barbell, dict(cut={16, 17, 18, 19, 20}, bridges={(16, 17), (17, 18), (18, 19), (19, 20)},
                                                            core=lambda v: 16 if v <= 16 or v >= 20 else 2, depth=37, lv=True, pr_iter=100)))
    # complete binary tree with 2^11 - 1 nodes (heap numbering from 1), children computed arithmetically
    N = 2**11 - 1
    out.append(("bintree2047", list(range(1, N + 1)), (lambda v: [c for c in (2 * v, 2 * v + 1) if c <= N]),
                dict(cut=set(range(1, 2**10)), bridges={(c // 2, c) for c in range(2, N + 1)}, core=lambda v: 1, depth=11, lv=True, pr_iter=100)))
    # parallel-edge bundle: 0 lists 1 two thousand and forty-nine times, 1-2-3 triangle
    out.append(("bundle2049", [0, 1, 2, 3], (lambda v: {0: [1] * 2049, 1: [2] * 300 + [3], 2: [3, 3, 1], 3: [3] * 70}[v]),
                dict(cut={1}, bridges={(0, 1)}, core=lambda v: 1 if v == 0 else 2, depth=4, lv=True, pr_iter=100)))
    # ring of 300 triangles (2i, 2i+1, 2i+2) joined at the even vertices: 2-edge-connected and 2-connected
    T = 300
    def ring(v):
        if v % 2 == 0:
            return [v + 1, (v + 2) % (2 * T)]
        return [(v + 1) % (2 * T)]
    out.append(("trianglering300", list(range(2 * T)), ring, dict(cut=set(), bridges=set(), core=lambda v: 2, depth=2 * T, lv=True, pr_iter=100)))
    return out


def fast_pr_check(nodes, nbfn, d, tol, r, uniform):
    """float/Fraction-free O(m) check of the damped equation (sizes where the exact oracle is too slow)"""
    sc = r.solution
    n = len(nodes)
    if len(sc) != n or set(sc) != set(nodes):
        return "pagerank keys are not the node set"
    if min(sc.values()) < 0 or not math.isfinite(sum(sc.values())):
        return "pagerank has a negative / non-finite score"
    if abs(math.fsum(sc.values()) - 1.0) > 1e-9:
        return f"pagerank scores sum to {math.fsum(sc.values())!r}"
    ns = set(nodes)
    new = dict.fromkeys(nodes, 0.0)
    dang = 0.0
    for u in nodes:
        out = [w for w in nbfn(u) if w in ns]
        if not out:
            dang += sc[u]
        else:
            share = sc[u] / len(out)
            for w in out:
                new[w] += share
    resid = math.fsum(abs((1 - d) / n + d * new[v] + d * dang / n - sc[v]) for v in nodes)
    if r.status.name == "OPTIMAL" and resid > d * n * tol + 1e-9:
        return f"pagerank OPTIMAL but L1 residual {resid:.3e} > damping*n*tol {d * n * tol:.3e}"
    if uniform and max(abs(x - 1.0 / n) for x in sc.values()) > 1e-9:
        return "pagerank of a regular (vertex-transitive) graph is not uniform"
    return None


def fast_modularity(nodes, nbfn, res, comms):
    ns = set(nodes)
    E = set()
    for u in nodes:
        for w in nbfn(u):
            if w in ns and w != u:
                E.add((u, w) if u < w else (w, u))
    m = len(E)
    where = {}
    for i, c in enumerate(comms):
        for v in c:
            where[v] = i
    inside = [0] * len(comms)
    deg = [0] * len(comms)
    for u, w in E:
        deg[where[u]] += 1
        deg[where[w]] += 1
        if where[u] == where[w]:
            inside[where[u]] += 1
    if m == 0:
        return Fraction(0)
    return sum(Fraction(inside[i], m) - Fraction(res) * Fraction(deg[i], 2 * m) ** 2 for i in range(len(comms)))


def run_structured(ctx, bad):
    import time

    from harness.core import guarded
    from solvor.articulation import articulation_points, bridges
    from solvor.community import louvain
    from solvor.kcore import kcore, kcore_decomposition
    from solvor.pagerank import pagerank

    for name, nodes, f, ex in structured(ctx.tier):
        n = len(nodes)
        rep = {"kind": "structured", "instance": name}
        ctx.count("S_instances", name.rstrip("0123456789"))
        t0 = time.time()

        def call(fn, *a, **kw):
            ctx.evaluations += 1
            return guarded(fn, *a, timeout=20, **kw)

        for fname, fn, want in (("articulation_points", articulation_points, ex["cut"]), ("bridges", bridges, ex["bridges"])):
            r = call(fn, list(nodes), f)
            if r[0] != "ok":
                bad.append((f"{fname} on {name}: implementation {r[0]} {r[1:]}", {**rep, "fn": fname}))
                continue
            got = set(r[1].solution)
            if got != want or len(r[1].solution) != len(want) or r[1].objective != len(want) or r[1].evaluations != n:
                miss, extra = sorted(want - got)[:5], sorted(got - want)[:5]
                bad.append((f"{fname} on {name}: {len(got)} reported, {len(want)} by construction (missing {miss}, extra {extra}, objective {r[1].objective})",
                                     {**rep, "fn": fname}))
        r = call(kcore_decomposition, (v for v in nodes), f)
        if r[0] != "ok" or r[1].solution != {v: ex["core"](v) for v in nodes} or r[1].iterations != n:
            bad.append((f"kcore_decomposition on {name}: {'wrong core numbers / iterations' if r[0] == 'ok' else r}", {**rep, "fn": "kcore_decomposition"}))
        else:
            mx = r[1].objective
            for k in (0, mx, mx + 1):
                rk = call(kcore, iter(nodes), f, k)
                want = {v for v in nodes if ex["core"](v) >= k}
                if rk[0] != "ok" or rk[1].solution != want:
                    bad.append((f"kcore(k={k}) on {name}: {len(rk[1].solution) if rk[0] == 'ok' else rk} nodes, {len(want)} by construction", {**rep, "fn": "kcore", "k": k}))
        r = call(pagerank, tuple(nodes), f, max_iter=ex["pr_iter"])
        if r[0] != "ok":
            bad.append((f"pagerank on {name}: {r}", {**rep, "fn": "pagerank"}))
        else:
            v = fast_pr_check(nodes, f, 0.85, 1e-6, r[1], ex.get("pr_uniform", False))
            if v:
                bad.append((f"{v} ({name})", {**rep, "fn": "pagerank"}))
        if ex["lv"]:
            r = call(louvain, list(nodes), f)
            if r[0] != "ok":
                bad.append((f"louvain on {name}: {r}", {**rep, "fn": "louvain"}))
            else:
                comms = r[1].solution
                flat = [v for c in comms for v in c]
                if len(flat) != n or set(flat) != set(nodes) or any(not c for c in comms):
                    bad.append((f"louvain on {name}: result is not a partition of the node set", {**rep, "fn": "louvain"}))
                elif abs(Fraction(r[1].objective) - fast_modularity(nodes, f, 1.0, comms)) > Fraction(1, 10**9):
                    bad.append((f"louvain on {name}: reported modularity {r[1].objective!r} is not the modularity of the returned partition", {**rep, "fn": "louvain"}))
        ctx.extra.setdefault("S_seconds", {})[name] = round(time.time() - t0, 2)


def replay_structured(obj):
    class _C:
        tier = obj.get("tier", "quick")
        evaluations = 0

        def count(self, *a):
            pass

        def open_findings(self):
            return []

        def known_hit(self, *a):
            pass
    c = _C()
    found = []
    run_structured(c, found)
    hits = [w for w, r in found if r.get("instance") == obj.get("instance") and r.get("fn") == obj.get("fn")]
    for w in hits:
        print("reference verdict:", w)
    return 1 if hits else 0


# ---------------------------------------------------------------- H : rare internal events (reference ports)
EVENTS = ["kc_requeue_current", "kc_empty_level", "kc_core>=3", "kc_peel_cascade",
          "ap_root_cut", "ap_root_multi_nbr_one_child", "ap_low_eq_disc", "ap_child_escapes", "ap_cut_by_later_child", "ap_two_roots_cut",
          "pr_optimal_at_max_iter", "pr_max_iter_0", "pr_dangling_selfloop_dup", "pr_near_tol", "pr_converged_first",
          "lv_sweeps>=4", "lv_move_back", "lv_three_moves_one_node"]


def _sym_adj(nodes, nb):
    ns = set(nodes)
    own = {v: list(dict.fromkeys(w for w in nb[v] if w in ns and w != v)) for v in nodes}
    adj = {v: dict.fromkeys(own[v]) for v in nodes}
    for v in nodes:
        for w in list(adj[v]):
            adj[w].setdefault(v)
    return adj


def kcore_events(nodes, nb):
    ev = set()
    adj = _sym_adj(nodes, nb)
    if not nodes:
        return ev
    deg = {v: len(adj[v]) for v in nodes}
    mx = max(deg.values())
    buckets = [set() for _ in range(mx + 1)]
    for v in nodes:
        buckets[deg[v]].add(v)
    core = {}
    for k in range(mx + 1):
        if not buckets[k] and core and any(buckets[j] for j in range(k + 1, mx + 1)):
            ev.add("kc_empty_level")
        pops = 0
        while buckets[k]:
            v = min(buckets[k])
            buckets[k].discard(v)
            core[v] = k
            pops += 1
            for w in adj[v]:
                if w not in core and deg[w] > k:
                    buckets[deg[w]].discard(w)
                    deg[w] -= 1
                    buckets[max(k, deg[w])].add(w)
                    if deg[w] == k:
                        ev.add("kc_requeue_current")
        init = sum(1 for v in nodes if len(adj[v]) == k)
        if pops >= init + 2:
            ev.add("kc_peel_cascade")
    if core and max(core.values()) >= 3:
        ev.add("kc_core>=3")
    return ev


def artic_events(nodes, nb):
    ev = set()
    if len(nodes) <= 1:
        return ev
    adj = _sym_adj(nodes, nb)
    disc, low, parent, t = {}, {}, {}, [0]
    roots_cut = [0]

    def dfs(v, is_root):
        disc[v] = low[v] = t[0]
        t[0] += 1
        children = 0
        cut_seen = False
        for w in adj[v]:
            if w not in disc:
                children += 1
                parent[w] = v
                dfs(w, False)
                low[v] = min(low[v], low[w])
                if not is_root:
                    if low[w] == disc[v]:
                        ev.add("ap_low_eq_disc")
                    if low[w] < disc[v]:
                        ev.add("ap_child_escapes")
                    if low[w] >= disc[v]:
                        if children >= 2 and not cut_seen:
                            ev.add("ap_cut_by_later_child")
                        cut_seen = True
            elif parent.get(v, v) != w or is_root:
                low[v] = min(low[v], disc[w])
        if is_root:
            if children >= 2:
                ev.add("ap_root_cut")
                roots_cut[0] += 1
            elif len(adj[v]) >= 2:
                ev.add("ap_root_multi_nbr_one_child")

    for v in nodes:
        if v not in disc:
            dfs(v, True)
    if roots_cut[0] >= 2:
        ev.add("ap_two_roots_cut")
    return ev


def events_of(nodes, nb, dpq, tol, max_iter, op, ol):
    ev = kcore_events(nodes, nb) | artic_events(nodes, nb)
    if op is not None and nodes:
        if op["status"] == "OPTIMAL" and op["iterations"] == max_iter >= 3:
            ev.add("pr_optimal_at_max_iter")
        if max_iter == 0:
            ev.add("pr_max_iter_0")
        if op["status"] == "OPTIMAL" and op["iterations"] == 1 and any(nb[v] for v in nodes):
            ev.add("pr_converged_first")
        ns = set(nodes)
        if any(not [w for w in nb[v] if w in ns] for v in nodes) and any(v in nb[v] for v in nodes) and \
                any(len([w for w in nb[v] if w in ns]) != len({w for w in nb[v] if w in ns}) for v in nodes):
            ev.add("pr_dangling_selfloop_dup")
        if math.isfinite(op["objective"]) and tol > 0 and abs(op["objective"] - tol) < 0.02 * tol:
            ev.add("pr_near_tol")
    if ol is not None and ol.get("moves"):
        if ol["iterations"] >= 4:
            ev.add("lv_sweeps>=4")
        left, cnt = {}, {}
        for _, v, cur, best in ol["moves"]:
            if not isinstance(cur, int) or not isinstance(best, int):
                break
            if cur != best:
                cnt[v] = cnt.get(v, 0) + 1
                if best in left.get(v, ()):
                    ev.add("lv_move_back")
                left.setdefault(v, set()).add(cur)
        if cnt and max(cnt.values()) >= 3:
            ev.add("lv_three_moves_one_node")
    return ev


def directed_search(ctx, acc, run_case, budget, target=2, per_event=2):
    """events seen fewer than `target` times in the main stream: generate candidates, keep those whose cheap reference ports
    (k-core peeling, low-link DFS; for pagerank/louvain the run itself) show the event, and push them through the whole pipeline"""
    from harness.props import C15 as M

    seen = acc["_events"]
    missing = [e for e in EVENTS if seen.get(e, 0) < target]
    ctx.count("H_missing_after_main_stream", len(missing))
    found = {e: 0 for e in missing}
    tries = 0
    while tries < budget and any(found[e] < per_event for e in missing):
        tries += 1
        want = [e for e in missing if found[e] < per_event]
        nodes, nb = M.gen_graph(ctx.rng, ctx.tier == "thorough")
        dpq, tol, mi = M.gen_pr_params(ctx.rng)
        res = M.gen_resolution(ctx.rng)
        if any(e.startswith("pr_") for e in want) and ctx.rng.random() < 0.5:
            dpq, tol, mi, _ = gen_params_corner(ctx.rng)
        ev = kcore_events(nodes, nb) | artic_events(nodes, nb)
        need_run = any(e.startswith(("pr_", "lv_")) for e in want)
        hit = [e for e in want if e in ev]
        if not hit and need_run and nodes:
            from harness.core import guarded
            rp = guarded(M.run_pr, nodes, nb, dpq, tol, mi, timeout=5) if any(e.startswith("pr_") for e in want) else ("skip",)
            rl = guarded(M.run_lv, nodes, nb, res, timeout=5) if any(e.startswith("lv_") for e in want) else ("skip",)
            ev = events_of(nodes, nb, dpq, tol, mi, rp[1] if rp[0] == "ok" else None, rl[1] if rl[0] == "ok" else None)
            hit = [e for e in want if e in ev]
        if hit:
            for e in hit:
                found[e] += 1
            run_case((nodes, nb, dpq, tol, mi, res, gen_pres(ctx.rng)))
    for e in EVENTS:
        ctx.count("H_events", e, seen.get(e, 0))
    ctx.count("H_directed_tries", tries)
    for e in missing:
        if seen.get(e, 0) == 0:
            ctx.count("H_never_seen", e)


# ---------------------------------------------------------------- O : option sweeps, defaults
def _small_connected(rng, M):
    for _ in range(200):
        nodes, nb = M.gen_graph(rng, False)
        if 3 <= len(nodes) <= 6 and len(M.sym_edges(nodes, nb)) >= 3:
            return nodes, nb
    return [0, 1, 2, 3], {0: [1], 1: [2], 2: [3, 0], 3: []}


def run_sweeps(ctx, acc, bad):
    from harness.core import guarded
    from harness.props import C15 as M

    n_inst = 3 if ctx.tier == "quick" else 12
    for inst in range(n_inst):
        nodes, nb = _small_connected(ctx.rng, M)
        pres = gen_pres(ctx.rng)
        dpq = ctx.rng.choice([(17, 20), (1, 2), (9, 10)])
        tol = ctx.rng.choice([1e-3, 1e-4, 1e-2])
        base = {"nodes": nodes, "nb": {str(k): v for k, v in nb.items()}, "damping": list(dpq), "tol": tol, "resolution": 1.0, "pres": list(pres), "kind": "pr"}
        ref = guarded(M.run_pr, nodes, nb, dpq, tol, 10**6, pres, timeout=10)
        ctx.evaluations += 1
        if ref[0] != "ok":
            bad.append((f"pagerank max_iter=10^6: {ref}", {**base, "max_iter": 10**6}))
            continue
        star = ref[1]["iterations"]
        d = Fraction(*dpq)
        exact = {v: Fraction(1, len(nodes)) for v in nodes}
        for m in range(0, 41):
            r = guarded(M.run_pr, nodes, nb, dpq, tol, m, pres, timeout=5)
            ctx.evaluations += 1
            ctx.count("O_max_iter_sweep", "runs")
            rep = {**base, "max_iter": m}
            if r[0] != "ok":
                bad.append((f"pagerank max_iter={m}: {r}", rep))
                break
            o = r[1]
            v = M.judge_pr(nodes, nb, dpq, tol, m, o)
            want_it, want_st = min(m, star), ("OPTIMAL" if m >= star and ref[1]["status"] == "OPTIMAL" else "MAX_ITER")
            if not v and (o["iterations"], o["status"]) != (want_it, want_st):
                v = (f"pagerank max_iter={m}: {o['iterations']} iterations / {o['status']}, but with max_iter=10^6 the same input stops after "
                     f"{star} iterations ({ref[1]['status']}): expected {want_it} / {want_st}")
            if not v and m >= star and o["solution"] != ref[1]["solution"]:
                v = f"pagerank max_iter={m} >= {star}: scores differ from the converged run"
            if not v and m <= star:
                if max(abs(Fraction(o["solution"][x]) - exact[x]) for x in nodes) > Fraction(1, 10**9):
                    v = f"pagerank max_iter={m}: scores are not the {m}-th exact iterate of the damped map"
            if v:
                bad.append((v, {**rep, "impl": {**o, "solution": {str(k): x for k, x in o["solution"].items()}}}))
                break
            if m < star:
                exact = M.pr_apply(nodes, nb, d, exact)
            if m in (0, 1, 2, 3, 5, 8, 13):
                M.pr_coq_case(ctx, acc, (nodes, nb, dpq, tol, m, 1.0, pres), o)
    # defaults: omitted keyword arguments == the documented values (damping 0.85, max_iter 100, tol 1e-6; resolution 1.0)
    for _ in range(8 if ctx.tier == "quick" else 60):
        nodes, nb = M.gen_graph(ctx.rng, False)
        pres = gen_pres(ctx.rng)
        base = {"nodes": nodes, "nb": {str(k): v for k, v in nb.items()}, "damping": [17, 20], "tol": 1e-6, "max_iter": 100, "resolution": 1.0, "pres": list(pres)}
        a = guarded(M.run_pr, nodes, nb, (17, 20), 1e-6, 100, pres, timeout=5)
        b = guarded(M.run_pr, nodes, nb, None, None, None, pres, True, timeout=5)
        ctx.evaluations += 2
        ctx.count("O_defaults", "pagerank")
        if a != b:
            bad.append((f"pagerank with omitted options differs from damping=0.85, max_iter=100, tol=1e-6: {str(b)[:150]} vs {str(a)[:150]}", {**base, "kind": "pr_defaults"}))
        if pres[0] in ORDERABLE:
            a = guarded(M.run_lv, nodes, nb, 1.0, pres, False, False, timeout=5)
            b = guarded(M.run_lv, nodes, nb, None, pres, True, False, timeout=5)
            ctx.evaluations += 2
            ctx.count("O_defaults", "louvain")
            if a != b:
                bad.append((f"louvain with omitted resolution differs from resolution=1.0: {str(b)[:150]} vs {str(a)[:150]}", {**base, "kind": "lv_defaults"}))
    # resolution sweep
    for _ in range(2 if ctx.tier == "quick" else 10):
        nodes, nb = _small_connected(ctx.rng, M)
        for i in range(1, 41):
            res = i / 10
            r = guarded(M.run_lv, nodes, nb, res, IDENT, False, False, timeout=5)
            ctx.evaluations += 1
            ctx.count("O_resolution_sweep", "runs")
            rep = {"nodes": nodes, "nb": {str(k): v for k, v in nb.items()}, "damping": [17, 20], "tol": 1e-6, "max_iter": 100, "resolution": res, "pres": list(IDENT), "kind": "lv"}
            v = f"louvain: {r}" if r[0] != "ok" else M.judge_lv(nodes, nb, res, r[1])
            if v:
                bad.append((v, rep))
                break


# ---------------------------------------------------------------- A : aliasing / call sequences
def _canon(o):
    return {k: v for k, v in o.items() if k not in ("moves",)}


def run_sequences(ctx, bad):
    from harness.core import guarded
    from harness.props import C15 as M
    from solvor.articulation import articulation_points, bridges
    from solvor.community import louvain
    from solvor.kcore import kcore, kcore_decomposition
    from solvor.pagerank import pagerank

    for _ in range(25 if ctx.tier == "quick" else 300):
        nodes, nb = M.gen_graph(ctx.rng, False)
        lab = ctx.rng.choice(ORDERABLE)
        B = Bound(nodes, nb, (lab, "list", "shared"))  # ONE shared node list and shared neighbour lists for all calls below
        rep = {"nodes": nodes, "nb": {str(k): v for k, v in nb.items()}, "damping": [17, 20], "tol": 1e-6, "max_iter": 100, "resolution": 1.0,
               "pres": [lab, "list", "shared"], "kind": "sequence"}
        m1, m2 = ctx.rng.sample([0, 1, 2, 3, 5, 8, 13, 100], 2)
        k1 = ctx.rng.randint(0, 3)
        fns = {
            "ap": lambda: sorted(B.ids(articulation_points(B.node_list, B.nbfn).solution)),
            "br": lambda: sorted(tuple(B.ids(e)) for e in bridges(B.node_list, B.nbfn).solution),
            "kc": lambda: sorted((B.back[k], c) for k, c in kcore_decomposition(B.node_list, B.nbfn).solution.items()),
            "kk": lambda: sorted(B.ids(kcore(B.node_list, B.nbfn, k1).solution)),
            "pr1": lambda: (lambda r: (sorted((B.back[k], x) for k, x in r.solution.items()), r.objective, r.iterations, r.status.name))(pagerank(B.node_list, B.nbfn, max_iter=m1)),
            "pr2": lambda: (lambda r: (sorted((B.back[k], x) for k, x in r.solution.items()), r.objective, r.iterations, r.status.name))(pagerank(B.node_list, B.nbfn, max_iter=m2)),
            "lv1": lambda: (lambda r: (sorted(sorted(B.ids(c)) for c in r.solution), r.objective, r.iterations))(louvain(B.node_list, B.nbfn)),
            "lv2": lambda: (lambda r: (sorted(sorted(B.ids(c)) for c in r.solution), r.objective, r.iterations))(louvain(B.node_list, B.nbfn, resolution=0.5)),
        }
        order = list(fns)

        def sweep(order):
            out = {}
            for name in order:
                r = guarded(fns[name], timeout=5)
                ctx.evaluations += 1
                out[name] = r
                if not B.unchanged():
                    bad.append((f"{name}: the caller's node list / neighbour lists were modified by the call", rep))
                    return None
            return out

        first = sweep(order)
        if first is None:
            continue
        ctx.rng.shuffle(order)
        second = sweep(order)
        ctx.count("A_sequences", "both_orders")
        if second is None:
            continue
        diff = [n for n in fns if first[n] != second[n]]
        if diff:
            bad.append((f"answers depend on earlier calls: {diff[0]} gave {str(first[diff[0]])[:120]} first and {str(second[diff[0]])[:120]} after the calls {order[:order.index(diff[0])]}", rep))
            continue
        # judge the first answers (ids) against the references, so a consistent-but-wrong answer is not accepted here
        if first["ap"][0] == "ok" and first["ap"][1] != M.ref_cut_vertices(nodes, nb):
            bad.append((f"articulation_points (shared inputs) returned {first['ap'][1]}", rep))
        if first["br"][0] == "ok" and first["br"][1] != M.ref_bridges(nodes, nb):
            bad.append((f"bridges (shared inputs) returned {first['br'][1]}", rep))
        if first["kc"][0] == "ok" and dict(first["kc"][1]) != M.ref_core_numbers(nodes, nb):
            bad.append((f"kcore_decomposition (shared inputs) returned {first['kc'][1]}", rep))
        # a returned solution that the caller empties must not leak into the next call
        for name, fn, args in (("articulation_points", articulation_points, ()), ("bridges", bridges, ()), ("kcore_decomposition", kcore_decomposition, ()),
                               ("kcore", kcore, (k1,)), ("pagerank", pagerank, ()), ("louvain", louvain, ())):
            try:
                r1 = fn(B.node_list, B.nbfn, *args)
                snap = copy.deepcopy(r1.solution)
                r1.solution.clear()
                r2 = fn(B.node_list, B.nbfn, *args)
                ctx.evaluations += 2
                same = (sorted(map(sorted, snap)) == sorted(map(sorted, r2.solution))) if name == "louvain" else \
                    (sorted(snap) == sorted(r2.solution) if name == "bridges" else snap == r2.solution)
                if not same:
                    bad.append((f"{name}: emptying the returned solution changed the next answer ({str(snap)[:80]} -> {str(r2.solution)[:80]})", rep))
            except Exception as e:  # noqa: BLE001
                bad.append((f"{name} (call, clear(), call again): {type(e).__name__}: {str(e)[:100]}", rep))
        ctx.count("A_sequences", "solution_cleared")
