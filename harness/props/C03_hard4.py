"""C03 round-4: interior-point divergence stress (run_hard4(ctx), called from harness/props/C03.py).

Property clause: solve_lp_interior "does not crash on infeasible or unbounded input" and never answers OPTIMAL there.
Volume family, answers known BY CONSTRUCTION (no oracle, no Coq): thousands of tiny infeasible LPs (two contradictory parallel rows
r.x <= b0, -r.x <= b1 with b0 + b1 < 0 - Farkas multipliers (1, 1) - plus extra rows / zero columns / scaled copies / shuffles) and
thousands of tiny unbounded LPs (a feasible point and a ray e_j with A e_j <= 0 and improving cost, plus extra rows), both senses,
max_iter in {default, 30, 200, 1000}.  Judge: returns within the guard, no exception of any type, status not OPTIMAL, and a
FEASIBLE answer must obey the documented 0.01 residual (so it can never be given for an infeasible LP).
Divergence is also maximised directly: an instrumented run measures max |x|, |z| and the largest Mehrotra ratio mu_aff / mu; a hill
climb over the instance data pushes these up, and the climbed instances are judged like the rest.  Evidence: work_max.
"""
from __future__ import annotations

import math

from harness.core import guarded, pmap


def _M():
    import harness.props.C03 as M

    return M


# ------------------------------------------------------------------------------------------------ generators
def gen_infeasible(rng):
    n = rng.choice([1, 2, 3, 3, 3, 4, 4, 4, 5])
    lim = rng.choice([1, 2, 2, 3, 3])
    r = [rng.randint(-lim, lim) for _ in range(n)]
    if not any(r) and rng.random() < 0.8:
        r[rng.randrange(n)] = rng.choice([-1, 1])
    b0 = rng.randint(-2, 3)
    b1 = -b0 - rng.randint(1, 3)
    k = rng.choice([1, 1, 1, 2, 3])                      # scaled copy of the opposite row
    A = [list(r), [-k * v for v in r]]
    b = [b0, k * b1]
    for _ in range(rng.choice([0, 0, 0, 0, 0, 1, 2])):    # extra rows cannot repair infeasibility
        A.append([rng.randint(-2, 2) for _ in range(n)]); b.append(rng.randint(-2, 4))
    c = [rng.randint(-2, 2) for _ in range(n)]
    if rng.random() < 0.25:                               # zero column
        j = rng.randrange(n)
        for row in A:
            row[j] = 0
    if rng.random() < 0.2:                                # extra all-zero column with any cost
        for row in A:
            row.append(0)
        c.append(rng.randint(-2, 2))
    if rng.random() < 0.4:
        order = list(range(len(A))); rng.shuffle(order)
        A = [A[i] for i in order]; b = [b[i] for i in order]
    # Farkas check on the pair (the two rows are still present, possibly moved)
    return {"c": c, "A": A, "b": b, "minimize": rng.random() < 0.5, "max_iter": rng.choice([None] * 6 + [30, 200, 200, 1000]), "expect": "INFEASIBLE"}


def gen_unbounded(rng):
    n = rng.choice([1, 2, 2, 3, 3, 4])
    m = rng.choice([1, 1, 2, 2, 3])
    minimize = rng.random() < 0.5
    x0 = [rng.randint(0, 2) for _ in range(n)]
    A = [[rng.randint(-2, 2) for _ in range(n)] for _ in range(m)]
    j = rng.randrange(n)
    for row in A:
        row[j] = -abs(row[j]) if rng.random() < 0.6 else 0
    b = [sum(a * x for a, x in zip(row, x0)) + rng.randint(0, 2) for row in A]
    c = [rng.randint(-2, 2) for _ in range(n)]
    c[j] = -rng.randint(1, 3) if minimize else rng.randint(1, 3)
    assert all(sum(a * x for a, x in zip(row, x0)) <= bi for row, bi in zip(A, b)) and all(row[j] <= 0 for row in A)
    return {"c": c, "A": A, "b": b, "minimize": minimize, "max_iter": rng.choice([None] * 6 + [30, 200, 200, 1000]), "expect": "UNBOUNDED"}


# ------------------------------------------------------------------------------------------------ judge
def _call(case):
    import warnings

    from solvor.interior_point import solve_lp_interior

    kw = {} if case["max_iter"] is None else {"max_iter": case["max_iter"]}
    with warnings.catch_warnings():
        warnings.simplefilter("ignore")
        return solve_lp_interior(list(case["c"]), [list(r) for r in case["A"]], list(case["b"]), minimize=case["minimize"], **kw)


def judge(case):
    """None if fine, else a description"""
    res = guarded(_call, case, timeout=20)
    if res[0] == "hang":
        return "solve_lp_interior does not return within 20 s"
    if res[0] == "exc":
        return f"solve_lp_interior raised {res[1]}: {res[2]} on an {case['expect']} LP (must not crash)"
    r = res[1]
    st = r.status.name
    if st == "OPTIMAL":
        return f"status OPTIMAL on an LP that is {case['expect']} by construction"
    if st == "FEASIBLE":
        x = [float(v) for v in r.solution]
        if any(not math.isfinite(v) or v < 0 for v in x):
            return f"FEASIBLE point not finite / not >= 0: {x}"
        for i, row in enumerate(case["A"]):
            lhs = sum(a * v for a, v in zip(row, x))
            if lhs > case["b"][i] + 0.01:
                return f"FEASIBLE point violates row {i} by more than 0.01: {lhs} > {case['b'][i]}" + (" (the LP has no feasible point)" if case["expect"] == "INFEASIBLE" else "")
        if case["expect"] == "INFEASIBLE":
            return "FEASIBLE on an LP without feasible points"
    elif st != "MAX_ITER":
        return f"unexpected status {st}"
    return None


def _work(case):
    return judge(case)


# ------------------------------------------------------------------------------------------------ divergence measurement
_DV = {}


def _install_div():
    import solvor.interior_point as P

    if getattr(P._solve_newton, "_c03_div", False):
        return
    orig = P._solve_newton

    def newton(A_aug, x, z, rb, rc, xz, m, n_total, eps):
        out = orig(A_aug, x, z, rb, rc, xz, m, n_total, eps)
        dv = _DV
        if dv.get("on"):
            dv["calls"] = dv.get("calls", 0) + 1
            if dv["calls"] % 2 == 1:               # predictor call: recompute the Mehrotra ratio the caller is about to form
                try:
                    mx = max(abs(v) for v in list(x) + list(z))
                    if mx == mx:
                        dv["max_abs"] = max(dv.get("max_abs", 0.0), mx)
                    dx, _, dz = out
                    mu = sum(xz) / n_total
                    if dx is not None and mu > 1e-12:
                        ap = P._step_length(x, dx, n_total); ad = P._step_length(z, dz, n_total)
                        mu_aff = sum((x[j] + ap * dx[j]) * (z[j] + ad * dz[j]) for j in range(n_total)) / n_total
                        ratio = abs(mu_aff / mu)
                        if ratio == ratio:
                            dv["max_ratio"] = max(dv.get("max_ratio", 0.0), ratio)
                except (OverflowError, ZeroDivisionError, ValueError):
                    dv["max_ratio"] = float("inf")
        return out

    newton._c03_div = True
    P._solve_newton = newton


def divergence(case):
    """(log10 of the largest |x|,|z| seen, log10 of the largest mu_aff/mu) of an instrumented run; inf counts as 400"""
    _install_div()
    _DV.clear(); _DV["on"] = True
    guarded(_call, case, timeout=20)
    a, r = _DV.get("max_abs", 1.0), _DV.get("max_ratio", 0.0)
    _DV.clear()
    lg = lambda v: 400.0 if v == float("inf") else (math.log10(v) if v > 0 else -400.0)
    return lg(a), lg(r)


def _div_work(case):
    return divergence(case)


def climb(item):
    """hill climb on the instance data towards a large mu ratio / large iterates; -> (best case, score, (log|x|, log ratio))"""
    import random

    seed, salt = item
    rng = random.Random(f"c03-climb-{seed}-{salt}")

    def score(k):
        a, r = divergence(k)
        return r + 0.01 * min(a, 399.0), (a, r)

    # start from the most divergent of a small random sample, then mutate
    gen = gen_infeasible if seed % 4 != 3 else gen_unbounded
    pool = []
    for _ in range(10):
        k = gen(rng); k["max_iter"] = None
        pool.append((score(k), k))
    (best, (ba, br)), case = max(pool, key=lambda t: t[0][0])
    expect = case["expect"]
    for _ in range(24):
        k = {**case, "c": list(case["c"]), "A": [list(r) for r in case["A"]], "b": list(case["b"])}
        what = rng.random()
        if what < 0.35:
            j = rng.randrange(len(k["c"])); k["c"][j] += rng.choice([-1, 1])
        elif what < 0.5:
            k["minimize"] = not k["minimize"]; k["c"] = [-v for v in k["c"]] if expect == "UNBOUNDED" else k["c"]
        elif expect == "INFEASIBLE":
            # keep the contradiction: edit both parallel rows together (rows 0/1 may have been shuffled: find an opposite pair)
            pair = next(((i, t) for i in range(len(k["A"])) for t in range(len(k["A"])) if i < t and _opposite(k["A"][i], k["A"][t])), None)
            if pair is None:
                continue
            i, t = pair
            j = rng.randrange(len(k["c"])); d = rng.choice([-1, 1])
            f = _factor(k["A"][i], k["A"][t])
            if f is None:
                continue
            k["A"][i][j] += d; k["A"][t][j] -= f * d
        else:
            i = rng.randrange(len(k["A"])); j = rng.randrange(len(k["c"]))
            col_ray = [jj for jj in range(len(k["c"])) if all(row[jj] <= 0 for row in k["A"])]
            if j in col_ray and len(col_ray) == 1:
                k["A"][i][j] = -abs(k["A"][i][j] + rng.choice([-1, 0]))
            else:
                k["A"][i][j] += rng.choice([-1, 1])
                k["b"][i] += max(0, k["A"][i][j])      # keeps x0-type feasibility plausible; unboundedness needs the ray only
        if not _still(expect, k):
            continue
        s, (a, r) = score(k)
        if s > best:
            best, case, ba, br = s, k, a, r
    return case, best, (ba, br)


def _opposite(u, v):
    return _factor(u, v) is not None


def _factor(u, v):
    """k > 0 with v = -k u (None if not opposite)"""
    k = None
    for a, b in zip(u, v):
        if a == 0 and b == 0:
            continue
        if a == 0 or b == 0 or (a > 0) == (b > 0) or b % a != 0:
            return None
        q = -b // a
        if q <= 0 or (k is not None and q != k):
            return None
        k = q
    return k


def _still(expect, k):
    """the construction certificate still holds for the edited instance"""
    A, b, c = k["A"], k["b"], k["c"]
    if expect == "INFEASIBLE":
        for i in range(len(A)):
            for t in range(len(A)):
                if i != t:
                    f = _factor(A[i], A[t])
                    if f is not None and f * b[i] + b[t] < 0:
                        return True
                    if not any(A[i]) and b[i] < 0:
                        return True
        return False
    # unbounded: feasible point exists (x = 0 if b >= 0, else give up) and an improving ray e_j with A e_j <= 0
    if any(v < 0 for v in b):
        return False
    w = c if k["minimize"] else [-v for v in c]
    return any(all(row[j] <= 0 for row in A) and w[j] < 0 for j in range(len(c)))


# ------------------------------------------------------------------------------------------------ driver
def run_hard4(ctx):
    import time

    t0 = time.time()
    ctx.notes.append("round-4 interior-point divergence stress: tiny infeasible (contradictory parallel rows) and unbounded (improving ray) LPs by "
                     "construction, both senses, max_iter in {default, 30, 200, 1000}; judged: no exception, returns, never OPTIMAL, FEASIBLE only "
                     "within the 0.01 residual; histogram work_max reports log10 of the largest |x|,|z| and of the largest Mehrotra ratio mu_aff/mu "
                     "per family, hill-climbed instances included")
    n_inf = ctx.budget(3000, 40000)
    n_unb = ctx.budget(1800, 25000)
    cases = [{**gen_infeasible(ctx.rng), "family": "ipm-infeasible"} for _ in range(n_inf)] + \
            [{**gen_unbounded(ctx.rng), "family": "ipm-unbounded"} for _ in range(n_unb)]
    climbed = pmap(climb, [(i, ctx.rng.randrange(10 ** 9)) for i in range(ctx.budget(16, 140))], chunksize=1)
    for k, s, (a, r) in climbed:
        for mi in (None, 30, 200, 1000):
            cases.append({**k, "max_iter": mi, "family": "ipm-climbed-" + k["expect"].lower()})
    results = pmap(_work, cases, chunksize=32)
    for case, bad in zip(cases, results):
        ctx.evaluations += 1
        ctx.count("hard_family", case["family"])
        if bad:
            ctx.violation(f"solve_lp_interior [{case['family']}]: {bad}", {"kind": "ipm", **{k: case[k] for k in ("c", "A", "b", "minimize")},
                                                                          "max_iter": case["max_iter"], "expect": case["expect"]})
        else:
            ctx.nontriv("ipm4" + str(hash((tuple(case["c"]), tuple(map(tuple, case["A"])), tuple(case["b"]), case["minimize"], case["max_iter"]))))
    # divergence reached (instrumented sample + the climbed ones)
    sample = [c for c in cases[:n_inf:max(1, n_inf // 250)]] + [c for c in cases[n_inf:n_inf + n_unb:max(1, n_unb // 200)]]
    best = {}
    for case, (a, r) in zip(sample, pmap(_div_work, sample, chunksize=8)):
        fam = case["family"]
        ba, br = best.get(fam, (-400.0, -400.0))
        best[fam] = (max(ba, a), max(br, r))
    for k, s, (a, r) in climbed:
        fam = "ipm-climbed-" + k["expect"].lower()
        ba, br = best.get(fam, (-400.0, -400.0))
        best[fam] = (max(ba, a), max(br, r))
    for fam, (a, r) in sorted(best.items()):
        ctx.count("work_max", f"{fam}: log10 max|x,z| = {a:.0f}, log10 max mu_aff/mu = {r:.0f}")
    ctx.extra.setdefault("hard_timing_s", {})["round4"] = round(time.time() - t0, 1)
