"""C14 - SCC, topological order and condensation match their definitions (solvor/scc.py).

Tie to /repo: every generated graph is run through strongly_connected_components, topological_sort, condense
(and, for nodes 0..n-1, the *_edges variants with backend="python") of the working tree; the same inputs are
evaluated by the Gallina model SV.C14.Scc inside coqc (vm_compute) and must give the same public results.
Independently (a) a Python oracle (boolean transitive closure of the subgraph induced by the node set) judges
the implementation's outputs against the property itself and (b) the Coq boolean checkers scc_check /
topo_check / cond_check (proved sound w.r.t. the inductive specification in SV.C14.SccSpecProofs) are evaluated
by the kernel on BOTH the implementation's and the model's output of every small case: a per-run certificate.
General theorems (all inputs) about the model: coq/Props/C14.v.
"""
import json

import copy

from harness.core import Ctx, VERIF, clist, guarded, pmap
from harness.props import C14_hard as H

ID = "C14"
ANCHORS = ["solvor/scc.py"]
IMPORTS = "From SV Require Import C14.Scc C14.SccSpec."
SPEC_MAX_N = 10
COQ_MAX_N, COQ_MAX_E = 70, 400        # correspondence (vm_compute of the assoc-list model) stays cheap below this
SMALL_ORACLE_N = 14                   # brute-force closure oracle up to here, linear-time reference oracle above


# ---------------------------------------------------------------- generators
def _shuffle(rng, xs):
    xs = list(xs)
    rng.shuffle(xs)
    return xs


def gen_case(rng, big=False, kind=None):
    """A case = dict(nodes=[nat...], adj=[[v,[w...]]...], kind, label, edges_variant)."""
    kinds = ["random", "random", "dag", "dag", "cycle", "nested", "multi", "sparse", "dense", "dupnodes"]
    kind = kind or rng.choice(kinds)
    n = rng.choice([1, 2, 3, 3, 4, 4, 5, 5, 6, 6, 7, 8] + ([10, 12, 16, 20] if big else []))
    adj = {v: [] for v in range(n)}

    def add(u, w):
        adj[u].append(w)

    if kind in ("random", "sparse", "dense", "dupnodes"):
        p = {"random": rng.choice([0.15, 0.25, 0.4]), "sparse": 1.2 / max(n, 1), "dense": 0.6, "dupnodes": 0.25}[kind]
        for u in range(n):
            for w in range(n):
                if u != w and rng.random() < p:
                    add(u, w)
    elif kind == "dag":
        order = _shuffle(rng, range(n))
        p = rng.choice([0.2, 0.4, 0.7])
        for i in range(n):
            for j in range(i + 1, n):
                if rng.random() < p:
                    add(order[i], order[j])
        if rng.random() < 0.25 and n >= 2:          # one back edge: a single cycle in an otherwise acyclic graph
            i, j = sorted(rng.sample(range(n), 2))
            add(order[j], order[i])
    elif kind == "cycle":
        order = _shuffle(rng, range(n))
        for i in range(n):
            add(order[i], order[(i + 1) % n])       # n = 1: a self loop
        if rng.random() < 0.4 and n >= 3:
            add(*rng.sample(range(n), 2))
    elif kind == "nested":
        order = _shuffle(rng, range(n))
        for i in range(n - 1):
            add(order[i], order[i + 1])
        for _ in range(rng.randint(1, 3)):          # back edges of different spans: nested cycles
            if n >= 2:
                i, j = sorted(rng.sample(range(n), 2))
                add(order[j], order[i])
        for _ in range(rng.randint(0, 2)):
            if n >= 2:
                add(*rng.sample(range(n), 2))
    elif kind == "multi":
        # several weakly connected parts: small cycles / chains side by side, a few links in one direction
        vs = _shuffle(rng, range(n))
        parts, i = [], 0
        while i < n:
            k = rng.randint(1, 3)
            parts.append(vs[i:i + k])
            i += k
        for part in parts:
            if len(part) > 1:
                for a, b in zip(part, part[1:]):
                    add(a, b)
                if rng.random() < 0.6:
                    add(part[-1], part[0])
        for _ in range(rng.randint(0, 2)):
            if len(parts) >= 2:
                a, b = sorted(rng.sample(range(len(parts)), 2))
                add(rng.choice(parts[a]), rng.choice(parts[b]))
    # decorations named by the quantifier
    if rng.random() < 0.3:
        for _ in range(rng.randint(1, 2)):
            u = rng.randrange(n)
            add(u, u)                                # self loop
    if rng.random() < 0.3:
        for _ in range(rng.randint(1, 3)):
            u = rng.randrange(n)
            if adj[u]:
                add(u, rng.choice(adj[u]))           # duplicate edge
    outside = rng.random() < 0.3
    if outside:
        m = rng.randint(1, 2)
        for _ in range(rng.randint(1, 3)):
            add(rng.randrange(n), n + rng.randrange(m))   # neighbour outside the node set
        for x in range(n, n + m):
            if rng.random() < 0.5:                   # the outside node has neighbours of its own (back into the set)
                adj[x] = [rng.randrange(n + m) for _ in range(rng.randint(1, 2))]
    for u in list(adj):
        if rng.random() < 0.5:
            rng.shuffle(adj[u])                      # neighbour order
    edges_variant = rng.random() < 0.35 and kind != "dupnodes"
    if edges_variant:
        nodes = list(range(n))
        adj = {u: ws for u, ws in adj.items() if u < n}
    else:
        nodes = _shuffle(rng, range(n)) if rng.random() < 0.7 else list(range(n))
    if kind == "dupnodes":
        for _ in range(rng.randint(1, 2)):
            nodes.insert(rng.randrange(len(nodes) + 1), rng.choice(nodes))
    case = {"nodes": nodes, "adj": [[u, list(ws)] for u, ws in sorted(adj.items()) if ws], "kind": kind,
            "label": "int", "edges_variant": edges_variant}
    if rng.random() < 0.6:
        case["edit"] = make_edit(rng, case)
    decorate(rng, case)
    return case


def make_edit(rng, case):
    """Class A2: an in-place edit of the caller's objects between two calls (same list / dict / call-back objects afterwards)."""
    nodes, adj = case["nodes"], case["adj"]
    ids = all_ids(case) or [0]
    fresh_id = max(ids) + 1
    ev = case.get("edges_variant")
    n = len(nodes)
    kinds = ["append_edge", "append_edge"] + (["replace_nbr", "replace_nbr", "remove_edge"] if adj else []) + \
            (["replace_node", "swap_nodes"] if n >= 1 and not ev else [])
    k = rng.choice(kinds)
    src = (lambda: rng.randrange(n)) if ev else (lambda: rng.choice(nodes or [0]))
    if k == "append_edge":
        return [k, src() if (nodes or ev and n) else 0, rng.choice(ids + [fresh_id])] if (nodes or not ev) else None
    if k in ("replace_nbr", "remove_edge"):
        u, ws = rng.choice(adj)
        j = rng.randrange(len(ws))
        return [k, u, j, rng.choice(ids + [fresh_id])] if k == "replace_nbr" else [k, u, j]
    if k == "replace_node":
        outside = [x for x in ids if x not in set(nodes)]
        return [k, rng.randrange(n), rng.choice(outside + [fresh_id])]
    i, j = rng.randrange(n), rng.randrange(n)
    return [k, i, j]


def edited(case):
    """The nat-level case after its edit, or None when the edit does not apply (e.g. after shrinking)."""
    e = case.get("edit")
    if not e:
        return None
    try:
        nodes = list(case["nodes"])
        adj = [[u, list(ws)] for u, ws in case["adj"]]
        d = {u: ws for u, ws in adj}
        if e[0] == "append_edge":
            if e[1] in d:
                d[e[1]].append(e[2])
            else:
                adj.append([e[1], [e[2]]])
        elif e[0] == "replace_nbr":
            d[e[1]][e[2]] = e[3]
        elif e[0] == "remove_edge":
            del d[e[1]][e[2]]
        elif e[0] == "replace_node":
            nodes[e[1]] = e[2]
        elif e[0] == "swap_nodes":
            nodes[e[1]], nodes[e[2]] = nodes[e[2]], nodes[e[1]]
        else:
            return None
        c2 = {k: v for k, v in case.items() if k != "edit"}
        c2.update(nodes=nodes, adj=[[u, ws] for u, ws in adj if ws])
        if c2.get("edges_variant") and not all(u < len(nodes) for u, _ in c2["adj"]):
            return None
        return c2
    except (KeyError, IndexError, TypeError):
        return None


def all_ids(case):
    ids = []
    for v in case["nodes"]:
        ids.append(v)
    for u, ws in case["adj"]:
        ids.append(u)
        ids.extend(ws)
    e = case.get("edit") or []
    if e and e[0] in ("append_edge",):
        ids += [e[1], e[2]]
    elif e and e[0] == "replace_nbr":
        ids.append(e[3])
    elif e and e[0] == "replace_node":
        ids.append(e[2])
    return sorted(set(ids))


def decorate(rng, case):
    """Classes L, M, I, O of HARDENING.md: label map, iterable kinds, edge container, second backend."""
    if case.get("edges_variant"):
        case["label"] = "int"
        case["nodes_kind"] = rng.choice(["list", "tuple", "range", "iter", "gen"])
        case["edges_kind"] = rng.choice(["list_tuples", "list_tuples", "list_lists", "tuple_tuples"])
        case["backend2"] = rng.choice([None, "auto", "rust"])
    else:
        case["label"] = rng.choice(["int", "str", "tuple", "bigint", "pool", "pool", "pool"])
        case["nodes_kind"] = rng.choice(H.NODE_KINDS)
        if case["label"] == "pool":
            case["labels"] = H.pool_labels(rng, all_ids(case))
            case["alt"] = rng.random() < 0.5          # class X: neighbours refer to a node through an equal object of another numeric type
    case["nbr_kind"] = rng.choice(H.NBR_KINDS)
    if has_dup_nodes(case) and case["nodes_kind"] in ("dictkeys", "range"):
        case["nodes_kind"] = "tuple"
    return case


FIXED = [
    {"nodes": [], "adj": []},
    {"nodes": [0], "adj": []},
    {"nodes": [0], "adj": [[0, [0]]]},
    {"nodes": [0, 1], "adj": [[0, [1]], [1, [0]]]},
    {"nodes": [1, 0], "adj": [[0, [1, 1]]]},
    {"nodes": [0, 1, 2], "adj": [[0, [1]], [1, [2]], [2, [0]]]},
    {"nodes": [2, 1, 0], "adj": [[0, [1, 2]], [1, [2]]]},
    {"nodes": [0, 1, 2, 3], "adj": [[0, [1]], [1, [2]], [2, [1, 3]], [3, [0]]]},
    # low_link must take index[w] (not low_link[w]) for an on-stack w - and pop exactly the component
    {"nodes": [0, 1, 2, 3], "adj": [[0, [1]], [1, [2, 3]], [2, [0]], [3, [2]]]},
    {"nodes": [0, 1, 2, 3, 4], "adj": [[0, [1]], [1, [2]], [2, [0, 3]], [3, [4]], [4, [3]]]},
    {"nodes": [0, 1, 2], "adj": [[0, [7]], [1, [0, 8]], [7, [1]]]},
]
# labels named in HARDENING.md class L on the smallest shapes: None / falsy / equal-but-not-identical objects as nodes
for _shape in ([[0], []], [[0], [[0, [0]]]], [[1, 0], [[1, [0]]]], [[2, 1, 0], [[2, [1]], [1, [0]]]], [[0, 1, 2], [[0, [1]], [1, [2]], [2, [0]]]],
               [[0, 1, 2], [[0, [1]], [1, [0, 2]]]], [[1, 0], [[1, [0, 9]], [0, [0]]]]):
    for _sp in (["none"], ["false"], ["zero"], ["zerof"], ["estr"], ["etuple"], ["efset"], ["int", 2 ** 53 + 1], ["int", 257]):
        _ids = sorted({x for x in _shape[0]} | {w for _, ws in _shape[1] for w in ws})
        FIXED.append({"nodes": list(_shape[0]), "adj": [[u, list(ws)] for u, ws in _shape[1]], "label": "pool", "kind": "fixed-label",
                      "edges_variant": False, "nbr_kind": "fresh",
                      "labels": [[i, _sp if i == 0 else (["str", "x%d" % i] if i % 2 else ["int", 1000 + i])] for i in _ids]})
for _c in FIXED:
    _c.setdefault("kind", "fixed")
    _c.setdefault("label", "int")
    _c.setdefault("edges_variant", _c["nodes"] == list(range(len(_c["nodes"]))) and all(u < len(_c["nodes"]) for u, _ in _c["adj"]))


def has_outside(case):
    ns = set(case["nodes"])
    return any(w not in ns for u, ws in case["adj"] if u in ns for w in ws)


def has_dup_nodes(case):
    return len(set(case["nodes"])) != len(case["nodes"])


# ---------------------------------------------------------------- implementation runs
def edges_of(case):
    """Edge list whose per-source order equals the adjacency lists (sources interleaved deterministically)."""
    out = []
    lists = [(u, ws) for u, ws in case["adj"]]
    pos = [0] * len(lists)
    live = list(range(len(lists) - 1, -1, -1))
    while live:
        nxt = []
        for k in live:
            u, ws = lists[k]
            if pos[k] < len(ws):
                out.append((u, ws[pos[k]]))
                pos[k] += 1
                if pos[k] < len(ws):
                    nxt.append(k)
        live = nxt
    return out


def _norm(res):
    return res if res[0] == "ok" else ("exc", res[0] if res[0] == "hang" else res[1], res[2] if len(res) > 2 else "")


def _int(x):
    return x if isinstance(x, int) and not isinstance(x, bool) else H.Unknown(x)


def _canon(x):
    return x.r if isinstance(x, H.Unknown) else x


def run_impl(case):
    """All public functions of solvor/scc.py on one case -> {'scc','topo','cond'[, 'scc_e','topo_e','scc_e2','topo_e2'], 'alias'}.
    'alias' lists violations of class A: an input object was modified, or an answer changed when the same input objects were
    passed again (after the first results had been mutated by the caller, functions called in the opposite order)."""
    from solvor.scc import (condense, strongly_connected_components, strongly_connected_components_edges,
                            topological_sort, topological_sort_edges)

    f, inv = H.labeler(case)
    nk, bk = case.get("nodes_kind", "list"), case.get("nbr_kind", "list")
    if case.get("label") == "iter":                       # round-1 replay files
        nk = bk = "iter"
    big = bool(case.get("big"))
    adj_nat = {u: list(ws) for u, ws in case["adj"]}
    alt = case.get("label") == "pool" and case.get("alt")
    adj = {f(u): [f(w) for w in ws] for u, ws in case["adj"]}            # the caller's own objects
    nodes = [f(v) for v in case["nodes"]]
    adj0, nodes0 = copy.deepcopy(adj), copy.deepcopy(nodes)
    ncalls = [0]

    def nb(v):
        ncalls[0] += 1
        if bk == "fresh":                                 # equal-but-not-identical label objects on every call
            i = inv(v)
            if isinstance(i, H.Unknown):
                return []
            return [f(w, alt=bool((k + ncalls[0]) % 2)) for k, w in enumerate(adj_nat.get(i, []))] if alt else [f(w) for w in adj_nat.get(i, [])]
        return H.wrap(bk, adj.get(v, []))

    def nodes_arg():
        return H.wrap(nk, nodes)

    def scc_call():
        r = strongly_connected_components(nodes_arg(), nb)
        return r, {"status": r.status.name, "objective": r.objective, "comps": [[inv(x) for x in c] for c in r.solution]}

    def topo_call():
        r = topological_sort(nodes_arg(), nb)
        return r, {"status": r.status.name, "objective": r.objective,
                   "order": None if r.solution is None else [inv(x) for x in r.solution]}

    def cond_call():
        r = condense(nodes_arg(), nb)
        cn, adjc = r.solution
        where = {}
        for i, fs in enumerate(cn):
            where.setdefault(fs, i)
        succ = [sorted(where[t] for t in adjc.get(fs, [])) for fs in cn]
        comps = [[inv(x) for x in fs] for fs in cn]
        comps = [c if any(isinstance(x, H.Unknown) for x in c) else sorted(c) for c in comps]
        return r, {"status": r.status.name, "objective": r.objective, "comps": comps,
                   "succ": succ, "n_keys": len(adjc), "dup_succ": any(len(set(adjc[k])) != len(adjc[k]) for k in adjc)}

    calls = [("scc", scc_call), ("topo", topo_call), ("cond", cond_call)]
    es0 = es = ek = None
    es_t = []
    if case.get("edges_variant"):
        n = len(case["nodes"])
        ek = case.get("edges_kind", "list_tuples")
        es = edges_of(case)
        es = [list(e) for e in es] if ek == "list_lists" else (tuple(es) if ek == "tuple_tuples" else es)
        es0 = copy.deepcopy(es)

        es_t = [tuple(e) for e in es]                      # the declared type list[tuple[int, int]] (the Rust adapter insists on it)

        def mk_e(fn, key, be):
            def call():
                r = fn(n, es if be == "python" else es_t, backend=be)
                if key == "comps":
                    return r, {"status": r.status.name, "objective": r.objective, "comps": [[_int(x) for x in c] for c in r.solution]}
                return r, {"status": r.status.name, "objective": r.objective,
                           "order": None if r.solution is None else [_int(x) for x in r.solution]}
            return call

        calls += [("scc_e", mk_e(strongly_connected_components_edges, "comps", "python")),
                  ("topo_e", mk_e(topological_sort_edges, "order", "python"))]
        if "backend2" in case and not big:                # option corner: the other backend values, judged by the property only
            from solvor.rust import rust_available
            be = case["backend2"]
            if be != "rust" or rust_available():
                calls += [("scc_e2", mk_e(strongly_connected_components_edges, "comps", be)),
                          ("topo_e2", mk_e(topological_sort_edges, "order", be))]

    def one(fn):
        res = guarded(fn, timeout=20 if big else 5)       # deep instances run under the interpreter's default recursion limit
        if res[0] == "ok":
            return res[1][0], ("ok", res[1][1])
        return None, _norm(res)

    out, raws, alias = {}, {}, []
    for name, fn in calls:
        raws[name], out[name] = one(fn)

    def inputs_changed(when):
        if nodes != nodes0 or [type(x) for x in nodes] != [type(x) for x in nodes0]:
            alias.append(f"the caller's node list was modified ({when})")
        if adj != adj0:
            alias.append(f"a neighbour list owned by the caller was modified ({when})")
        if es0 is not None and es != es0:
            alias.append(f"the caller's edge list was modified ({when})")

    if case.get("_plain"):
        return out
    inputs_changed("by a call")
    # the caller now modifies the results it got; neither its inputs nor later answers may change
    for name, r in raws.items():
        sol = getattr(r, "solution", None)
        try:
            if name.startswith("scc") and isinstance(sol, list):
                for c in sol:
                    if isinstance(c, list):
                        c.append("<<caller>>")
                sol.reverse()
            elif name.startswith("topo") and isinstance(sol, list):
                sol.reverse()
                sol.append("<<caller>>")
            elif name == "cond" and sol is not None:
                for k in list(sol[1]):
                    if isinstance(sol[1][k], list):
                        sol[1][k].append("<<caller>>")
                sol[0].reverse()
        except Exception:  # noqa: BLE001
            pass
    inputs_changed("when the caller modified a returned solution")
    if not big:
        for name, fn in reversed(calls):
            _, again = one(fn)
            if json.dumps(again, sort_keys=True, default=_canon) != json.dumps(out[name], sort_keys=True, default=_canon):
                alias.append(f"{name}: a second call on the same input objects (after the other functions, in the opposite order) "
                             f"returned {str(again)[:150]} instead of {str(out[name])[:150]}")
        inputs_changed("by a repeated call")
    # class A2: the caller edits its objects IN PLACE (same node list, same dict / neighbour lists behind the same call-back object,
    # same edge list) and calls again; answers must equal those of a fresh call on a copy of the edited input
    c2 = edited(case) if not big and not case.get("_plain") else None
    if c2 is not None:
        e = case["edit"]
        try:
            if e[0] == "append_edge":
                key = f(e[1])
                if key in adj:
                    adj[key].append(f(e[2]))
                else:
                    adj[key] = [f(e[2])]
                adj_nat.setdefault(e[1], []).append(e[2])
            elif e[0] == "replace_nbr":
                adj[f(e[1])][e[2]] = f(e[3])
                adj_nat[e[1]][e[2]] = e[3]
            elif e[0] == "remove_edge":
                del adj[f(e[1])][e[2]]
                del adj_nat[e[1]][e[2]]
            elif e[0] == "replace_node":
                nodes[e[1]] = f(e[2])
            elif e[0] == "swap_nodes":
                nodes[e[1]], nodes[e[2]] = nodes[e[2]], nodes[e[1]]
            if es0 is not None:
                es2 = edges_of(c2)
                if isinstance(es, list):
                    es[:] = [list(x) for x in es2] if ek == "list_lists" else es2
                else:
                    es = tuple(es2)
                es_t[:] = [tuple(x) for x in es2]
                es0 = copy.deepcopy(es)
            adj0, nodes0 = copy.deepcopy(adj), copy.deepcopy(nodes)
            same = {}
            for name, fn in calls:
                _, same[name] = one(fn)
            inputs_changed("by a call after the in-place edit")
            fresh = run_impl(dict(c2, _plain=True))
            for name in same:
                if json.dumps(same[name], sort_keys=True, default=_canon) != json.dumps(fresh.get(name), sort_keys=True, default=_canon):
                    alias.append(f"{name}: after the caller edited its input in place ({e}) the call returned {str(same[name])[:150]}, "
                                 f"a fresh call on a copy of the edited input returns {str(fresh.get(name))[:150]}")
            out["after_edit"] = same
        except (KeyError, IndexError):
            pass
    out["alias"] = alias
    return out


# ---------------------------------------------------------------- independent oracle (the property itself)
def induced(case):
    ns, s = [], set()
    for v in case["nodes"]:
        if v not in s:
            s.add(v)
            ns.append(v)
    adj = dict((u, ws) for u, ws in case["adj"])
    E = {(u, w) for u in ns for w in adj.get(u, []) if w in s}
    return ns, E


def closure1(ns, E):
    """R[u][w] = w reachable from u by at least one edge (Warshall)."""
    R = {u: {w: (u, w) in E for w in ns} for u in ns}
    for k in ns:
        for i in ns:
            if R[i][k]:
                for j in ns:
                    if R[k][j]:
                        R[i][j] = True
    return R


def oracle_scc(case, res):
    if res[0] != "ok":
        return f"raised {res[1]}: {res[2]}"
    r = res[1]
    comps = r["comps"]
    ns, E = induced(case)
    R = closure1(ns, E)
    flat = [x for c in comps for x in c]
    if r["status"] != "OPTIMAL":
        return f"status {r['status']}"
    if any(len(c) == 0 for c in comps):
        return "empty component"
    if sorted(flat) != sorted(ns):
        return f"components {comps} do not list every node of {ns} exactly once"
    if r["objective"] != len(comps):
        return f"objective {r['objective']} != number of components {len(comps)}"
    where = {x: i for i, c in enumerate(comps) for x in c}
    for u in ns:
        for w in ns:
            mutual = u == w or (R[u][w] and R[w][u])
            if mutual != (where[u] == where[w]):
                return f"nodes {u},{w}: mutually reachable={mutual} but same component={where[u] == where[w]} in {comps}"
    for (u, w) in E:
        if where[u] < where[w]:
            return f"not sinks-first: edge {u}->{w} goes from component {where[u]} to the later component {where[w]} in {comps}"
    return None


def oracle_topo(case, res):
    if res[0] != "ok":
        return f"raised {res[1]}: {res[2]}"
    r = res[1]
    ns, E = induced(case)
    R = closure1(ns, E)
    cyclic = any(R[v][v] for v in ns)
    if cyclic:
        if r["status"] != "INFEASIBLE" or r["order"] is not None:
            return f"graph has a cycle but status={r['status']} order={r['order']}"
        return None
    if r["status"] != "OPTIMAL" or r["order"] is None:
        return f"acyclic graph but status={r['status']} order={r['order']}"
    order = r["order"]
    if sorted(order) != sorted(ns):
        return f"order {order} is not a permutation of the nodes {ns}"
    p = {x: i for i, x in enumerate(order)}
    for (u, w) in E:
        if not p[u] < p[w]:
            return f"edge {u}->{w} points backward in {order}"
    return None


def oracle_cond(case, res):
    if res[0] != "ok":
        return f"raised {res[1]}: {res[2]}"
    r = res[1]
    bad = oracle_scc(case, ("ok", {"status": r["status"], "objective": r["objective"], "comps": r["comps"]}))
    if bad:
        return "condensed nodes: " + bad
    comps, succ = r["comps"], r["succ"]
    ns, E = induced(case)
    if r["n_keys"] != len(comps) or len(succ) != len(comps):
        return f"adjacency has {r['n_keys']} keys for {len(comps)} components"
    if r["dup_succ"]:
        return "a successor list contains a component twice"
    where = {x: i for i, c in enumerate(comps) for x in c}
    want = [set() for _ in comps]
    for (u, w) in E:
        if where[u] != where[w]:
            want[where[u]].add(where[w])
    for i in range(len(comps)):
        if set(succ[i]) != want[i]:
            return f"component {i} {comps[i]}: successors {succ[i]}, expected {sorted(want[i])}"
    cn = list(range(len(comps)))
    R = closure1(cn, {(i, j) for i in cn for j in succ[i]})
    if any(R[i][i] for i in cn):
        return "condensed graph has a cycle"
    return None


ORACLES = {"scc": oracle_scc, "topo": oracle_topo, "cond": oracle_cond, "scc_e": oracle_scc, "topo_e": oracle_topo,
           "scc_e2": oracle_scc, "topo_e2": oracle_topo}


def _unknown(res):
    if res[0] != "ok":
        return None
    r = res[1]
    xs = [x for c in r.get("comps", []) for x in c] + list(r.get("order") or [])
    u = [x.r for x in xs if isinstance(x, H.Unknown)] + [repr(x) for x in xs if isinstance(x, int) and not 0 <= x <= 5000]
    return f"the result contains {u[:3]} which is not a node of the input" if u else None


def observation_only(case):
    """/root/seed3/POLICY_X.md: outside the property - (a) a NaN or +-inf object used as a node label, (d) the same node listed twice in the
    node iterable.  Such cases are still run (a hang is cut by the guard) but nothing about them is judged."""
    if has_dup_nodes(case):
        return "duplicate_node"
    if case.get("label") == "pool":
        used = set(all_ids(case))
        if any(i in used and (sp == ["nan"] or sp in (["fl", "inf"], ["fl", "-inf"])) for i, sp in case.get("labels", [])):
            return "nan_or_inf_label"
    return None


def judge(case, outs):
    """[(which, description)] of property failures of the implementation on this case."""
    if observation_only(case):
        return []
    bad = [("alias", a) for a in outs.get("alias", [])]
    if case.get("big") or len(set(case["nodes"])) > SMALL_ORACLE_N:
        try:
            return bad + H.big_judge(case, outs)
        except AssertionError:
            raise
        except Exception as e:  # noqa: BLE001
            return bad + [("scc", f"malformed result on {case.get('family')} ({type(e).__name__}: {e})")]
    if "after_edit" in outs:
        c2 = edited(case)
        if c2 is not None:
            bad += [(w, f"after the in-place edit {case['edit']} of the caller's input: {d}")
                    for w, d in judge(c2, dict(outs["after_edit"])) ]
    for which, res in outs.items():
        if which in ("alias", "after_edit"):
            continue
        try:
            d = _unknown(res) or ORACLES[which](case, res)
        except Exception as e:  # noqa: BLE001   (an output the oracle cannot even read is not a valid answer)
            d = f"malformed result {str(res)[:200]} ({type(e).__name__}: {e})"
        if d:
            bad.append((which, d))
    return bad


def shrink(case, still_bad):
    """Greedy: drop nodes, adjacency entries, single neighbours while the oracle still rejects."""
    cur = json.loads(json.dumps(case))
    changed = len(cur["nodes"]) <= 40 and sum(len(ws) for _, ws in cur["adj"]) <= 200      # large structured instances are reported as they are
    while changed:
        changed = False
        cands = []
        for i in range(len(cur["nodes"])):
            c = dict(cur, nodes=cur["nodes"][:i] + cur["nodes"][i + 1:])
            cands.append(c)
        for i in range(len(cur["adj"])):
            cands.append(dict(cur, adj=cur["adj"][:i] + cur["adj"][i + 1:]))
            u, ws = cur["adj"][i]
            for j in range(len(ws)):
                if len(ws) > 1:
                    cands.append(dict(cur, adj=cur["adj"][:i] + [[u, ws[:j] + ws[j + 1:]]] + cur["adj"][i + 1:]))
        for c in cands:
            c = dict(c, edges_variant=bool(c.get("edges_variant")) and c["nodes"] == list(range(len(c["nodes"])))
                     and all(u < len(c["nodes"]) for u, _ in c["adj"]))
            try:
                if still_bad(c):
                    cur, changed = c, True
                    break
            except Exception:  # noqa: BLE001
                pass
    return cur


# ---------------------------------------------------------------- Coq terms
def c_graph(case):
    return clist(case["adj"], lambda e: f"({e[0]}, {clist(e[1])})")


def c_comps(cs):
    return clist(cs, lambda c: clist(c))


def c_scc_obs(res):
    return "None" if res[0] != "ok" or _unknown(res) else f"(Some {c_comps(res[1]['comps'])})"


def c_topo_obs(res):
    if res[0] != "ok" or _unknown(res):
        return "None"
    o = res[1]["order"]
    return "(Some None)" if o is None else f"(Some (Some {clist(o)}))"


def c_cond_obs(res):
    if res[0] != "ok" or _unknown(res):
        return "None"
    return f"(Some ({c_comps(res[1]['comps'])}, {c_comps(res[1]['succ'])}))"


def c_edges(case):
    return clist(edges_of(case), lambda e: f"({e[0]}, {e[1]})")


# ---------------------------------------------------------------- the check
def _work(case):
    return H.run_huge(case) if case.get("huge") else run_impl(case)


def _corpus():
    out = []
    d = VERIF / "corpus" / "C14"
    if d.exists():
        for f in sorted(d.glob("*.json")):
            o = json.loads(f.read_text())
            o.setdefault("kind", "corpus")
            o.setdefault("label", "int")
            o.setdefault("edges_variant", False)
            o["corpus_file"] = f.name
            out.append(o)
    return out


def small_case(c):
    return not c.get("big") and not c.get("huge") and len(c["nodes"]) <= 40


def event_search(rng, target, tries=4000):
    """Directed search for a case on which the reference port reports `target` (random restarts + edge mutations)."""
    best = None
    for _ in range(tries):
        c = gen_case(rng, False)
        for _ in range(6):
            if H.ref_events(c)[target]:
                return c
            ids = all_ids(c) or [0]
            adj = {u: list(ws) for u, ws in c["adj"]}
            u = rng.choice(c["nodes"] or [0])
            adj.setdefault(u, []).insert(rng.randrange(len(adj.get(u, [])) + 1), rng.choice(ids + [max(ids) + 1]))
            c = dict(c, adj=[[a, ws] for a, ws in sorted(adj.items()) if ws], edges_variant=False)
            decorate(rng, c)
    return best


def run(ctx: Ctx):
    ctx.rule = ("directed graphs on 1..8 nodes (thorough: ..20) from generators random/sparse/dense/dag(+one back edge)/single cycle/"
                "nested cycles/several weak parts, decorated with self loops, duplicate edges, neighbours outside the node set "
                "(with and without own adjacency), shuffled node and neighbour orders, duplicate entries in the node iterable "
                "(correspondence only); each case runs under a random label map (ints, big ints up to 10^18 built at call time, "
                "None, False/0/0.0/''/()/frozenset(), strings/tuples/frozensets rebuilt on every call-back call, mixed types), random "
                "iterable kinds (list/tuple/iterator/generator/dict view/range) for nodes and neighbour lists, the *_edges variants with "
                "list/tuple edge containers and backend python/None/auto/rust; every function is called again in the opposite order "
                "after the caller modified the first results, inputs compared with deep copies; ~35 structured large instances "
                "(chains/cycles of 17..5000 nodes incl. 802 and 1025+, stars / parallel edges / late predecessors with in-degree up to 65537, "
                "2049 isolated nodes, layered DAGs, one random 3000-node graph) judged by construction and by an iterative Kosaraju reference; "
                "24 internal events of an instrumented port are counted and rare ones searched for; non-trivial = >=3 distinct "
                "nodes and an in-set edge between two different nodes; distinct = canonical JSON of (nodes, adjacency)")
    ctx.proof_step(["C14"])
    ctx.notes.append("model = code WITH the fix (Tarjan skips neighbours outside the node set); neighbours call-back = dict.get(v, [])")
    ctx.notes.append("condense: successor sets compared as sets, members of a condensed node (frozenset) compared sorted")
    ctx.notes.append(f"Coq correspondence on cases with <= {COQ_MAX_N} nodes and <= {COQ_MAX_E} edges; Coq spec checkers on cases with <= {SPEC_MAX_N} "
                     f"distinct nodes (cost ~n^5); brute-force closure oracle up to {SMALL_ORACLE_N} nodes, above that an independent linear-time "
                     "reference (iterative Kosaraju) + answers known by construction")
    ctx.notes.append("deep instances (DFS paths of 802..5000 nodes, thorough 20000) run under the interpreter's DEFAULT recursion limit: since "
                     "60ff76e the code raises the limit itself; a RecursionError is judged as a failure")
    ctx.notes.append("observation-only (POLICY_X a, d): NaN / +-inf objects as node labels and node iterables that list a node twice are run but "
                     "not judged and not sent to the Coq correspondence (histogram observation_only); finite labels of any magnitude stay judged")
    ctx.notes.append("backend None/auto/rust of the *_edges variants are judged by the property (oracle) only; equivalence of back-ends is C12")
    ctx.notes.append("general theorems (Props/C14.v) are about the Gallina model; the model is tied to /repo by the correspondence lemmas of "
                     "this run; in addition the sound Coq checkers scc_check/topo_check/cond_check are evaluated in the kernel on the "
                     "implementation's own outputs (a per-run certificate about the explored cases, independent of the model)")
    big = ctx.tier == "thorough"
    nrand = ctx.budget(700, 12000)
    corpus = _corpus()
    for c in corpus:                                       # committed witnesses also run under fresh random labels / iterables
        if "labels" not in c and not c.get("big") and ctx.rng.random() < 0.5:
            decorate(ctx.rng, c)
    cases = corpus + [dict(c) for c in FIXED] + [gen_case(ctx.rng, big) for _ in range(nrand)]
    # class H: events of the instrumented reference port; rare ones are searched for
    seen_ev = dict.fromkeys(H.EVENTS, 0)
    for c in cases:
        if small_case(c):
            for k, v in H.ref_events(c).items():
                seen_ev[k] += 1 if v else 0
    for c in corpus:
        if c.get("event"):
            ctx.count("corpus_event_still_fires", bool(H.ref_events(c).get(c["event"])))
    for k in H.EVENTS:
        if seen_ev[k] < 5:
            for _ in range(5 - seen_ev[k]):
                c = event_search(ctx.rng, k)
                if c is not None:
                    c["kind"] = "event:" + k
                    cases.append(c)
                    seen_ev[k] += 1
    for k in H.EVENTS:
        ctx.count("event_cases", k, seen_ev[k])
    cases = H.huge_cases(ctx.rng, big) + cases + H.big_cases(ctx.rng, big)      # the > 2^20-node instances start first (longest)
    max_work = {}

    def note_work(w):
        for k, v in (w or {}).items():
            max_work[k] = max(max_work.get(k, 0), v)
    import time as _t
    _t0 = _t.time()
    outs = pmap(_work, cases)
    ctx.extra["phase_s"] = {"generate+events": round(_t0 - ctx.t0, 1), "implementation": round(_t.time() - _t0, 1)}
    _t1 = _t.time()

    n_bad = 0
    for case, out in zip(cases, outs):
        if case.get("huge"):
            ctx.evaluations += out["calls"]
            ctx.count("kind", "huge")
            ctx.nontriv(case["family"] + str(case["adj"]))
            note_work(out["work"])
            for which, desc in out["bad"][:1]:
                n_bad += 1
                ctx.violation(f"{which}: {desc} [nodes = {'range(N)' if case['order'] == 'asc' else 'range(N-1,-1,-1)'} with N = {case['N']} "
                              f"passed as {case['nodes_kind']}; neighbours = {dict((u, ws) for u, ws in case['adj'])}.get(v, ()); every other node isolated]",
                              {"case": case, "function": which})
            continue
        ctx.evaluations += sum(len(v) if isinstance(v, dict) else 1 for k, v in out.items() if k != "alias") * (1 if case.get("big") else 2)
        if case.get("big"):
            ctx.count("kind", case["kind"])
            ctx.count("n_nodes_big", len(case["nodes"]))
            ctx.count("label", case["label"])
            ctx.count("nodes_kind", case.get("nodes_kind", "list"))
            ctx.nontriv(case["family"])
            bad = judge(case, out)
            note_work(case.get("_work"))
            case.pop("_work", None)
            if bad:
                n_bad += 1
                which, desc = bad[0]
                ctx.violation(f"{which}: {desc}", {"case": case, "function": which, "family": case["family"], "impl": str(out.get(which))[:300]})
            continue
        ns, E = induced(case)
        ctx.count("nodes_kind", case.get("nodes_kind", "list"))
        ctx.count("nbr_kind", case.get("nbr_kind", "list"))
        if case.get("label") == "pool":
            for _, sp in case["labels"]:
                ctx.count("pool_label", sp[0])
        if "scc_e2" in out:
            ctx.count("backend2", str(case.get("backend2")))
        ctx.count("in_place_edit", (case.get("edit") or ["none"])[0] if "after_edit" in out or not case.get("edit") else "not-applicable")
        if case.get("alt"):
            ctx.count("cross_type_equal_refs", True)
        if observation_only(case):
            ctx.count("observation_only", observation_only(case) + (":raised" if any(isinstance(v, tuple) and v[0] == "exc" and v[1] != "hang" for v in out.values())
                                                                      else ":hang" if any(isinstance(v, tuple) and v[:2] == ("exc", "hang") for v in out.values()) else ":answered"))
        ctx.count("kind", case["kind"])
        ctx.count("n_nodes", len(ns))
        ctx.count("label", case["label"])
        ctx.count("outside_neighbours", has_outside(case))
        ctx.count("dup_nodes", has_dup_nodes(case))
        ctx.count("self_loop", any(u == w for u, w in E))
        if out["topo"][0] == "ok":
            ctx.count("topo_status", out["topo"][1]["status"])
        if out["scc"][0] == "ok":
            cs = out["scc"][1]["comps"]
            ctx.count("n_components", len(cs))
            ctx.count("max_component", max([len(c) for c in cs] or [0]))
        if len(ns) >= 3 and any(u != w for u, w in E):
            ctx.nontriv(json.dumps([case["nodes"], case["adj"]]))
        ctx.sample({"nodes": case["nodes"], "adj": case["adj"], "scc": out["scc"][1] if out["scc"][0] == "ok" else out["scc"],
                    "topo": out["topo"][1] if out["topo"][0] == "ok" else out["topo"]}, 3)
        bad = judge(case, out)
        if bad:
            n_bad += 1
            if n_bad > 3:
                continue
            which, desc = bad[0]
            small = shrink(case, lambda c: any(w == which for w, _ in judge(c, run_impl(c))))
            o2 = run_impl(small)
            d2 = [d for w, d in judge(small, o2) if w == which]
            how = ""
            if small.get("label") == "pool":
                used = set(all_ids(small))
                how = " [node labels: " + ", ".join(f"{i} is {H.mk(sp)!r}" for i, sp in small["labels"] if i in used) + "]"
            elif small.get("label", "int") != "int":
                how = f" [node labels: {small['label']}]"
            how += f" [nodes passed as {small.get('nodes_kind', 'list')}, neighbours as {small.get('nbr_kind', 'list')}]"
            ctx.violation(f"{which}: {d2[0] if d2 else desc}{how}",
                          {"case": small, "function": which, "impl": str(o2.get(which))[:500], "original_case": case})
    ctx.count("cases_violating_oracle", n_bad)
    ctx.extra["max_work_per_loop"] = max_work          # class W: largest iteration count reached per internal loop (by construction)
    for k, v in max_work.items():
        ctx.count("max_work:" + k, v)
    ctx.extra["phase_s"]["oracle"] = round(_t.time() - _t1, 1)
    _t2 = _t.time()

    # ---- kernel-checked correspondence model vs implementation + Coq spec checkers on both outputs
    disagree = {}

    def chk(tag, ctype, fn, items, idxs):
        failing = ctx.coq_check(tag, IMPORTS, ctype, fn, items)
        for i in failing:
            disagree.setdefault(idxs[i], []).append(tag)

    all_idx = [i for i, c in enumerate(cases)
               if not c.get("huge") and not observation_only(c) and len(c["nodes"]) <= COQ_MAX_N and sum(len(ws) for _, ws in c["adj"]) <= COQ_MAX_E]
    ctx.count("coq_correspondence_cases", len(all_idx), 1)
    gn = {i: f"({c_graph(cases[i])}, {clist(cases[i]['nodes'])})" for i in all_idx}
    T3 = "(graph * list nat) * (option (list (list nat)) * (option (option (list nat)) * option (list (list nat) * list (list nat))))"

    def c3(i):
        return f"({gn[i]}, ({c_scc_obs(outs[i]['scc'])}, ({c_topo_obs(outs[i]['topo'])}, {c_cond_obs(outs[i]['cond'])})))"

    # correspondence: the three call-back functions in one kernel-checked lemma per shard
    chk("corr", T3,
        "fun c => let g := fst (fst c) in let ns := snd (fst c) in "
        "scc_obs_eqb (scc g ns) (fst (snd c)) && topo_obs_eqb (topological_sort g ns) (fst (snd (snd c))) "
        "&& cond_obs_eqb (condense g ns) (snd (snd (snd c)))",
        [c3(i) for i in all_idx], all_idx)
    ev = [i for i in all_idx if cases[i].get("edges_variant") and "scc_e" in outs[i]]
    chk("corr_edges", "(nat * list (nat * nat)) * (option (list (list nat)) * option (option (list nat)))",
        "fun c => scc_obs_eqb (scc_edges (fst (fst c)) (snd (fst c))) (fst (snd c)) "
        "&& topo_obs_eqb (topo_edges (fst (fst c)) (snd (fst c))) (snd (snd c))",
        [f"(({len(cases[i]['nodes'])}, {c_edges(cases[i])}), ({c_scc_obs(outs[i]['scc_e'])}, {c_topo_obs(outs[i]['topo_e'])}))" for i in ev], ev)
    # spec checkers (independent of the model) on the implementation's outputs, and on the model's outputs
    # (the closure-based checkers cost ~n^5: evaluated in Coq for graphs with <= SPEC_MAX_N nodes; larger graphs are
    #  judged by the Python oracle and the correspondence only)
    small = [i for i in all_idx if len(set(cases[i]["nodes"])) <= SPEC_MAX_N]
    ctx.count("coq_spec_checked_cases", len(small), 1)
    chk("spec", T3,
        "fun c => let g := fst (fst c) in let ns := snd (fst c) in "
        "ocheck (scc_check g ns) (fst (snd c)) "
        "&& (negb (nodupb ns) || ocheck (topo_check g ns) (fst (snd (snd c)))) "
        "&& ocheck (fun o => scc_check g ns (fst o) && cond_check g ns o) (snd (snd (snd c))) "
        "&& ocheck (scc_check g ns) (scc g ns) "
        "&& (negb (nodupb ns) || ocheck (topo_check g ns) (topological_sort g ns)) "
        "&& ocheck (cond_check g ns) (condense g ns)",
        [c3(i) for i in small], small)
    ctx.traces_validated += len(all_idx)
    ctx.extra["phase_s"]["coq"] = round(_t.time() - _t2, 1)
    ctx.count("cases_disagreeing_with_model_or_spec", len(disagree))

    # ---- disagreement / broken proof without an oracle failure: search, then report
    if (disagree or ctx.broken) and not ctx.violations:
        found = False
        for _ in range(ctx.budget(20000, 60000)):
            c = gen_case(ctx.rng, True)
            o = run_impl(c)
            bad = judge(c, o)
            if bad:
                which, desc = bad[0]
                small = shrink(c, lambda cc: any(w == which for w, _ in judge(cc, run_impl(cc))))
                ctx.violation(f"{which}: {desc}", {"case": small, "function": which, "original_case": c})
                found = True
                break
        if not found:
            for i, tags in list(disagree.items())[:2]:
                c = cases[i]
                g, nl = c_graph(c), clist(c["nodes"])
                model = ctx.coq_eval("show", IMPORTS, f"(scc {g} {nl}, topological_sort {g} {nl}, condense {g} {nl})")
                ctx.violation(f"correspondence/spec lemma(s) {tags}: model SV.C14.Scc and implementation differ (or a Coq spec checker rejects) "
                              "but the Python oracle accepts the implementation's outputs",
                              {"case": c, "impl": outs[i], "model": model, "lemma": [f"Cases/C14/{t}_*.v corr" for t in tags]}, no_input=True)


def replay(obj):
    case = obj.get("case") or obj
    if "nodes" not in case:
        print("replay names an unchecked obligation:", obj.get("unchecked") or obj.get("what"))
        return 1
    case.setdefault("label", "int")
    case.setdefault("kind", "replay")
    case.setdefault("edges_variant", False)
    if case.get("huge"):
        out = H.run_huge(case)
        print(f"N = {case['N']} nodes ({case['order']}, passed as {case['nodes_kind']}), neighbours = {dict((u, ws) for u, ws in case['adj'])}.get(v, ())")
        print("verdict:", out["bad"] or "ok")
        return 1 if out["bad"] else 0
    outs = run_impl(case)
    bad = judge(case, outs)
    adj = {u: ws for u, ws in case["adj"]}
    print(f"call: f({str(case['nodes'])[:400]}, lambda v: {str(adj)[:600]}.get(v, []))   [labels: {case['label']} {case.get('labels', '')}; "
          f"nodes as {case.get('nodes_kind', 'list')}, neighbours as {case.get('nbr_kind', 'list')}; family: {case.get('family')}]")
    for k, v in outs.items():
        print(f"  {k}: {str(v)[:600]}")
    print("oracle verdict:", bad or "ok")
    return 1 if bad else 0
