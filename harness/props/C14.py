"""C14 - SCC, topological order and condensation match their definitions (solvor/scc.py).

Tie to /repo: every generated graph is run through strongly_connected_components, topological_sort, condense
(and, for nodes 0..n-1, the *_edges variants with backend="python") of the working tree; the same inputs are
evaluated by the Gallina model SV.C14.Scc inside coqc (vm_compute) and must give the same public results.
Independently (a) a Python oracle (boolean transitive closure of the subgraph induced by the node set) judges
the implementation's outputs against the property itself and (b) the Coq boolean checkers scc_check /
topo_check / cond_check (proved sound w.r.t. the inductive specification in SV.C14.SccSpecProofs) are evaluated
by the kernel on BOTH the implementation's and the model's output of every small case: a per-run certificate.
General theorems (all inputs) about the model: coq/Props/C14.v.
"""
import json

from harness.core import Ctx, VERIF, clist, guarded, pmap

ID = "C14"
ANCHORS = ["solvor/scc.py"]
FINDING_CLASS = "scc_outside_neighbours"   # class name of a (possible) known-findings entry
IMPORTS = "From SV Require Import C14.Scc C14.SccSpec."
SPEC_MAX_N = 10


# ---------------------------------------------------------------- generators
def _shuffle(rng, xs):
    xs = list(xs)
    rng.shuffle(xs)
    return xs


def gen_case(rng, big=False, kind=None):
    """A case = dict(nodes=[nat...], adj=[[v,[w...]]...], kind, label, edges_variant)."""
    kinds = ["random", "random", "dag", "dag", "cycle", "nested", "multi", "sparse", "dense", "dupnodes"]
    kind = kind or rng.choice(kinds)
    n = rng.choice([1, 2, 3, 3, 4, 4, 5, 5, 6, 6, 7, 8] + ([10, 12, 16, 20] if big else []))
    adj = {v: [] for v in range(n)}

    def add(u, w):
        adj[u].append(w)

    if kind in ("random", "sparse", "dense", "dupnodes"):
        p = {"random": rng.choice([0.15, 0.25, 0.4]), "sparse": 1.2 / max(n, 1), "dense": 0.6, "dupnodes": 0.25}[kind]
        for u in range(n):
            for w in range(n):
                if u != w and rng.random() < p:
                    add(u, w)
    elif kind == "dag":
        order = _shuffle(rng, range(n))
        p = rng.choice([0.2, 0.4, 0.7])
        for i in range(n):
            for j in range(i + 1, n):
                if rng.random() < p:
                    add(order[i], order[j])
        if rng.random() < 0.25 and n >= 2:          # one back edge: a single cycle in an otherwise acyclic graph
            i, j = sorted(rng.sample(range(n), 2))
            add(order[j], order[i])
    elif kind == "cycle":
        order = _shuffle(rng, range(n))
        for i in range(n):
            add(order[i], order[(i + 1) % n])       # n = 1: a self loop
        if rng.random() < 0.4 and n >= 3:
            add(*rng.sample(range(n), 2))
    elif kind == "nested":
        order = _shuffle(rng, range(n))
        for i in range(n - 1):
            add(order[i], order[i + 1])
        for _ in range(rng.randint(1, 3)):          # back edges of different spans: nested cycles
            if n >= 2:
                i, j = sorted(rng.sample(range(n), 2))
                add(order[j], order[i])
        for _ in range(rng.randint(0, 2)):
            if n >= 2:
                add(*rng.sample(range(n), 2))
    elif kind == "multi":
        # several weakly connected parts: small cycles / chains side by side, a few links in one direction
        vs = _shuffle(rng, range(n))
        parts, i = [], 0
        while i < n:
            k = rng.randint(1, 3)
            parts.append(vs[i:i + k])
            i += k
        for part in parts:
            if len(part) > 1:
                for a, b in zip(part, part[1:]):
                    add(a, b)
                if rng.random() < 0.6:
                    add(part[-1], part[0])
        for _ in range(rng.randint(0, 2)):
            if len(parts) >= 2:
                a, b = sorted(rng.sample(range(len(parts)), 2))
                add(rng.choice(parts[a]), rng.choice(parts[b]))
    # decorations named by the quantifier
    if rng.random() < 0.3:
        for _ in range(rng.randint(1, 2)):
            u = rng.randrange(n)
            add(u, u)                                # self loop
    if rng.random() < 0.3:
        for _ in range(rng.randint(1, 3)):
            u = rng.randrange(n)
            if adj[u]:
                add(u, rng.choice(adj[u]))           # duplicate edge
    outside = rng.random() < 0.3
    if outside:
        m = rng.randint(1, 2)
        for _ in range(rng.randint(1, 3)):
            add(rng.randrange(n), n + rng.randrange(m))   # neighbour outside the node set
        for x in range(n, n + m):
            if rng.random() < 0.5:                   # the outside node has neighbours of its own (back into the set)
                adj[x] = [rng.randrange(n + m) for _ in range(rng.randint(1, 2))]
    for u in list(adj):
        if rng.random() < 0.5:
            rng.shuffle(adj[u])                      # neighbour order
    edges_variant = rng.random() < 0.35 and kind != "dupnodes"
    if edges_variant:
        nodes = list(range(n))
        adj = {u: ws for u, ws in adj.items() if u < n}
    else:
        nodes = _shuffle(rng, range(n)) if rng.random() < 0.7 else list(range(n))
    if kind == "dupnodes":
        for _ in range(rng.randint(1, 2)):
            nodes.insert(rng.randrange(len(nodes) + 1), rng.choice(nodes))
    label = "int" if edges_variant else rng.choice(["int", "int", "str", "tuple", "iter"])
    return {"nodes": nodes, "adj": [[u, list(ws)] for u, ws in sorted(adj.items()) if ws], "kind": kind,
            "label": label, "edges_variant": edges_variant}


FIXED = [
    {"nodes": [], "adj": []},
    {"nodes": [0], "adj": []},
    {"nodes": [0], "adj": [[0, [0]]]},
    {"nodes": [0, 1], "adj": [[0, [1]], [1, [0]]]},
    {"nodes": [1, 0], "adj": [[0, [1, 1]]]},
    {"nodes": [0, 1, 2], "adj": [[0, [1]], [1, [2]], [2, [0]]]},
    {"nodes": [2, 1, 0], "adj": [[0, [1, 2]], [1, [2]]]},
    {"nodes": [0, 1, 2, 3], "adj": [[0, [1]], [1, [2]], [2, [1, 3]], [3, [0]]]},
    # low_link must take index[w] (not low_link[w]) for an on-stack w - and pop exactly the component
    {"nodes": [0, 1, 2, 3], "adj": [[0, [1]], [1, [2, 3]], [2, [0]], [3, [2]]]},
    {"nodes": [0, 1, 2, 3, 4], "adj": [[0, [1]], [1, [2]], [2, [0, 3]], [3, [4]], [4, [3]]]},
    {"nodes": [0, 1, 2], "adj": [[0, [7]], [1, [0, 8]], [7, [1]]]},
]
for _c in FIXED:
    _c.setdefault("kind", "fixed")
    _c.setdefault("label", "int")
    _c.setdefault("edges_variant", _c["nodes"] == list(range(len(_c["nodes"]))) and all(u < len(_c["nodes"]) for u, _ in _c["adj"]))


def has_outside(case):
    ns = set(case["nodes"])
    return any(w not in ns for u, ws in case["adj"] if u in ns for w in ws)


def has_dup_nodes(case):
    return len(set(case["nodes"])) != len(case["nodes"])


# ---------------------------------------------------------------- implementation runs
def _lab(mode):
    if mode == "str":
        return (lambda i: f"n{i}"), (lambda s: int(s[1:]))
    if mode == "tuple":
        return (lambda i: (i % 3, i)), (lambda t: t[1])
    return (lambda i: i), (lambda i: i)


def edges_of(case):
    """Edge list whose per-source order equals the adjacency lists (sources interleaved deterministically)."""
    out = []
    lists = [(u, list(ws)) for u, ws in case["adj"]]
    while any(ws for _, ws in lists):
        for u, ws in reversed(lists):
            if ws:
                out.append((u, ws.pop(0)))
    return out


def _norm(res):
    return res if res[0] == "ok" else ("exc", res[0] if res[0] == "hang" else res[1], res[2] if len(res) > 2 else "")


def run_impl(case):
    from solvor.scc import (condense, strongly_connected_components, strongly_connected_components_edges,
                            topological_sort, topological_sort_edges)

    f, inv = _lab(case["label"])
    adj = {f(u): [f(w) for w in ws] for u, ws in case["adj"]}
    nodes = [f(v) for v in case["nodes"]]
    if case["label"] == "iter":
        nb = lambda v: iter(adj.get(v, []))          # noqa: E731
        nodes_arg = iter(nodes)
    else:
        nb = lambda v: adj.get(v, [])                # noqa: E731
        nodes_arg = nodes
    out = {}

    def scc_call():
        r = strongly_connected_components(nodes_arg if case["label"] != "iter" else iter(nodes), nb)
        return {"status": r.status.name, "objective": r.objective, "comps": [[inv(x) for x in c] for c in r.solution]}

    def topo_call():
        r = topological_sort(nodes if case["label"] != "iter" else iter(nodes), nb)
        return {"status": r.status.name, "objective": r.objective,
                "order": None if r.solution is None else [inv(x) for x in r.solution]}

    def cond_call():
        r = condense(nodes if case["label"] != "iter" else iter(nodes), nb)
        cn, adjc = r.solution
        where = {}
        for i, fs in enumerate(cn):
            where.setdefault(fs, i)
        succ = [sorted(where[t] for t in adjc.get(fs, [])) for fs in cn]
        return {"status": r.status.name, "objective": r.objective, "comps": [sorted(inv(x) for x in fs) for fs in cn],
                "succ": succ, "n_keys": len(adjc), "dup_succ": any(len(set(adjc[k])) != len(adjc[k]) for k in adjc)}

    out["scc"] = _norm(guarded(scc_call, timeout=5))
    out["topo"] = _norm(guarded(topo_call, timeout=5))
    out["cond"] = _norm(guarded(cond_call, timeout=5))
    if case.get("edges_variant"):
        n, es = len(case["nodes"]), edges_of(case)

        def scc_e():
            r = strongly_connected_components_edges(n, es, backend="python")
            return {"status": r.status.name, "objective": r.objective, "comps": [list(c) for c in r.solution]}

        def topo_e():
            r = topological_sort_edges(n, es, backend="python")
            return {"status": r.status.name, "objective": r.objective, "order": None if r.solution is None else list(r.solution)}

        out["scc_e"] = _norm(guarded(scc_e, timeout=5))
        out["topo_e"] = _norm(guarded(topo_e, timeout=5))
    return out


# ---------------------------------------------------------------- independent oracle (the property itself)
def induced(case):
    ns = []
    for v in case["nodes"]:
        if v not in ns:
            ns.append(v)
    s = set(ns)
    adj = dict((u, ws) for u, ws in case["adj"])
    E = {(u, w) for u in ns for w in adj.get(u, []) if w in s}
    return ns, E


def closure1(ns, E):
    """R[u][w] = w reachable from u by at least one edge (Warshall)."""
    R = {u: {w: (u, w) in E for w in ns} for u in ns}
    for k in ns:
        for i in ns:
            if R[i][k]:
                for j in ns:
                    if R[k][j]:
                        R[i][j] = True
    return R


def oracle_scc(case, res):
    if res[0] != "ok":
        return f"raised {res[1]}: {res[2]}"
    r = res[1]
    comps = r["comps"]
    ns, E = induced(case)
    R = closure1(ns, E)
    flat = [x for c in comps for x in c]
    if r["status"] != "OPTIMAL":
        return f"status {r['status']}"
    if any(len(c) == 0 for c in comps):
        return "empty component"
    if sorted(flat) != sorted(ns):
        return f"components {comps} do not list every node of {ns} exactly once"
    if r["objective"] != len(comps):
        return f"objective {r['objective']} != number of components {len(comps)}"
    where = {x: i for i, c in enumerate(comps) for x in c}
    for u in ns:
        for w in ns:
            mutual = u == w or (R[u][w] and R[w][u])
            if mutual != (where[u] == where[w]):
                return f"nodes {u},{w}: mutually reachable={mutual} but same component={where[u] == where[w]} in {comps}"
    for (u, w) in E:
        if where[u] < where[w]:
            return f"not sinks-first: edge {u}->{w} goes from component {where[u]} to the later component {where[w]} in {comps}"
    return None


def oracle_topo(case, res):
    if res[0] != "ok":
        return f"raised {res[1]}: {res[2]}"
    r = res[1]
    ns, E = induced(case)
    R = closure1(ns, E)
    cyclic = any(R[v][v] for v in ns)
    if cyclic:
        if r["status"] != "INFEASIBLE" or r["order"] is not None:
            return f"graph has a cycle but status={r['status']} order={r['order']}"
        return None
    if r["status"] != "OPTIMAL" or r["order"] is None:
        return f"acyclic graph but status={r['status']} order={r['order']}"
    order = r["order"]
    if sorted(order) != sorted(ns):
        return f"order {order} is not a permutation of the nodes {ns}"
    p = {x: i for i, x in enumerate(order)}
    for (u, w) in E:
        if not p[u] < p[w]:
            return f"edge {u}->{w} points backward in {order}"
    return None


def oracle_cond(case, res):
    if res[0] != "ok":
        return f"raised {res[1]}: {res[2]}"
    r = res[1]
    bad = oracle_scc(case, ("ok", {"status": r["status"], "objective": r["objective"], "comps": r["comps"]}))
    if bad:
        return "condensed nodes: " + bad
    comps, succ = r["comps"], r["succ"]
    ns, E = induced(case)
    if r["n_keys"] != len(comps) or len(succ) != len(comps):
        return f"adjacency has {r['n_keys']} keys for {len(comps)} components"
    if r["dup_succ"]:
        return "a successor list contains a component twice"
    where = {x: i for i, c in enumerate(comps) for x in c}
    want = [set() for _ in comps]
    for (u, w) in E:
        if where[u] != where[w]:
            want[where[u]].add(where[w])
    for i in range(len(comps)):
        if set(succ[i]) != want[i]:
            return f"component {i} {comps[i]}: successors {succ[i]}, expected {sorted(want[i])}"
    cn = list(range(len(comps)))
    R = closure1(cn, {(i, j) for i in cn for j in succ[i]})
    if any(R[i][i] for i in cn):
        return "condensed graph has a cycle"
    return None


ORACLES = {"scc": oracle_scc, "topo": oracle_topo, "cond": oracle_cond, "scc_e": oracle_scc, "topo_e": oracle_topo}


def judge(case, outs):
    """[(which, description)] of property failures of the implementation on this case."""
    bad = []
    for which, res in outs.items():
        if which in ("topo", "topo_e") and has_dup_nodes(case):
            continue                                  # property read for duplicate-free node iterables (noted)
        d = ORACLES[which](case, res)
        if d:
            bad.append((which, d))
    return bad


def shrink(case, still_bad):
    """Greedy: drop nodes, adjacency entries, single neighbours while the oracle still rejects."""
    cur = json.loads(json.dumps(case))
    changed = True
    while changed:
        changed = False
        cands = []
        for i in range(len(cur["nodes"])):
            c = dict(cur, nodes=cur["nodes"][:i] + cur["nodes"][i + 1:])
            cands.append(c)
        for i in range(len(cur["adj"])):
            cands.append(dict(cur, adj=cur["adj"][:i] + cur["adj"][i + 1:]))
            u, ws = cur["adj"][i]
            for j in range(len(ws)):
                if len(ws) > 1:
                    cands.append(dict(cur, adj=cur["adj"][:i] + [[u, ws[:j] + ws[j + 1:]]] + cur["adj"][i + 1:]))
        for c in cands:
            c = dict(c, edges_variant=bool(c.get("edges_variant")) and c["nodes"] == list(range(len(c["nodes"])))
                     and all(u < len(c["nodes"]) for u, _ in c["adj"]))
            try:
                if still_bad(c):
                    cur, changed = c, True
                    break
            except Exception:  # noqa: BLE001
                pass
    return cur


# ---------------------------------------------------------------- Coq terms
def c_graph(case):
    return clist(case["adj"], lambda e: f"({e[0]}, {clist(e[1])})")


def c_comps(cs):
    return clist(cs, lambda c: clist(c))


def c_scc_obs(res):
    return "None" if res[0] != "ok" else f"(Some {c_comps(res[1]['comps'])})"


def c_topo_obs(res):
    if res[0] != "ok":
        return "None"
    o = res[1]["order"]
    return "(Some None)" if o is None else f"(Some (Some {clist(o)}))"


def c_cond_obs(res):
    if res[0] != "ok":
        return "None"
    return f"(Some ({c_comps(res[1]['comps'])}, {c_comps(res[1]['succ'])}))"


def c_edges(case):
    return clist(edges_of(case), lambda e: f"({e[0]}, {e[1]})")


# ---------------------------------------------------------------- the check
def _work(case):
    return run_impl(case)


def _corpus():
    out = []
    d = VERIF / "corpus" / "C14"
    if d.exists():
        for f in sorted(d.glob("*.json")):
            o = json.loads(f.read_text())
            o.setdefault("kind", "corpus")
            o.setdefault("label", "int")
            o.setdefault("edges_variant", False)
            out.append(o)
    return out


def run(ctx: Ctx):
    ctx.rule = ("directed graphs on 1..8 nodes (thorough: ..24) from generators random/sparse/dense/dag(+one back edge)/single cycle/"
                "nested cycles/several weak parts, decorated with self loops, duplicate edges, neighbours outside the node set "
                "(with and without own adjacency), shuffled node and neighbour orders, str/tuple/iterator labels, duplicate entries "
                "in the node iterable (correspondence only); non-trivial = >=3 distinct nodes and an in-set edge between two "
                "different nodes; distinct = canonical JSON of (nodes, adjacency)")
    ctx.proof_step(["C14"])
    ctx.notes.append("model = code WITH the planned fix (Tarjan skips neighbours outside the node set); neighbours call-back = dict.get(v, [])")
    ctx.notes.append("topological_sort judged by the oracle only for duplicate-free node iterables (with duplicates the code counts edges "
                     "per occurrence; model follows the code, correspondence still checked)")
    ctx.notes.append("condense: successor sets compared as sets, members of a condensed node (frozenset) compared sorted")
    ctx.notes.append(f"Coq spec checkers are evaluated on the cases with <= {SPEC_MAX_N} distinct nodes (cost ~n^5); larger graphs: Python oracle + correspondence")
    ctx.notes.append("general theorems (Props/C14.v) are about the Gallina model; the model is tied to /repo by the correspondence lemmas of "
                     "this run; in addition the sound Coq checkers scc_check/topo_check/cond_check are evaluated in the kernel on the "
                     "implementation's own outputs (a per-run certificate about the explored cases, independent of the model)")
    big = ctx.tier == "thorough"
    nrand = ctx.budget(700, 12000)
    cases = _corpus() + [dict(c) for c in FIXED] + [gen_case(ctx.rng, big) for _ in range(nrand)]
    outs = pmap(_work, cases)

    # open known findings of this class (none unless the coordinator lists one)
    open_ids = [f["id"] for f in ctx.open_findings() if f.get("class") == FINDING_CLASS]

    n_bad = 0
    for case, out in zip(cases, outs):
        ctx.evaluations += len(out)
        ns, E = induced(case)
        ctx.count("kind", case["kind"])
        ctx.count("n_nodes", len(ns))
        ctx.count("label", case["label"])
        ctx.count("outside_neighbours", has_outside(case))
        ctx.count("dup_nodes", has_dup_nodes(case))
        ctx.count("self_loop", any(u == w for u, w in E))
        if out["topo"][0] == "ok":
            ctx.count("topo_status", out["topo"][1]["status"])
        if out["scc"][0] == "ok":
            cs = out["scc"][1]["comps"]
            ctx.count("n_components", len(cs))
            ctx.count("max_component", max([len(c) for c in cs] or [0]))
        if len(ns) >= 3 and any(u != w for u, w in E):
            ctx.nontriv(json.dumps([case["nodes"], case["adj"]]))
        ctx.sample({"nodes": case["nodes"], "adj": case["adj"], "scc": out["scc"][1] if out["scc"][0] == "ok" else out["scc"],
                    "topo": out["topo"][1] if out["topo"][0] == "ok" else out["topo"]}, 3)
        bad = judge(case, out)
        if bad:
            n_bad += 1
            if n_bad > 3 and not open_ids:
                continue
            which, desc = bad[0]
            if open_ids and has_outside(case) and all(w in ("scc", "cond", "scc_e") for w, _ in bad):
                ctx.known_hit(open_ids[0], f"{which} on a graph with a neighbour outside the node set: {desc}")
                continue
            small = shrink(case, lambda c: any(w == which for w, _ in judge(c, run_impl(c))))
            o2 = run_impl(small)
            d2 = [d for w, d in judge(small, o2) if w == which]
            ctx.violation(f"{which}: {d2[0] if d2 else desc}",
                          {"case": small, "function": which, "impl": o2.get(which), "original_case": case})
    ctx.count("cases_violating_oracle", n_bad)

    # ---- kernel-checked correspondence model vs implementation + Coq spec checkers on both outputs
    gn = [f"({c_graph(c)}, {clist(c['nodes'])})" for c in cases]
    disagree = {}

    def chk(tag, ctype, fn, items, idxs):
        failing = ctx.coq_check(tag, IMPORTS, ctype, fn, items)
        for i in failing:
            disagree.setdefault(idxs[i], []).append(tag)

    all_idx = list(range(len(cases)))
    chk("scc", "(graph * list nat) * option (list (list nat))",
        "fun c => scc_obs_eqb (scc (fst (fst c)) (snd (fst c))) (snd c)",
        [f"({gn[i]}, {c_scc_obs(outs[i]['scc'])})" for i in all_idx], all_idx)
    chk("topo", "(graph * list nat) * option (option (list nat))",
        "fun c => topo_obs_eqb (topological_sort (fst (fst c)) (snd (fst c))) (snd c)",
        [f"({gn[i]}, {c_topo_obs(outs[i]['topo'])})" for i in all_idx], all_idx)
    chk("cond", "(graph * list nat) * option (list (list nat) * list (list nat))",
        "fun c => cond_obs_eqb (condense (fst (fst c)) (snd (fst c))) (snd c)",
        [f"({gn[i]}, {c_cond_obs(outs[i]['cond'])})" for i in all_idx], all_idx)
    ev = [i for i in all_idx if cases[i].get("edges_variant")]
    chk("scc_edges", "(nat * list (nat * nat)) * option (list (list nat))",
        "fun c => scc_obs_eqb (scc_edges (fst (fst c)) (snd (fst c))) (snd c)",
        [f"(({len(cases[i]['nodes'])}, {c_edges(cases[i])}), {c_scc_obs(outs[i]['scc_e'])})" for i in ev], ev)
    chk("topo_edges", "(nat * list (nat * nat)) * option (option (list nat))",
        "fun c => topo_obs_eqb (topo_edges (fst (fst c)) (snd (fst c))) (snd c)",
        [f"(({len(cases[i]['nodes'])}, {c_edges(cases[i])}), {c_topo_obs(outs[i]['topo_e'])})" for i in ev], ev)
    # spec checkers (independent of the model) on the implementation's outputs, and on the model's outputs
    # (the closure-based checkers cost ~n^5: evaluated in Coq for graphs with <= SPEC_MAX_N nodes; larger graphs are
    #  judged by the Python oracle and the correspondence only)
    small = [i for i in all_idx if len(set(cases[i]["nodes"])) <= SPEC_MAX_N]
    nd = [i for i in small if not has_dup_nodes(cases[i])]
    ctx.count("coq_spec_checked_cases", len(small), 1)
    chk("spec_scc_impl", "(graph * list nat) * option (list (list nat))",
        "fun c => ocheck (scc_check (fst (fst c)) (snd (fst c))) (snd c)",
        [f"({gn[i]}, {c_scc_obs(outs[i]['scc'])})" for i in small], small)
    chk("spec_topo_impl", "(graph * list nat) * option (option (list nat))",
        "fun c => ocheck (topo_check (fst (fst c)) (snd (fst c))) (snd c)",
        [f"({gn[i]}, {c_topo_obs(outs[i]['topo'])})" for i in nd], nd)
    chk("spec_cond_impl", "(graph * list nat) * option (list (list nat) * list (list nat))",
        "fun c => ocheck (fun o => scc_check (fst (fst c)) (snd (fst c)) (fst o) && cond_check (fst (fst c)) (snd (fst c)) o) (snd c)",
        [f"({gn[i]}, {c_cond_obs(outs[i]['cond'])})" for i in small], small)
    chk("spec_model", "graph * list nat",
        "fun c => ocheck (scc_check (fst c) (snd c)) (scc (fst c) (snd c)) "
        "&& (negb (nodupb (snd c)) || ocheck (topo_check (fst c) (snd c)) (topological_sort (fst c) (snd c))) "
        "&& ocheck (cond_check (fst c) (snd c)) (condense (fst c) (snd c))",
        [gn[i] for i in small], small)
    ctx.traces_validated += len(cases)
    ctx.count("cases_disagreeing_with_model_or_spec", len(disagree))

    # ---- disagreement / broken proof without an oracle failure: search, then report
    if (disagree or ctx.broken) and not ctx.violations and not ctx.known_hits:
        found = False
        for _ in range(ctx.budget(20000, 60000)):
            c = gen_case(ctx.rng, True)
            o = run_impl(c)
            bad = judge(c, o)
            if bad:
                which, desc = bad[0]
                small = shrink(c, lambda cc: any(w == which for w, _ in judge(cc, run_impl(cc))))
                ctx.violation(f"{which}: {desc}", {"case": small, "function": which, "original_case": c})
                found = True
                break
        if not found:
            for i, tags in list(disagree.items())[:2]:
                c = cases[i]
                g, nl = c_graph(c), clist(c["nodes"])
                model = ctx.coq_eval("show", IMPORTS, f"(scc {g} {nl}, topological_sort {g} {nl}, condense {g} {nl})")
                ctx.violation(f"correspondence/spec lemma(s) {tags}: model SV.C14.Scc and implementation differ (or a Coq spec checker rejects) "
                              "but the Python oracle accepts the implementation's outputs",
                              {"case": c, "impl": outs[i], "model": model, "lemma": [f"Cases/C14/{t}_*.v corr" for t in tags]}, no_input=True)


def replay(obj):
    case = obj.get("case") or obj
    if "nodes" not in case:
        print("replay names an unchecked obligation:", obj.get("unchecked") or obj.get("what"))
        return 1
    case.setdefault("label", "int")
    case.setdefault("kind", "replay")
    case.setdefault("edges_variant", False)
    outs = run_impl(case)
    bad = judge(case, outs)
    adj = {u: ws for u, ws in case["adj"]}
    print(f"call: f({case['nodes']}, lambda v: {adj}.get(v, []))   [labels: {case['label']}]")
    for k, v in outs.items():
        print(f"  {k}: {v}")
    print("oracle verdict:", bad or "ok")
    return 1 if bad else 0
