"""C19 part B - differential_evolution, particle_swarm, nelder_mead, bayesian_opt (group 1) and powell, bfgs,
lbfgs (group 2) report the best point they evaluated / the objective of exactly the returned point.

Called by harness/props/C19.py:  run_part(ctx)  (the caller does the proof step for Props/C19_b.v).

Tie to /repo.  Each solver is run from the working tree on an integer-valued objective of the float point
(plateaus, ties, discontinuities: every comparison the solver makes on objective values is exact) wrapped by a
recording proxy that COPIES the point at call time.  The stream of recorded values (+ the few decisions that
depend on float arithmetic, recorded from the run) is fed to the Gallina bookkeeping machines
SV.C19.B_{DE,PSO,NM,Bayes,Flow} inside coqc (vm_compute); the machine's result - identity of the returned
point (matched BY VALUE against the logged copies), objective, iterations, evaluations, status - must equal the
implementation's, and the machine must consume exactly the recorded values.  Independently of the model, a
Python oracle judges every run against the property text itself.
"""
from __future__ import annotations

import importlib
import json
import math

from harness.core import VERIF, Ctx, cbool, clist, cnat, cz, guarded, pmap

ANCHORS = [
    "solvor/differential_evolution.py",
    "solvor/particle_swarm.py",
    "solvor/nelder_mead.py",
    "solvor/bayesian.py",
    "solvor/powell.py",
    "solvor/bfgs.py",
    "solvor/utils/helpers.py",
]

GROUP1 = ("de", "pso", "nm", "bayes")
GROUP2 = ("powell", "bfgs", "lbfgs")
BOUNDED = ("de", "pso", "bayes")
IMPORTS = "From SV Require Import C19.B_Common C19.B_DE C19.B_PSO C19.B_NM C19.B_Bayes C19.B_Flow C19.B_Powell C19.B_Spec."


# ------------------------------------------------------------------------------------------------ objectives
def _safe(v):
    if v != v:
        return 0.0
    return max(-1e6, min(1e6, v))


def make_obj(spec):
    """Deterministic integer-valued objective of a float point, from a JSON-able description."""
    kind = spec["kind"]
    neg = -1 if spec.get("neg") else 1
    c = spec.get("c", [0.0, 0.0, 0.0])
    s = spec.get("scale", 3)
    if kind == "abs":        # piecewise constant cone, plateaus of width 1/scale
        def f(x):
            return neg * int(round(sum(abs(_safe(v) - c[i % 3]) * s for i, v in enumerate(x))))
    elif kind == "quad":
        def f(x):
            return neg * int(round(sum((_safe(v) - c[i % 3]) ** 2 * s for i, v in enumerate(x))))
    elif kind == "table":    # lookup of floor(x*res): arbitrary plateaus, ties and jumps
        t = spec["table"]
        res = spec.get("res", 1)
        def f(x):
            return neg * sum(t[(math.floor(_safe(v) * res) + 7 * i) % len(t)] for i, v in enumerate(x))
    elif kind == "const":    # one big plateau: everything ties
        def f(x):
            return neg * spec.get("k", 4)
    elif kind == "step":     # discontinuity at thr
        thr = spec.get("thr", 0.5)
        def f(x):
            return neg * sum((math.floor(_safe(v) * s) if _safe(v) >= thr else 9 - math.floor(_safe(v))) for v in x)
    elif kind == "lin":      # unbounded direction, optimum on the boundary
        def f(x):
            return neg * int(math.floor(sum(_safe(v) * s * (1 if i % 2 == 0 else -1) for i, v in enumerate(x))))
    else:
        raise ValueError(kind)
    if spec.get("float"):        # integral floats (incl. -0.0): comparisons stay exact
        return lambda x: float(f(x))
    return f


def gen_obj(rng, d):
    kind = rng.choice(["abs", "abs", "quad", "quad", "table", "table", "const", "step", "lin"])
    spec = {"kind": kind}
    if kind in ("abs", "quad"):
        spec["c"] = [rng.choice([0.0, 0.5, -1.25, 2.0, 1.0]) for _ in range(3)]
        spec["scale"] = rng.choice([1, 2, 3, 7, 20])
    elif kind == "table":
        spec["table"] = [rng.randint(0, 6) for _ in range(rng.choice([3, 5, 8, 11]))]
        spec["res"] = rng.choice([1, 2, 4])
    elif kind == "const":
        spec["k"] = rng.randint(-3, 5)
    elif kind == "step":
        spec["thr"] = rng.choice([-1.0, 0.0, 0.5, 1.5])
        spec["scale"] = rng.choice([1, 2, 5])
    else:
        spec["scale"] = rng.choice([1, 3])
    if rng.random() < 0.2:
        spec["float"] = True
    return spec


class Rec:
    """Recording proxy: logs a COPY of the point and the value of every objective call."""

    def __init__(self, f, events=None):
        self.f = f
        self.log = []
        self.events = events

    def __call__(self, x):
        pt = list(x)
        v = self.f(pt)
        self.log.append((pt, v))
        if self.events is not None:
            self.events.append("f")
        return v


# ------------------------------------------------------------------------------------------------ callbacks
def make_cb(cbspec, calls):
    """on_progress callback described by cbspec = None | {"kind": ge|eq|truthy|false, "k": int}."""
    if cbspec is None:
        return None
    kind, k = cbspec["kind"], cbspec.get("k", 0)

    def cb(p):
        calls.append((p.iteration, p.objective, p.best, p.evaluations))
        if kind == "ge":
            return p.iteration >= k
        if kind == "eq":
            return p.iteration == k
        if kind == "truthy":
            return 1          # truthy but not `True`: report_progress tests `is True`
        return False

    return cb


def cb_term(cbspec):
    if cbspec is None:
        return "None"
    kind, k = cbspec["kind"], cbspec.get("k", 0)
    if kind == "ge":
        return f"(Some (fun it => ({k} <=? it)%nat))"
    if kind == "eq":
        return f"(Some (fun it => (it =? {k})%nat))"
    return "(Some (fun _ : nat => false))"


def gen_cb(rng, hi):
    r = rng.random()
    if r < 0.45:
        return None, rng.choice([0, 1])
    kind = rng.choice(["ge", "ge", "eq", "eq", "truthy", "false"])
    return {"kind": kind, "k": rng.randint(0, max(1, hi))}, rng.choice([0, 1, 1, 1, 2, 3])


# ------------------------------------------------------------------------------------------------ generators
def gen_bounds(rng, d):
    if rng.random() < 0.5:
        return [[-3.0, 3.0] for _ in range(d)]
    out = []
    for _ in range(d):
        lo = rng.choice([-3.0, -2.0, -0.5, 0.0, 1.0])
        out.append([lo, lo + rng.choice([0.5, 1.0, 3.0, 6.0])])
    return out


def gen_points(rng, d, k):
    return [[rng.choice([-5.0, -3.0, -1.5, 0.0, 0.25, 1.0, 2.0, 3.0, 4.5, round(rng.uniform(-4, 4), 2)]) for _ in range(d)] for _ in range(k)]


def gen_case(rng, solver, big=False):
    d = rng.choice([1, 1, 2, 2, 3])
    spec = {"solver": solver, "d": d, "obj": gen_obj(rng, d), "minimize": rng.random() < 0.5,
            "seed": rng.randrange(10 ** 6)}
    mi_hi = 30 if big else 12
    if solver == "de":
        spec.update(bounds=gen_bounds(rng, d), population_size=rng.choice([1, 4, 4, 5, 6, 8]),
                    max_iter=rng.choice([0, 1, 2, 3] + list(range(3, mi_hi + 1))),
                    strategy=rng.choice(["rand/1", "best/1", "rand/2", "best/2", "Rand/1", "rand/3"]),
                    mutation=rng.choice([0.5, 0.8, 1.2]), crossover=rng.choice([0.1, 0.7, 1.0]),
                    tol=rng.choice([1e-8, 1e-8, 1e-8, 1e-8, 0.05, 0.3, 1.0, 20.0]),
                    init=(None if rng.random() < 0.6 else gen_points(rng, d, rng.choice([1, 2, 4, 9]))))
        spec["cb"], spec["interval"] = gen_cb(rng, spec["max_iter"])
    elif solver == "pso":
        spec.update(bounds=gen_bounds(rng, d), n_particles=rng.choice([0] + [1, 2, 3, 3, 4, 5, 5, 8] * 4),
                    max_iter=rng.choice([0, 1, 2, 3] + list(range(3, mi_hi + 4))),
                    inertia=rng.choice([0.4, 0.7, 1.0]), inertia_decay=rng.choice([None, None, 0.3]),
                    cognitive=rng.choice([0.5, 1.5, 2.5]), social=rng.choice([0.5, 1.5, 2.5]),
                    v_max=rng.choice([None, None, 0.5, 3.0]),
                    init=(None if rng.random() < 0.6 else gen_points(rng, d, rng.choice([1, 2, 4, 9]))))
        spec["cb"], spec["interval"] = gen_cb(rng, spec["max_iter"])
    elif solver == "nm":
        spec.update(x0=gen_points(rng, d, 1)[0], max_iter=rng.choice([0, 1, 2, 3] + list(range(3, 2 * mi_hi + 6))),
                    tol=rng.choice([0.0, 1e-6, 1e-6, 0.5, 1.0, 2.0, 3.5]), adaptive=rng.random() < 0.3,
                    initial_step=rng.choice([0.05, 0.5, 1.0, 1.0, 2.0]))
        spec["cb"], spec["interval"] = gen_cb(rng, min(spec["max_iter"], 12))
    elif solver == "bayes":
        spec.update(bounds=[[b[0], b[1]] for b in gen_bounds(rng, d)], n_initial=rng.choice([0] + [1, 2, 3, 3, 5] * 4),
                    max_iter=rng.choice([0, 1, 2, 3, 5, 6, 7, 8, 9, 10, 12, 12, 15] + ([20, 25] if big else [])),
                    acquisition=rng.choice(["ei", "ucb"]), kappa=rng.choice([0.5, 2.0]), acq_restarts=rng.choice([1, 2, 3]))
        spec["cb"], spec["interval"] = gen_cb(rng, spec["max_iter"])
    elif solver == "powell":
        spec["d"] = d = rng.choice([1, 1, 2, 2, 3])
        spec.update(x0=gen_points(rng, d, 1)[0], bounds=(None if rng.random() < 0.4 else gen_bounds(rng, d)),
                    max_iter=rng.choice([0, 1, 1, 2, 2, 3, 4, 6 if big else 3]), tol=rng.choice([1e-6, 1e-6, 0.3, 1.0]))
        spec["cb"], spec["interval"] = gen_cb(rng, spec["max_iter"])
    else:  # bfgs / lbfgs: gradient of a smooth bowl (need not be the gradient of the objective)
        spec.update(x0=gen_points(rng, d, 1)[0], max_iter=rng.choice([0, 1, 2, 3, 4, 5, 6, 8, 8, 12, 12]),
                    tol=rng.choice([1e-6, 1e-6, 1e-6, 1e-6, 0.5, 2.0, 8.0]),
                    grad={"c": [rng.choice([0.0, 0.5, -1.25, 2.0]) for _ in range(3)], "s": rng.choice([0.5, 1.0, 3.0]),
                          "kind": rng.choice(["bowl", "bowl", "const", "sin"])},
                    m=rng.choice([1, 2, 10]))
        spec["cb"], spec["interval"] = gen_cb(rng, spec["max_iter"])
    return spec


def make_grad(g):
    c, s = g["c"], g["s"]
    if g["kind"] == "bowl":
        return lambda x: [2 * s * (_safe(v) - c[i % 3]) for i, v in enumerate(x)]
    if g["kind"] == "const":
        return lambda x: [s for _ in x]
    return lambda x: [s * math.sin(_safe(v)) + 0.3 * (_safe(v) - c[i % 3]) for i, v in enumerate(x)]


# ------------------------------------------------------------------------------------------------ running
def _mod(name):
    return importlib.import_module(name)


def execute(spec, *, flip=False):
    """Run the implementation once.  flip=True runs the mirror problem: objective negated, minimize inverted.
    Returns {"status": ok|exc|hang, "res": (solution, objective, iterations, evaluations, status), "log": [...],
             "aux": recorded decisions, "cb_calls": [...]}"""
    solver = spec["solver"]
    ospec = dict(spec["obj"])
    minimize = spec["minimize"]
    if flip:
        ospec["neg"] = not ospec.get("neg", False)
        minimize = not minimize
    events = []
    rec = Rec(make_obj(ospec), events)
    calls = []
    cb = make_cb(spec.get("cb"), calls)
    interval = spec.get("interval", 0)
    aux = {}
    restore = []

    def patch(modname, attr, wrapper_of):
        m = _mod(modname)
        orig = getattr(m, attr)
        setattr(m, attr, wrapper_of(orig))
        restore.append((m, attr, orig))

    try:
        if solver == "de":
            bits = aux.setdefault("conv", [])

            def w(orig):
                def f(pop, tol):
                    r = orig(pop, tol)
                    bits.append(bool(r))
                    return r
                return f
            patch("solvor.differential_evolution", "_population_converged", w)
            fn = _mod("solvor.differential_evolution").differential_evolution
            out = guarded(fn, rec, [tuple(b) for b in spec["bounds"]], minimize=minimize, population_size=spec["population_size"],
                          mutation=spec["mutation"], crossover=spec["crossover"], strategy=spec["strategy"], max_iter=spec["max_iter"],
                          tol=spec["tol"], seed=spec["seed"], initial_population=spec["init"], on_progress=cb,
                          progress_interval=interval, timeout=10)
        elif solver == "pso":
            fn = _mod("solvor.particle_swarm").particle_swarm
            out = guarded(fn, rec, [tuple(b) for b in spec["bounds"]], minimize=minimize, n_particles=spec["n_particles"],
                          max_iter=spec["max_iter"], inertia=spec["inertia"], inertia_decay=spec["inertia_decay"],
                          cognitive=spec["cognitive"], social=spec["social"], v_max=spec["v_max"], seed=spec["seed"],
                          initial_positions=spec["init"], on_progress=cb, progress_interval=interval, timeout=10)
        elif solver == "nm":
            fn = _mod("solvor.nelder_mead").nelder_mead
            out = guarded(fn, rec, list(spec["x0"]), minimize=minimize, max_iter=spec["max_iter"], tol=spec["tol"],
                          adaptive=spec["adaptive"], initial_step=spec["initial_step"], on_progress=cb,
                          progress_interval=interval, timeout=10)
        elif solver == "bayes":
            fn = _mod("solvor.bayesian").bayesian_opt
            out = guarded(fn, rec, [tuple(b) for b in spec["bounds"]], minimize=minimize, max_iter=spec["max_iter"],
                          n_initial=spec["n_initial"], acquisition=spec["acquisition"], kappa=spec["kappa"],
                          acq_restarts=spec["acq_restarts"], seed=spec["seed"], on_progress=cb, progress_interval=interval,
                          timeout=20)
        elif solver == "powell":
            searches = aux.setdefault("searches", [])
            gold = []

            def wg(orig):       # _golden_section_search returns (x_min, f_min, evals + 1), evals = 2 + loop iterations
                def f(*a, **kw):
                    r = orig(*a, **kw)
                    gold.append(r[2] - 3)
                    return r
                return f

            def w(orig):
                def f(objective_fn, x, direction, sign, bounds=None):
                    n0, g0 = len(rec.log), len(gold)
                    x_in = list(x)
                    r = orig(objective_fn, x, direction, sign, bounds)
                    searches.append({"k": len(rec.log) - n0, "x_in": x_in, "x_out": list(r[0]), "f_out": r[1],
                                     "deg": len(gold) == g0, "m": gold[-1] if len(gold) > g0 else 0})
                    return r
                return f
            patch("solvor.powell", "_golden_section_search", wg)
            patch("solvor.powell", "_line_search", w)
            fn = _mod("solvor.powell").powell
            out = guarded(fn, rec, list(spec["x0"]), minimize=minimize, bounds=spec["bounds"], max_iter=spec["max_iter"],
                          tol=spec["tol"], on_progress=cb, progress_interval=interval, timeout=10)
        else:
            g0 = make_grad(spec["grad"])
            grads = aux.setdefault("grads", [])

            def grad_fn(x):
                g = g0(list(x))
                grads.append(list(g))
                events.append("g")
                return g
            m = _mod("solvor.bfgs")
            if solver == "bfgs":
                out = guarded(m.bfgs, grad_fn, list(spec["x0"]), minimize=minimize, objective_fn=rec, max_iter=spec["max_iter"],
                              tol=spec["tol"], on_progress=cb, progress_interval=interval, timeout=10)
            else:
                out = guarded(m.lbfgs, grad_fn, list(spec["x0"]), minimize=minimize, objective_fn=rec, m=spec["m"],
                              max_iter=spec["max_iter"], tol=spec["tol"], on_progress=cb, progress_interval=interval, timeout=10)
    finally:
        for m, attr, orig in restore:
            setattr(m, attr, orig)
    o = {"status": out[0], "log": rec.log, "aux": aux, "cb_calls": calls, "events": events, "minimize": minimize}
    if out[0] == "ok":
        r = out[1]
        obj = r.objective
        if isinstance(obj, float) and obj == int(obj):
            obj = int(obj)
        o["res"] = (list(r.solution), obj, int(r.iterations), int(r.evaluations), r.status.name)
    elif out[0] == "exc":
        o["exc"] = (out[1], out[2])
    return o


# ------------------------------------------------------------------------------------------------ oracle
def in_bounds(pt, bounds):
    return len(pt) == len(bounds) and all(lo <= v <= hi for v, (lo, hi) in zip(pt, bounds))


EXPECTED_ERRORS = {("bayes", "n_initial", 0): "ValueError", ("pso", "n_particles", 0): "ValueError"}


def expected_error(spec):
    for (s, k, v), e in EXPECTED_ERRORS.items():
        if spec["solver"] == s and spec.get(k) == v:
            return e
    return None


def oracle(spec, o, o2, om):
    """The property itself, judged on the recorded run o (o2 = same call again, om = mirror run).
    Returns a list of violated clauses (strings)."""
    solver = spec["solver"]
    bad = []
    ee = expected_error(spec)
    if o["status"] != "ok":
        if ee and o["status"] == "exc" and o["exc"][0] == ee:
            return bad          # documented input rejection (note in ctx.notes)
        return [f"{solver} did not return a Result: {o['status']} {o.get('exc', '')}"]
    if ee:
        return bad
    sol, obj, iters, evals, status = o["res"]
    log = o["log"]
    ospec = spec["obj"]
    f = make_obj(ospec)
    minimize = spec["minimize"]
    # returned objective == f(returned solution), user's sign
    fv = f(list(sol))
    if obj != fv or isinstance(obj, float):
        bad.append(f"best_is_f: objective {obj!r} != f(solution) = {fv!r} at solution {sol}")
    if solver in GROUP1:
        vals = [v for _, v in log]
        if vals:
            opt = min(vals) if minimize else max(vals)
            if (minimize and obj > opt) or (not minimize and obj < opt):
                k = vals.index(opt)
                bad.append(f"best_is_min: objective {obj} but evaluated point #{k} {log[k][0]} has value {opt}")
        if evals != len(log):
            bad.append(f"evals_count: evaluations={evals} but the objective was called {len(log)} times")
        if not any(pt == sol for pt, _ in log):
            bad.append(f"returned solution {sol} was never evaluated")
        if solver in BOUNDED:
            b = [tuple(x) for x in spec["bounds"]]
            if not in_bounds(sol, b):
                bad.append(f"in_bounds: solution {sol} outside {b}")
            for k, (pt, _) in enumerate(log):
                if not in_bounds(pt, b):
                    bad.append(f"in_bounds: evaluated point #{k} {pt} outside {b}")
                    break
        # the callback is shown the running best, in the user's sign
        seen = 0
        for (it, pobj, pbest, pev) in o["cb_calls"]:
            pre = [v for _, v in log[:pev]]
            if pre and pobj != (min(pre) if minimize else max(pre)) and solver != "nm":
                bad.append(f"progress at iteration {it}: objective {pobj} is not the best of the first {pev} evaluations")
                break
            seen += 1
        # mirror: maximise f == minimise -f (same seed): same point, negated objective
        if om is not None:
            if om["status"] != "ok":
                bad.append(f"mirror: run on the negated objective did not return: {om['status']} {om.get('exc', '')}")
            else:
                ms, mo, mi, me, mst = om["res"]
                if ms != sol or mo != -obj or mi != iters or me != evals or mst != status:
                    bad.append(f"mirror: minimize={minimize} gives {o['res']}, mirrored problem gives {om['res']}")
                elif [p for p, _ in om["log"]] != [p for p, _ in log] or [v for _, v in om["log"]] != [-v for _, v in log]:
                    bad.append("mirror: the mirrored run evaluated different points")
    # same seed / seedless deterministic solver twice -> identical result
    if o2 is not None:
        if o2["status"] != "ok" or o2["res"] != o["res"] or o2["log"] != log:
            bad.append(f"deterministic: second identical call gives {o2.get('res', o2['status'])} instead of {o['res']}")
    return bad


# ------------------------------------------------------------------------------------------------ Coq terms
def ids_of(o):
    sol = o["res"][0]
    return [k for k, (pt, _) in enumerate(o["log"]) if pt == sol]


def its_fun(its):
    return f"(fun it => existsb (Nat.eqb it) {clist(its, cnat)})"


def nth_fun(xs, default="0%nat"):
    return f"(fun j => nth j {clist(xs, cnat)} {default})"


def powell_oracles(spec, o):
    """Derive powell's float decisions from the recorded line searches (same formulas as the code)."""
    n = spec["d"]
    tol = spec["tol"]
    searches = o["aux"]["searches"]
    log = o["log"]
    conv, moved = [], []
    if not log:
        return [], [], []
    f_x = log[0][1]
    x = list(log[0][0])
    j = 0
    it = 0
    while it < spec["max_iter"]:
        if j + n > len(searches):
            break
        f_start, x_start = f_x, list(x)
        for _ in range(n):
            s = searches[j]
            j += 1
            x, f_x = s["x_out"], s["f_out"]
        if abs(f_start - f_x) < tol * (1 + abs(f_x)):
            conv.append(it)
            break
        disp = [x[i] - x_start[i] for i in range(n)]
        if math.sqrt(sum(q * q for q in disp)) > 1e-12:
            moved.append(it)
            if j >= len(searches):
                break
            s = searches[j]
            j += 1
            x, f_x = s["x_out"], s["f_out"]
        it += 1
    return [(s["deg"], s["m"]) for s in searches], conv, moved


def qn_oracles(spec, o):
    """conv(it) = grad_norm < tol from the recorded gradients; bt(it) = trial points of line search it from the
    recorded interleaving of gradient and objective calls."""
    grads = o["aux"]["grads"]
    tol = spec["tol"]
    conv = [it for it, g in enumerate(grads) if math.sqrt(sum(a * b for a, b in zip(g, g))) < tol]
    ev = o["events"]
    gpos = [k for k, e in enumerate(ev) if e == "g"]
    bt = []
    for it in range(len(gpos) - 1):
        nf = gpos[it + 1] - gpos[it] - 1
        bt.append(nf - 1 - (1 if it >= 1 else 0))
    return conv, bt


def coq_term(spec, o, early_best=True):
    """Boolean Coq term: the model, run on the recorded stream, reproduces the implementation's result."""
    solver = spec["solver"]
    vals = clist([v for _, v in o["log"]], cz)
    cb, interval = cb_term(spec.get("cb")), cnat(spec.get("interval", 0))
    mn = cbool(spec["minimize"])
    if solver == "de":
        conv = [k + 1 for k, b in enumerate(o["aux"]["conv"]) if b]
        run = f"de_run_st {mn} {cnat(spec['population_size'])} {cnat(spec['max_iter'])} {its_fun(conv)} {cb} {interval} {vals}"
    elif solver == "pso":
        run = f"pso_run_st {mn} {cnat(spec['n_particles'])} {cnat(spec['max_iter'])} {cb} {interval} {vals}"
    elif solver == "nm":
        run = f"nm_run_st {cbool(early_best)} {mn} {cnat(spec['d'])} {cnat(spec['max_iter'])} {cz(math.ceil(spec['tol']))} {cb} {interval} {vals}"
    elif solver == "bayes":
        run = f"bo_run_st {mn} {cnat(spec['n_initial'])} {cnat(spec['max_iter'])} {cb} {interval} {vals}"
    elif solver == "powell":
        ls, conv, moved = powell_oracles(spec, o)
        lsf = "(fun j => nth j " + clist(ls, lambda p: f"({cbool(p[0])}, {cnat(p[1])})") + " (true, 0%nat))"
        run = (f"powell_run_st {mn} {cnat(spec['d'])} {cnat(spec['max_iter'])} {lsf} {its_fun(conv)} {its_fun(moved)} "
               f"{cb} {interval} {vals}")
    else:
        conv, bt = qn_oracles(spec, o)
        name = "bfgs_run_st" if solver == "bfgs" else "lbfgs_run_st"
        run = f"{name} {cnat(spec['max_iter'])} {its_fun(conv)} {nth_fun(bt)} {cb} {interval} {vals}"
    if o["status"] != "ok":
        return f"run_is_error ({run})"
    sol, obj, iters, evals, status = o["res"]
    if not isinstance(obj, int):
        return "false"
    return f"run_matches ({run}) {clist(ids_of(o), cnat)} {cz(obj)} {cnat(iters)} {cnat(evals)} {status}"


def spec_term(spec, o):
    """Boolean Coq term: the Coq specification checker (sound by spec1_check_sound / spec2_check_sound) accepts the
    implementation's own output - independent of the bookkeeping machines."""
    if o["status"] != "ok":
        return None
    sol, obj, iters, evals, status = o["res"]
    if not isinstance(obj, int):
        return "false"
    vals = clist([v for _, v in o["log"]], cz)
    if spec["solver"] in GROUP1:
        return f"spec1_check {cbool(o['minimize'])} {vals} {clist(ids_of(o), cnat)} {cz(obj)} {cnat(evals)}"
    return f"spec2_check {vals} {clist(ids_of(o), cnat)} {cz(obj)}"


# ------------------------------------------------------------------------------------------------ one case
def nontrivial(spec, o):
    """A run is non-trivial when the best-so-far changed after the start phase AND a later evaluation was worse
    than the final best (so overwriting / stale bookkeeping would show), or for group 2 when >= 2 line searches ran."""
    if o["status"] != "ok":
        return False
    vals = [v if spec["minimize"] else -v for _, v in o["log"]]
    if spec["solver"] in GROUP2:
        return len(vals) >= 6
    if len(vals) < 4:
        return False
    n0 = {"de": max(spec.get("population_size", 0), 4), "pso": spec.get("n_particles", 0), "nm": spec["d"] + 1,
          "bayes": spec.get("n_initial", 0)}[spec["solver"]]
    if len(vals) <= n0 or n0 == 0:
        return False
    best0 = min(vals[:n0])
    best = min(vals)
    kbest = vals.index(best)
    return best < best0 and any(v > best for v in vals[kbest + 1:])


def work(spec):
    """Everything that touches the implementation for one case (runs in a forked worker)."""
    o = execute(spec)
    o2 = execute(spec)
    om = execute(spec, flip=True) if spec["solver"] in GROUP1 else None
    bad = oracle(spec, o, o2, om)
    try:
        term = coq_term(spec, o)
        term_m = coq_term({**spec, "minimize": not spec["minimize"]}, om) if om is not None else None
    except Exception as e:  # noqa: BLE001  (a derivation problem is reported, not swallowed)
        term, term_m = f"false (* term construction failed: {type(e).__name__} *)", None
    sterms = [t for t in (spec_term(spec, o), spec_term(spec, om) if om is not None else None) if t]
    return {"spec": spec, "bad": bad, "term": term, "term_m": term_m, "sterms": sterms, "res": o.get("res"), "status": o["status"],
            "exc": o.get("exc"), "nlog": len(o["log"]), "nontrivial": nontrivial(spec, o), "ncb": len(o["cb_calls"]),
            "values": [v for _, v in o["log"]][:40]}


def shrink(spec, still_bad):
    """Cheap input minimisation: lower max_iter / sizes while the same clause still fails."""
    cur = dict(spec)
    for key in ("max_iter", "population_size", "n_particles", "n_initial"):
        while key in cur and cur[key] > 1:
            t = dict(cur)
            t[key] = cur[key] - 1
            if t.get("cb") and t["cb"].get("k", 0) > t.get("max_iter", 10 ** 9):
                break
            if still_bad(t):
                cur = t
            else:
                break
    return cur


def _corpus():
    out = []
    d = VERIF / "corpus" / "C19"
    if d.exists():
        for f in sorted(d.glob("b_*.json")):
            o = json.loads(f.read_text())
            out.append((f.name, o["spec"], o.get("finding")))
    return out


QUICK = {"de": 160, "pso": 160, "nm": 240, "bayes": 60, "powell": 60, "bfgs": 80, "lbfgs": 80}
THOROUGH = {"de": 4500, "pso": 4500, "nm": 7500, "bayes": 1200, "powell": 1200, "bfgs": 2000, "lbfgs": 2000}


def run_part(ctx: Ctx):
    ctx.notes += [
        "C19-B objectives are integer-valued functions of the float point (plateaus, ties, jumps): comparisons on objective values are exact; rounding error of the point arithmetic is outside the theorems (points are opaque identities)",
        "C19-B oracles recorded from the run: DE _population_converged bits; on_progress answers; powell: per _line_search the bit alpha_min>=alpha_max and the number of golden-section iterations (bracket loop, golden loop and f_min = last call are modelled), conv/moved bits recomputed by the harness with the code's formulas; bfgs/lbfgs: grad_norm<tol bits from recorded gradients, number of backtracking trials from the recorded call interleaving",
        "C19-B in_bounds relies on lo <= random.uniform(lo,hi) <= hi (assumption about `random`, tested by the oracle on every evaluated point)",
        "C19-B seed reproducibility is a property of random.Random (trusted), tested by running every case twice",
        "C19-B input rejections (outside valid_input, not judged): bayesian_opt(n_initial=0) and particle_swarm(n_particles=0) raise ValueError from min() of an empty range; nelder_mead with len(x0)=0 not modelled",
    ]
    big = ctx.tier == "thorough"
    cases = []
    open_ids = {f.get("id") for f in ctx.open_findings()}
    for name, spec, finding in _corpus():
        if finding and finding in open_ids:
            # witness of a defect that is listed as an OPEN known finding: while it still reproduces it is reported as
            # KNOWN-FINDING; otherwise (fixed, or not listed) it is an ordinary corpus case judged by the oracle
            o = execute(spec)
            if o["status"] == "exc":
                ctx.evaluations += 1
                ctx.known_hit(finding, f"{name}: {spec['solver']} raises {o['exc'][0]}: {o['exc'][1]}")
                continue
        cases.append((name, spec))
    for solver in GROUP1 + GROUP2:
        n = ctx.budget(QUICK[solver], THOROUGH[solver])
        cases += [(None, gen_case(ctx.rng, solver, big)) for _ in range(n)]
    results = pmap(work, [s for _, s in cases], chunksize=4)

    terms, metas = [], []
    for (name, spec), r in zip(cases, results):
        solver = spec["solver"]
        ctx.evaluations += 3 if solver in GROUP1 else 2
        ctx.count("b_solver", solver)
        ctx.count(f"b_{solver}_status", r["res"][4] if r["res"] else (r["exc"][0] if r["exc"] else r["status"]))
        ctx.count(f"b_{solver}_evals", min(r["nlog"] // 10 * 10, 200))
        ctx.count("b_minimize", spec["minimize"])
        ctx.count("b_obj_kind", spec["obj"]["kind"])
        ctx.count("b_cb", (spec.get("cb") or {}).get("kind", "none"))
        ctx.count(f"b_{solver}_nontrivial", r["nontrivial"])
        if r["nontrivial"]:
            ctx.nontriv(("b", json.dumps(spec, sort_keys=True)))
        if solver == "nm" and len(ctx.samples) < 2 and r["nontrivial"]:
            ctx.sample({"spec": spec, "result": r["res"], "values": r["values"]}, 2)
        for b in r["bad"]:
            sp = spec
            clause = b.split(":")[0]
            if len(ctx.violations) < 3:
                sp = shrink(spec, lambda t: any(x.split(":")[0] == clause for x in work(t)["bad"]))
            ctx.violation(f"{solver}: {b}" if sp is spec else f"{solver}: {work(sp)['bad'][0]}", {"part": "b", "spec": sp})
        terms.append(r["term"])
        metas.append((spec, r, False))
        ctx.traces_validated += 1
        if r["term_m"] is not None:
            terms.append(r["term_m"])
            metas.append((spec, r, True))
            ctx.traces_validated += 1

    failing = ctx.coq_check("b_corr", IMPORTS, "bool", "fun b : bool => b", terms, shard=120)
    disagree = [metas[i] for i in failing]
    # the Coq specification (B_Spec.v) judges the implementation's outputs, independently of the machines
    sterms, smetas = [], []
    for (name, spec), r in zip(cases, results):
        for t in r["sterms"]:
            sterms.append(t)
            smetas.append((spec, r))
    sfail = ctx.coq_check("b_spec", IMPORTS, "bool", "fun b : bool => b", sterms, shard=300)
    for i in sfail[:3]:
        spec, r = smetas[i]
        if not r["bad"]:
            ctx.violation(f"{spec['solver']}: Coq spec_check rejects the implementation's result {r['res']}", {"part": "b", "spec": spec})
    if (disagree or ctx.broken) and not ctx.violations:
        _search(ctx, disagree)


def _search(ctx, disagree):
    """Model and implementation differ (or a proof broke) and the oracle found nothing: look harder."""
    solvers = sorted({m[0]["solver"] for m in disagree}) or list(GROUP1 + GROUP2)
    specs = []
    for m in disagree[:20]:
        for _ in range(15):     # neighbours of the disagreeing inputs
            t = dict(m[0])
            t["seed"] = ctx.rng.randrange(10 ** 6)
            t["minimize"] = ctx.rng.random() < 0.5
            if "max_iter" in t:
                t["max_iter"] = max(0, t["max_iter"] + ctx.rng.choice([-1, 0, 1, 3]))
            specs.append(t)
    per = 3000 // max(1, len(solvers))
    for s in solvers:
        specs += [gen_case(ctx.rng, s, True) for _ in range(per if s != "bayes" else per // 6)]
    for r in pmap(work, specs, chunksize=8):
        if r["bad"]:
            ctx.violation(f"{r['spec']['solver']}: {r['bad'][0]}", {"part": "b", "spec": r["spec"]})
            return
    for spec, r, mirrored in disagree[:2]:
        term = r["term_m"] if mirrored else r["term"]
        inner = term[term.index("(") + 1:]
        depth, end = 1, 0
        for k, ch in enumerate(inner):
            depth += ch == "("
            depth -= ch == ")"
            if depth == 0:
                end = k
                break
        model = ctx.coq_eval("b_show", IMPORTS, f"option_map fst ({inner[:end]})")
        ctx.violation(f"correspondence lemma b_corr: model SV.C19.B_* and {spec['solver']} differ (observable: returned identity, objective, iterations, evaluations, status)",
                      {"part": "b", "spec": spec, "mirrored": mirrored, "impl_result": r["res"], "impl_status": r["status"],
                       "model_result": model[-400:], "lemma": "Cases/C19/b_corr_*.v corr"}, no_input=True)


def replay(obj):
    spec = obj.get("spec")
    if not spec:
        print("replay names an unchecked obligation:", obj.get("unchecked") or obj.get("what"))
        return 1
    r = work(spec)
    print("spec:", json.dumps(spec))
    print("implementation:", r["status"], r["res"] or r["exc"], f"({r['nlog']} objective calls)")
    print("first values:", r["values"])
    print("oracle verdict:", r["bad"] or "ok")
    return 1 if r["bad"] else 0
