"""C17 - cutting-stock plans of solve_cg / solve_bp meet every demand; OPTIMAL is minimal.

Tie to /repo.  Small cutting-stock instances (<= 4 piece types, demands <= 6, width <= 12, integer sizes) and custom
column-generation instances (explicit column set, exact pricing over it) are solved by solvor.cg.solve_cg and
solvor.bp.solve_bp (working tree) with the master-LP / node-LP functions wrapped so that the final column pool, duals
and LP value are recorded.  The same inputs are run through the Gallina transliteration SV.C17.Cg / SV.C17.Bp inside
coqc (vm_compute, exact rationals, eps = 1e-9): status, objective, plan (ordered), iteration count, column pool are
compared exactly, duals / LP value within 1e-7 (`corr_*`); `eps0_*` checks that eps = 0 takes the same decisions;
`gate_*` evaluates the PROVED boolean gate `plan_ok` on the implementation's own plans; `cert_*` evaluates the PROVED
dual certificate (`dual_cert_check`: y >= 0, knapsack maximum of y over all fitting patterns <= 1, rolls <= ceil(y.d)) on
the model's final duals whenever the implementation says OPTIMAL.  Independently of Coq an exact optimum (BFS over
remaining-demand vectors with all maximal fitting patterns / all columns of the explicit set) judges every answer.
"""
from __future__ import annotations

import itertools
import json
import math
from fractions import Fraction

from harness.core import COQ, Ctx, VERIF, cbool, clist, cnat, cq, cz, guarded, pmap

ID = "C17"
ANCHORS = ["solvor/cg.py", "solvor/bp.py", "solvor/utils/pricing.py"]
IMPORTS = ("From Coq Require Import QArith.\nFrom SV Require Import C17.Cg C17.CgSpec C17.Bp C17.Corr.\n"
           "Open Scope Q_scope.")
TIMEOUT = 20
EPS = Fraction(1, 10 ** 9)


# ---------------------------------------------------------------------------------- exact oracle (independent)
def all_patterns(sizes, width):
    """Every non-negative integer vector a with sum(size_i * a_i) <= width (zero vector included)."""
    n = len(sizes)
    out = []

    def rec(i, rem, cur):
        if i == n:
            out.append(tuple(cur))
            return
        k = 0
        while k * sizes[i] <= rem:
            cur.append(k)
            rec(i + 1, rem - k * sizes[i], cur)
            cur.pop()
            k += 1

    rec(0, width, [])
    return out


def maximal_patterns(sizes, width):
    pats = all_patterns(sizes, width)
    mn = min(sizes) if sizes else 1
    return [p for p in pats if width - sum(s * a for s, a in zip(sizes, p)) < mn and any(p)]


_opt_cache: dict = {}


def exact_min(columns, demands):
    """Minimum number of columns (with repetition) from `columns` whose sum is >= demands componentwise; None if impossible.
    BFS over remaining-demand vectors (clamped at 0)."""
    key = (tuple(columns), tuple(demands))
    if key in _opt_cache:
        return _opt_cache[key]
    start = tuple(max(0, d) for d in demands)
    goal = tuple(0 for _ in demands)
    cols = [c for c in set(columns) if any(x > 0 for x in c)]
    seen = {start}
    frontier = [start]
    k = 0
    ans = None
    while frontier:
        if goal in seen:
            ans = k
            break
        nxt = []
        for st in frontier:
            for c in cols:
                ns = tuple(max(0, r - x) for r, x in zip(st, c))
                if ns not in seen:
                    seen.add(ns)
                    nxt.append(ns)
        frontier = nxt
        k += 1
    _opt_cache[key] = ans
    return ans


def judge(case, out):
    """The property itself.  Returns None if the answer obeys C17, else a description.  `out` is the canonical
    implementation outcome (see run_impl)."""
    if "fail" in out:
        if out["fail"] == "hang":
            return None  # termination / speed is not part of C17: counted, not judged
        if case["kind"] == "custom" and case["solver"] == "cg" and out.get("exc") == "OverflowError" and case["init_opt"] is None:
            # the initial columns cannot cover the demands (restricted master infeasible, no Farkas pricing): solve_cg's
            # custom mode raises from ceil(inf) instead of answering INFEASIBLE; no plan is presented, so C17 is silent
            return None
        return f"implementation raised {out.get('exc')}: {out.get('msg')}"
    if out.get("mutated"):
        return out["mutated"]
    st = out["status"]
    if st not in ("OPTIMAL", "FEASIBLE"):
        if st == "INFEASIBLE" and case["opt"] is not None and case["kind"] != "custom":
            # a cutting-stock instance always has a plan; INFEASIBLE is not a usable status so the clauses of C17 about
            # returned plans do not apply, but it is worth seeing in the histogram
            return None
        return None
    d = case["demands"]
    m = len(d)
    plan = out["plan"]
    if plan is None:
        return f"status {st} without a plan"
    total = 0
    prod = [0] * m
    for pat, cnt in plan:
        if len(pat) != m or any((not isinstance(a, int)) or a < 0 for a in pat):
            return f"pattern {pat} is not a non-negative integer vector of length {m}"
        if not isinstance(cnt, int) or cnt < 0:
            return f"count {cnt!r} of pattern {pat} is not a non-negative integer"
        if case["kind"] == "custom":
            if tuple(pat) not in set(map(tuple, case["columns"])) | set(map(tuple, case["init"])):
                return f"pattern {pat} is not a column of the explicit column set"
        elif sum(s * a for s, a in zip(case["sizes"], pat)) > case["width"]:
            return f"pattern {pat} does not fit in the roll width {case['width']}"
        total += cnt
        for i in range(m):
            prod[i] += cnt * pat[i]
    for i in range(m):
        if prod[i] < d[i]:
            return f"status {st} but demand {i} is missed: produced {prod[i]} < {d[i]}"
    if out["objective"] != total:
        return f"objective {out['objective']!r} is not the number of rolls used ({total})"
    opt = case["opt"]
    if opt is None:
        return "a covering plan was returned although the exact search says none exists (oracle bug?)"
    if total < opt:
        return f"objective {total} below the true minimum {opt} (oracle bug?)"
    if st == "OPTIMAL" and total != opt:
        return f"status OPTIMAL with {total} rolls, the true minimum is {opt}"
    return None


# ---------------------------------------------------------------------------------- generators
MAX_ITERS = [0, 1, 2, 30, None]


def gen_cs(rng, solver=None):
    n = rng.choice([1, 2, 2, 3, 3, 3, 4, 4])
    width = rng.choice([2, 3, 4, 5, 6, 7, 7, 8, 9, 9, 10, 11, 12, 12])
    style = rng.random()
    if style < 0.6:
        sizes = [rng.randint(1, width) for _ in range(n)]
    elif style < 0.8:   # large pieces: little room for combination, LP bound often fractional
        sizes = [rng.randint(max(1, width // 3), width) for _ in range(n)]
    else:               # duplicates of a size and near-divisors
        base = rng.randint(1, width)
        sizes = [rng.choice([base, max(1, width // 2), max(1, width // 3), rng.randint(1, width)]) for _ in range(n)]
    hi = rng.choice([1, 2, 3, 4, 6, 6])
    demands = [rng.randint(0, hi) for _ in range(n)]
    if rng.random() < 0.85 and not any(demands):
        demands[rng.randrange(n)] = rng.randint(1, hi)
    mi = rng.choice(MAX_ITERS)
    case = {"kind": "cs", "solver": solver or rng.choice(["cg", "bp"]), "sizes": sizes, "width": width, "demands": demands, "max_iter": mi}
    if case["solver"] == "bp":
        case["max_nodes"] = rng.choice([0, 1, 3, 20, 200, None])
        if mi is None:
            case["max_iter"] = rng.choice([30, 60, None])
    return case


def gen_custom(rng, solver=None):
    m = rng.choice([1, 2, 2, 3, 3])
    ncol = rng.randint(1, 6)
    cols = []
    for _ in range(4 * ncol):
        c = tuple(rng.choice([0, 0, 1, 1, 2, 3]) for _ in range(m))
        if any(c) and c not in cols and len(cols) < ncol:
            cols.append(c)
    if not cols:
        cols.append(tuple(1 for _ in range(m)))
    if rng.random() < 0.7:   # make covering possible: unit-ish columns for every row
        for i in range(m):
            if not any(c[i] for c in cols):
                cols.append(tuple(1 if k == i else 0 for k in range(m)))
    k0 = rng.randint(1, len(cols))
    init = cols[:k0] if rng.random() < 0.7 else rng.sample(cols, k0)
    demands = [rng.randint(0, 5) for _ in range(m)]
    if not any(demands):
        demands[rng.randrange(m)] = rng.randint(1, 5)
    if rng.random() < 0.85:   # the usual precondition of column generation: the initial restricted master is feasible
        for i in range(m):
            if demands[i] > 0 and not any(c[i] for c in init):
                cand = [c for c in cols if c[i] and c not in init]
                init = list(init) + [cand[0] if cand else tuple(1 if k == i else 0 for k in range(m))]
                if not cand:
                    cols.append(init[-1])
    case = {"kind": "custom", "solver": solver or rng.choice(["cg", "bp"]), "columns": [list(c) for c in cols], "init": [list(c) for c in init],
            "demands": demands, "max_iter": rng.choice(MAX_ITERS)}
    if case["solver"] == "bp":
        case["max_nodes"] = rng.choice([0, 1, 3, 20, 200, None])
        if case["max_iter"] is None:
            case["max_iter"] = rng.choice([30, 60, None])
    return case


EDGE_CASES = [
    {"kind": "cs", "solver": "cg", "sizes": [5, 4], "width": 9, "demands": [2, 2], "max_iter": 0},
    {"kind": "cs", "solver": "bp", "sizes": [5, 4], "width": 9, "demands": [2, 2], "max_iter": 0, "max_nodes": None},
    {"kind": "cs", "solver": "cg", "sizes": [3, 5], "width": 11, "demands": [5, 6], "max_iter": None},
    {"kind": "cs", "solver": "cg", "sizes": [1], "width": 12, "demands": [6], "max_iter": None},
    {"kind": "cs", "solver": "cg", "sizes": [7], "width": 7, "demands": [3], "max_iter": 1},
    {"kind": "cs", "solver": "cg", "sizes": [2, 3], "width": 6, "demands": [0, 0], "max_iter": None},
    {"kind": "cs", "solver": "bp", "sizes": [2, 3], "width": 6, "demands": [0, 0], "max_iter": None, "max_nodes": None},
    {"kind": "cs", "solver": "cg", "sizes": [2, 3], "width": 6, "demands": [0, 4], "max_iter": None},
    {"kind": "cs", "solver": "cg", "sizes": [], "width": 6, "demands": [], "max_iter": None},
    {"kind": "cs", "solver": "bp", "sizes": [4, 3], "width": 9, "demands": [1, 1], "max_iter": 30, "max_nodes": None},
    {"kind": "cs", "solver": "bp", "sizes": [8, 4, 6], "width": 12, "demands": [6, 6, 6], "max_iter": 30, "max_nodes": 50},
    {"kind": "custom", "solver": "cg", "columns": [[1, 0], [0, 1], [1, 1]], "init": [[1, 0], [0, 1]], "demands": [3, 3], "max_iter": None},
    {"kind": "custom", "solver": "cg", "columns": [[1, 0], [0, 1], [1, 1]], "init": [[1, 0], [0, 1]], "demands": [3, 3], "max_iter": 0},
    {"kind": "custom", "solver": "bp", "columns": [[1, 0], [0, 1], [1, 1]], "init": [[1, 0], [0, 1]], "demands": [3, 3], "max_iter": 30, "max_nodes": None},
    {"kind": "custom", "solver": "cg", "columns": [[2, 0], [0, 0]], "init": [[2, 0]], "demands": [1, 1], "max_iter": None},   # no covering plan
    {"kind": "custom", "solver": "bp", "columns": [[2, 0], [0, 0]], "init": [[2, 0]], "demands": [1, 1], "max_iter": 30, "max_nodes": None},
]


def with_opt(case):
    """Attach the exact optimum (oracle side)."""
    d = case["demands"]
    if "opt_known" in case:            # hardening families: the optimum is known by construction (no search at that size)
        case["opt"] = case["opt_known"]
        if case["kind"] == "custom":
            case["init_opt"] = case.get("init_opt_known", case["opt_known"])
        return case
    if case["kind"] == "custom":
        case["opt"] = exact_min([tuple(c) for c in case["columns"]] + [tuple(c) for c in case["init"]], d)
        case["init_opt"] = exact_min([tuple(c) for c in case["init"]], d)
    elif not d or not any(d):
        case["opt"] = 0
    else:
        case["opt"] = exact_min(maximal_patterns(case["sizes"], case["width"]), d)
    return case


# ---------------------------------------------------------------------------------- the custom pricing function
def make_pricing(columns):
    """Exact pricing over the explicit column set, tie-robust: the first column whose reduced cost 1 - y.c is smaller
    than the best so far by more than 1e-9.  The Gallina model has the same function (Cg.custom_pricing)."""
    cols = [tuple(c) for c in columns]

    def pricing(duals):
        best, best_rc = None, None
        for c in cols:
            rc = 1.0 - sum(y * a for y, a in zip(duals, c))
            if best is None or rc < best_rc - 1e-9:
                best, best_rc = c, rc
        if best is None:
            return None, 0.0
        return best, best_rc

    return pricing


def make_lazy_pricing(columns):
    """A valid but lazy pricing call-back: the FIRST column (in list order) with reduced cost < -1e-9, not the best one.  Column
    generation then needs about one iteration per column (work-volume family for the column-generation loops)."""
    cols = [tuple(c) for c in columns]

    def pricing(duals):
        for c in cols:
            rc = 1.0 - sum(y * a for y, a in zip(duals, c))
            if rc < -1e-9:
                return c, rc
        return None, 0.0

    return pricing


# ---------------------------------------------------------------------------------- implementation runs
def _canon_plan(sol):
    if sol is None:
        return None
    out = []
    for k, v in sol.items():
        kk = [int(a) if (isinstance(a, int) or (isinstance(a, float) and a == int(a))) else a for a in k]
        vv = int(v) if isinstance(v, int) or (isinstance(v, float) and v == int(v)) else v
        out.append([kk, vv])
    return out


def _canon_num(x):
    if isinstance(x, float) and math.isfinite(x) and x == int(x):
        return int(x)
    if isinstance(x, float) and not math.isfinite(x):
        return "inf" if x > 0 else "-inf"
    return x


def _fresh(x):
    """An int equal to x but a different object (ints >= 257 are not interned): `is` differs, `==` holds."""
    return int(str(int(x)))


def _seq(xs, how):
    xs = list(xs)
    if how == "tuple":
        return tuple(xs)
    if how == "float":      # class X: integral floats in place of ints, negative zero for 0
        return [float(x) if x else -0.0 for x in xs]
    if how == "range" and len(xs) >= 1 and all(b - a == xs[1] - xs[0] for a, b in zip(xs, xs[1:])) and (len(xs) == 1 or xs[1] != xs[0]):
        step = xs[1] - xs[0] if len(xs) > 1 else 1
        return range(xs[0], xs[-1] + (1 if step > 0 else -1), step)
    return xs


def build_call(case):
    """Arguments of the call in the form asked by case['form'] (hardening classes L / I / A):
       demands: 'list' | 'tuple' | 'range' (when arithmetic);  sizes: 'list' | 'tuple' | 'float' (integer-valued floats, width too);
       init: 'tuples' | 'lists' | 'tuple_of_lists';  fresh: pricing returns a freshly built tuple of freshly built ints on every call.
    Returns (demands object, kwargs, snapshot) where snapshot() describes any modification of the caller's objects."""
    import copy

    form = case.get("form") or {}
    kw = {}
    if case["max_iter"] is not None:
        kw["max_iter"] = case["max_iter"]
    for opt in ("eps", "gap_tol"):
        if form.get(opt) is not None:
            kw[opt] = form[opt]
    dem = [_fresh(d) for d in case["demands"]] if form.get("fresh") else list(case["demands"])
    dem = _seq(dem, form.get("demands", "list"))
    held = {"demands": dem}
    if case["kind"] == "cs":
        sizes, width = list(case["sizes"]), case["width"]
        if form.get("sizes") == "float":
            sizes, width = [float(x) for x in sizes], float(width)
        elif form.get("fresh"):
            sizes, width = [_fresh(x) for x in sizes], _fresh(width)
        sizes = _seq(sizes, "tuple" if form.get("sizes") == "tuple" else "list")
        kw.update(roll_width=width, piece_sizes=sizes)
        held["piece_sizes"] = sizes
    else:
        cols = [tuple(c) for c in case["columns"]]
        base = make_lazy_pricing(cols) if form.get("pricing") == "lazy" else make_pricing(cols)
        if form.get("fresh"):
            def pricing(duals, _b=base):
                c, rc = _b(duals)
                return (None if c is None else tuple(_fresh(a) for a in c)), rc
        else:
            pricing = base
        how = form.get("init", "tuples")
        if how == "lists":
            init = [list(c) for c in case["init"]]
        elif how == "tuple_of_lists":
            init = tuple(list(c) for c in case["init"])
        else:
            init = [tuple(c) for c in case["init"]]
        if form.get("fresh"):
            init = type(init)(type(c)(_fresh(a) for a in c) for c in init)
        if form.get("entries") == "float":
            init = type(init)(type(c)(float(a) for a in c) for c in init)
        kw.update(pricing_fn=pricing, initial_columns=init)
        held["initial_columns"] = init
    if form.get("cb") is not None:     # progress call-back: "never" stops nothing (returns a truthy non-True value), k stops at its k-th call
        calls = {"n": 0}

        def on_progress(p, _c=calls, _k=form["cb"]):
            _c["n"] += 1
            if _k == "never":
                return 1
            return _c["n"] >= _k

        kw.update(on_progress=on_progress, progress_interval=form.get("interval", 1))
    before = copy.deepcopy({k: (list(v) if isinstance(v, range) else v) for k, v in held.items()})

    def snapshot():
        now = {k: (list(v) if isinstance(v, range) else v) for k, v in held.items()}
        bad = [k for k in now if now[k] != before[k] or type(now[k]) is not type(before[k])]
        return f"the caller's {', '.join(bad)} was modified by the call" if bad else None

    return dem, kw, snapshot


def run_impl(case):
    """Run solve_cg / solve_bp on the case; returns the canonical outcome dict, with the recorded LP trace."""
    import solvor.bp as bp
    import solvor.cg as cg

    import solvor.utils.pricing as pr

    demands_obj, kw, snapshot = build_call(case)
    rec = {"lp": [], "node": []}
    tmo = case.get("timeout", TIMEOUT)
    work = None
    restore = []
    if case.get("work"):     # work-volume counters (class W): pivots per simplex_phase call, knapsack table cells, pricing calls
        work = {"max_pivots_per_phase": 0, "pivots": 0, "knapsack_cells": 0, "pricing_calls": 0, "_cur": 0}
        o_piv, o_phase, o_knap_cg, o_knap_bp = getattr(pr, "_pivot", None), pr.simplex_phase, cg.knapsack_pricing, bp.knapsack_pricing

        def piv(*a):
            work["_cur"] += 1
            work["pivots"] += 1
            return o_piv(*a)

        def phase(*a, **k):
            work["_cur"] = 0
            try:
                return o_phase(*a, **k)
            finally:
                work["max_pivots_per_phase"] = max(work["max_pivots_per_phase"], work["_cur"])

        def knap(sizes, capacity, values, eps, _o=o_knap_cg):
            work["pricing_calls"] += 1
            work["knapsack_cells"] = max(work["knapsack_cells"], int(capacity * 100) + 1)
            return _o(sizes, capacity, values, eps)

        cg.simplex_phase, bp.simplex_phase, cg.knapsack_pricing, bp.knapsack_pricing = phase, phase, knap, knap
        restore = [(cg, "simplex_phase", o_phase), (bp, "simplex_phase", o_phase),
                   (cg, "knapsack_pricing", o_knap_cg), (bp, "knapsack_pricing", o_knap_bp)]
        if o_piv is not None:  # the pivot counter is an observation (work-volume histogram); a tree without the private helper is still judged
            pr._pivot = piv
            restore.append((pr, "_pivot", o_piv))
    if case["solver"] == "cg":
        orig = cg._solve_master_lp

        def wrapped(columns, demands, eps):
            r = orig(columns, demands, eps)
            rec["lp"].append(([list(c) for c in columns], r))
            return r

        cg._solve_master_lp = wrapped
        try:
            res = guarded(cg.solve_cg, demands_obj, timeout=tmo, **kw)
        finally:
            cg._solve_master_lp = orig
    else:
        if case.get("max_nodes") is not None:
            kw["max_nodes"] = case["max_nodes"]
        orig = bp._solve_node_lp

        def wrapped_node(columns, column_set, demands, col_bounds, pricing_fn, is_cs, max_iter, eps):
            r = orig(columns, column_set, demands, col_bounds, pricing_fn, is_cs, max_iter, eps)
            if not rec["node"]:
                rec["node"].append(([list(c) for c in columns], r, dict(col_bounds)))
            rec["nodes"] = rec.get("nodes", 0) + 1
            return r

        bp._solve_node_lp = wrapped_node
        try:
            res = guarded(bp.solve_bp, demands_obj, timeout=tmo, **kw)
        finally:
            bp._solve_node_lp = orig
    for mod, name, o in restore:
        setattr(mod, name, o)
    if res[0] == "hang":
        return {"fail": "hang"}
    if res[0] == "exc":
        return {"fail": "exc", "exc": res[1], "msg": res[2]}
    r = res[1]
    mutated = snapshot()
    out = {"status": r.status.name, "objective": _canon_num(r.objective), "plan": _canon_plan(r.solution),
           "iterations": int(r.iterations), "evaluations": int(r.evaluations)}
    if mutated:
        out["mutated"] = mutated
    if work is not None:
        work.pop("_cur")
        out["work"] = work
    if rec["lp"]:
        cols, (x, y, obj) = rec["lp"][-1]
        out["pool"] = cols
        out["x"] = [float(v) for v in x]
        out["duals"] = [float(v) for v in y]
        out["lp_obj"] = _canon_num(float(obj))
        out["lp_calls"] = len(rec["lp"])
    if rec["node"]:
        cols, (x, obj, iters, conv), cb = rec["node"][0]
        out["root_pool"] = cols
        out["root_x"] = [float(v) for v in x]
        out["root_obj"] = _canon_num(float(obj))
        out["root_iters"] = int(iters)
        out["root_converged"] = bool(conv)
        out["node_calls"] = rec.get("nodes", 0)
    return out


def _work(case):
    from harness.core import use_repo

    use_repo()
    case = with_opt(dict(case))
    out = run_impl(case)
    return case, out, judge(case, out)


# ---------------------------------------------------------------------------------- Coq terms
STATUS = {"OPTIMAL": "OPTIMAL", "FEASIBLE": "FEASIBLE", "INFEASIBLE": "INFEASIBLE"}


def _fq(x):
    """float -> Q literal (12 decimals are plenty for a 1e-7 comparison)."""
    return cq(Fraction(round(float(x), 12)).limit_denominator(10 ** 12))


def _olp(v):
    return "None" if v in ("inf", "-inf") else f"(Some {_fq(v)})"


def _pat(p):
    return clist(p, cz)


def _plan(pl):
    return clist(pl, lambda pc: f"({_pat(pc[0])}, {cz(pc[1])})")


def _mi(case):
    return cnat(1000 if case["max_iter"] is None else case["max_iter"])


def coq_input(case):
    if case["kind"] == "cs":
        return f"InCs {clist(case['sizes'], cz)} {cz(case['width'])} {clist(case['demands'], cz)} {_mi(case)}"
    return (f"InCustom {clist(case['columns'], _pat)} {clist(case['init'], _pat)} {clist(case['demands'], cz)} {_mi(case)}")


def _encodable(case, out):
    """Outcomes the observation types can express (anything else is judged by the oracle only)."""
    if "fail" in out:
        return out["fail"] == "exc" and out.get("exc") in ("OverflowError", "ValueError")
    if out["status"] not in STATUS:
        return False
    if out["plan"] is not None:
        for p, c in out["plan"]:
            if not all(isinstance(a, int) for a in p) or not isinstance(c, int):
                return False
    return isinstance(out["objective"], int) or out["objective"] == "inf"


def coq_case_cg(case, out):
    if "fail" in out:
        obs = "ObsOverflow" if out["exc"] == "OverflowError" else "ObsInvalid"
    else:
        pool = out.get("pool", [])
        obs = (f"ObsDone {STATUS[out['status']]} {cz(out['objective'])} {_plan(out['plan'])} {cnat(out['iterations'])} "
               f"{clist(pool, _pat)} {clist(out.get('duals', []), _fq)} {_olp(out.get('lp_obj', 0))}")
    return f"({coq_input(case)}, {obs})"


def coq_case_bp(case, out):
    if "fail" in out:
        return f"({coq_input(case)}, BInvalid)"
    sol = "None" if out["plan"] is None else f"(Some {_plan(out['plan'])})"
    obj = "None" if out["objective"] == "inf" else f"(Some {cz(out['objective'])})"
    if "root_pool" in out:
        root = (f"(Some ({clist(out['root_pool'], _pat)}, {clist(out['root_x'], _fq)}, {_olp(out['root_obj'])}, "
                f"{cnat(out['root_iters'])}, {cbool(out['root_converged'])}))")
    else:
        root = "None"
    return (f"({coq_input(case)}, BAns (mkBO {STATUS[out['status']]} {sol} {obj} {cnat(out['iterations'])} {cnat(out['evaluations'])} "
            f"{root} {cnat(out.get('node_calls', 0))}))")


# ---------------------------------------------------------------------------------- shrinking
def _bad(case):
    c, out, bad = _work(case)
    return bad


def shrink(case):
    """Greedy: drop a piece type / column, lower a demand, lower the width, while the oracle still complains."""
    cur = dict(case)
    changed = "opt_known" not in case    # an optimum known by construction does not survive shrinking
    while changed:
        changed = False
        cands = []
        m = len(cur["demands"])
        for i in range(m):
            if cur["demands"][i] > 0:
                d = list(cur["demands"]); d[i] -= 1
                cands.append({**cur, "demands": d})
            if m > 1:
                c2 = {**cur, "demands": cur["demands"][:i] + cur["demands"][i + 1:]}
                if cur["kind"] == "cs":
                    c2["sizes"] = cur["sizes"][:i] + cur["sizes"][i + 1:]
                else:
                    c2["columns"] = [c[:i] + c[i + 1:] for c in cur["columns"]]
                    c2["init"] = [c[:i] + c[i + 1:] for c in cur["init"]]
                cands.append(c2)
        if cur["kind"] == "cs" and cur["width"] > max(cur["sizes"], default=1):
            cands.append({**cur, "width": cur["width"] - 1})
        if cur["kind"] == "custom":
            for k in range(len(cur["columns"])):
                if cur["columns"][k] not in cur["init"] and len(cur["columns"]) > 1:
                    cands.append({**cur, "columns": cur["columns"][:k] + cur["columns"][k + 1:]})
        for c2 in cands:
            c2 = {k: v for k, v in c2.items() if k not in ("opt", "init_opt")}
            try:
                if _bad(c2):
                    cur = c2
                    changed = True
                    break
            except Exception:  # noqa: BLE001
                continue
    return {k: v for k, v in cur.items() if k not in ("opt", "init_opt")}


def _corpus():
    out = []
    d = VERIF / "corpus" / "C17"
    if d.exists():
        for f in sorted(d.glob("*.json")):
            o = json.loads(f.read_text())
            if o.get("outside_quantifier"):
                continue   # documented behaviour outside C17's quantifier: kept for the record, not judged
            for c in (o["cases"] if "cases" in o else [o]):
                out.append({k: v for k, v in c.items() if k in ("kind", "solver", "sizes", "width", "demands", "max_iter", "max_nodes", "columns", "init", "form", "opt_known", "init_opt_known", "no_coq", "family", "work", "timeout")})
    return out


# ---------------------------------------------------------------------------------- the check
def _strip_case(case):
    return {k: v for k, v in case.items() if k not in ("opt", "init_opt")}


def _nontrivial(case, out):
    """Non-trivial: the run generated at least one column beyond the initial ones, or ended FEASIBLE above the LP bound,
    or (bp) entered the tree."""
    if "fail" in out:
        return False
    if case["solver"] == "cg":
        return out.get("iterations", 0) >= 1 or out["status"] == "FEASIBLE"
    return out.get("evaluations", 0) >= 1 or out.get("node_calls", 0) >= 2 or out["status"] == "FEASIBLE"


def run(ctx: Ctx):
    ctx.rule = ("cutting-stock instances with 1..4 piece types, width 2..12, integer sizes 1..width (duplicates, near-divisors), demands 0..6 "
                "(zeros, all-zero, empty), and custom instances (1..3 rows, explicit set of <= 9 columns with entries 0..3, exact pricing over the set, "
                "initial columns a subset); both solvers; max_iter in {0,1,2,30,default}, bp max_nodes in {0,1,3,20,200,default}; non-trivial = the run "
                "priced in >= 1 new column, or ended FEASIBLE, or (bp) explored the tree; distinct = canonical JSON of the input.  Round-2 families "
                "(harness/props/C17_hard.py): duplicate columns in initial_columns; argument forms (tuple / range / tuple of lists, integer-valued float "
                "sizes, fresh equal ints >= 257 and fresh tuples from the pricing call-back); demands up to 2^53-1 and 17..65 piece types / width up to "
                "2049 / 17..33 rows with the optimum known by construction (zero-waste patterns: area bound attained); sweeps max_iter 0..40,999..1001, "
                "max_nodes 0..12,9999..10001; eps, gap_tol, progress call-backs; call sequences on shared argument objects; event-directed search "
                "over solve_bp's internals")
    ctx.proof_step(["C17"])
    if (COQ / "Props" / "C17_deep.v").exists():
        ctx.proof_step(["C17"], props_file="Props/C17_deep.v")
    if (COQ / "Props" / "C17_deep2.v").exists(): ctx.proof_step(["C17"], props_file="Props/C17_deep2.v")  # noqa: E701
    ctx.notes += [
        "floats are idealised as exact rationals: the models run in Q with eps = 1e-9; status, objective, plan (ordered), iteration count and "
        "column pool are compared exactly, duals / LP value / root x within 1e-7; cases on which the model run with eps = 0, 1e-9, 1e-7 does not "
        "take identical decisions are near-threshold: skipped in the correspondence and counted (histogram 'near_threshold')",
        "solve_bp: only the root node (column generation, integrality test, rounding incumbent, status rule against ceil(root LP)) is modelled; "
        "for answers produced by the tree search the correspondence is limited to: root pool / x / LP value / converged flag, status OPTIMAL iff "
        "proven(objective) w.r.t. the model's root bound, objective <= rounded incumbent; the bounded master LP with column bounds is unmodelled",
        "optimality goes through a per-run dual certificate (dual_cert_check / dual_cert_custom, proved sound: C17_dual_cert_sound, "
        "C17_certified_min) evaluated inside coqc on the model's final duals (solve_bp: the root duals) for every OPTIMAL answer of the "
        "implementation, together with the proved gate on the implementation's plan; soundness of the master simplex itself is not proved "
        "(C17_optimal_sound_full_statement); knapsack exactness (C17_pricing_exact) is for eps = 0",
        "quantifier: integer sizes only (non-multiples of 0.01 break knapsack_pricing's x100 scaling: outside C17, not generated)",
        "custom mode: columns are non-negative integer vectors (set covering); _solve_custom does not verify demands, a column with a negative "
        "entry can yield an OPTIMAL plan that misses a demand (corpus/C17/custom_negative_column_outside_quantifier.json) - outside the quantifier",
        "magnitudes: the judged families keep the objective <= 2^20 (demands up to ~10^6; property quantifier: demands small enough for an exact "
        "optimum); cases with a demand above 2*10^6 or an optimum above 2^20 (float tableau, absolute eps = 1e-9) are observation-only: run, "
        "classified in histogram 'observed_large_magnitude', never judged",
        "a run that exceeds the 20 s guard is skipped and counted (histogram 'hang'): termination / speed is not part of C17",
        "solve_cg custom mode with initial columns that cannot cover the demands raises OverflowError (ceil(inf)); tolerated, counted",
    ]
    n_cs = ctx.budget(900, 9000)
    n_cu = ctx.budget(400, 4000)
    cases = _corpus() + [dict(e) for e in EDGE_CASES]
    cases += [gen_cs(ctx.rng) for _ in range(n_cs)] + [gen_custom(ctx.rng) for _ in range(n_cu)]
    from harness.props import C17_hard   # round-2 hardening families (labels, iterables, sizes, magnitudes, option sweeps, duplicates)
    cases += C17_hard.extra_cases(ctx)
    results = pmap(_work, cases)

    cg_cases, cg_meta, bp_cases, bp_meta = [], [], [], []
    for case, out, bad in results:
        ctx.evaluations += 1
        tag = f"{case['kind']}/{case['solver']}"
        ctx.count("mode", tag)
        ctx.count("status " + tag, out.get("status", out.get("exc", out.get("fail"))))
        ctx.count("max_iter", "default" if case["max_iter"] is None else case["max_iter"])
        ctx.count("n_types", len(case["demands"]))
        if case["solver"] == "bp":
            ctx.count("max_nodes", "default" if case.get("max_nodes") is None else case["max_nodes"])
        if out.get("fail") == "hang":
            ctx.count("hang", tag)
            continue
        if case["kind"] == "cs" and out.get("status") == "INFEASIBLE" and case.get("opt") is not None:
            ctx.count("infeasible_though_feasible", f"max demand ~1e{len(str(max(case['demands']))) - 1}")
        if "status" in out and out["status"] in ("OPTIMAL", "FEASIBLE") and case["opt"] is not None:
            ctx.count("gap " + tag, f"{out['status']}+{out['objective'] - case['opt'] if isinstance(out['objective'], int) else '?'}")
        if case.get("observe_only"):
            # beyond the judged magnitudes (objective > 2^20: float tableau with an absolute eps) - observed, never judged
            if "fail" in out:
                kind = "exception " + str(out.get("exc"))
            elif out["status"] == "INFEASIBLE":
                kind = "INFEASIBLE though feasible"
            elif bad:
                kind = f"{out['status']}: " + ("above the minimum" if "true minimum" in bad else "other deviation")
            else:
                kind = f"{out['status']}: obeys C17"
            ctx.count("observed_large_magnitude", kind)
            ctx.count("observation_only", "demands beyond the judged magnitudes (float tableau)")
            continue
        if bad:
            small = shrink(case)
            c2, o2, b2 = _work(small)
            if not b2:
                c2, o2, b2 = case, out, bad
            ctx.violation(f"solve_{case['solver']}: {b2}", {"case": {k: v for k, v in c2.items() if k not in ("opt", "init_opt")},
                                                            "impl": o2, "exact_minimum": c2.get("opt")})
            continue
        if _nontrivial(case, out):
            ctx.nontriv(json.dumps({k: v for k, v in case.items() if k not in ("opt", "init_opt")}, sort_keys=True))
        ctx.sample({"input": {k: v for k, v in case.items() if k != "init_opt"},
                    "impl": {k: out.get(k) for k in ("status", "objective", "plan", "iterations")}}, 4)
        if case.get("family"):
            ctx.count("hard_family", case["family"])
        if out.get("work"):
            wk = dict(out["work"], cg_iterations=out.get("evaluations", 0) if case["solver"] == "bp" else out.get("iterations", 0),
                      bb_nodes=out.get("iterations", 0) if case["solver"] == "bp" else 0)
            mx = ctx.extra.setdefault("work_volume_max", {})
            for k2, v2 in wk.items():
                mx[k2] = max(mx.get(k2, 0), v2)
        if case.get("no_coq"):
            ctx.count("oracle_only", case.get("family", tag))
            continue
        if not _encodable(case, out):
            ctx.count("not_encodable", tag)
            continue
        if case["solver"] == "cg":
            cg_cases.append(coq_case_cg(case, out)); cg_meta.append((case, out))
        else:
            bp_cases.append(coq_case_bp(case, out)); bp_meta.append((case, out))
        ctx.traces_validated += 1

    def family(name, ctype, cases_, meta, chk_corr, chk_stable, chk_gate, chk_cert):
        unstable = set(ctx.coq_check(f"stable_{name}", IMPORTS, ctype, chk_stable, cases_, shard=80))
        ctx.count("near_threshold", name, len(unstable))
        if unstable:
            # a near-threshold case is not a failure of anything: undo the "undischarged" bookkeeping is not possible, so note it
            ctx.notes.append(f"{len(unstable)} {name} case(s) near a threshold (eps = 0 / 1e-9 / 1e-7 decide differently), e.g. {meta[min(unstable)][0]}")
        corr = [i for i in ctx.coq_check(f"corr_{name}", IMPORTS, ctype, chk_corr, cases_, shard=80) if i not in unstable]
        gate = ctx.coq_check(f"gate_{name}", IMPORTS, ctype, chk_gate, cases_, shard=150)
        cert = [i for i in ctx.coq_check(f"cert_{name}", IMPORTS, ctype, chk_cert, cases_, shard=80) if i not in unstable]
        return corr, gate, cert

    cg_corr, cg_gate, cg_cert = family("cg", "cg_case", cg_cases, cg_meta, "corr_cg", "stable_cg", "gate_cg", "cert_cg")
    # hypothesis of C17_optimal_partial_eps0 (y >= 0 and lp_obj <= y.d on the eps = 0 model run), cutting-stock cases
    cg_cert = sorted(set(cg_cert) | set(ctx.coq_check("residue_cg", IMPORTS, "cg_case", "residue_cg", cg_cases, shard=150)))
    bp_corr, bp_gate, bp_cert = family("bp", "bp_case", bp_cases, bp_meta, "corr_bp", "stable_bp", "gate_bp", "cert_bp")

    disagree = [("corr_cg", cg_meta[i]) for i in cg_corr] + [("corr_bp", bp_meta[i]) for i in bp_corr]
    gatebad = [("gate_cg", cg_meta[i]) for i in cg_gate] + [("gate_bp", bp_meta[i]) for i in bp_gate]
    certbad = [("cert_cg", cg_meta[i]) for i in cg_cert] + [("cert_bp", bp_meta[i]) for i in bp_cert]

    # ---- something no longer checks but the oracle found no failing input: search harder, then report
    if (disagree or gatebad or certbad or ctx.broken) and not ctx.violations:
        found = False
        base = [m[0] for _, m in (disagree + gatebad + certbad)[:20]]
        extra = []
        for b in base:
            b = {k: v for k, v in b.items() if k not in ("opt", "init_opt")}
            for mi in MAX_ITERS:
                for solver in ("cg", "bp"):
                    e = {**b, "max_iter": mi if not (solver == "bp" and mi is None) else 60, "solver": solver}
                    if solver == "bp":
                        e.setdefault("max_nodes", 200)
                    extra.append(e)
            for i in range(len(b["demands"])):
                for dv in (-1, 1):
                    d = list(b["demands"]); d[i] = max(0, min(6, d[i] + dv))
                    extra.append({**b, "demands": d})
        search = extra + [gen_cs(ctx.rng) for _ in range(ctx.budget(4000, 20000))] + [gen_custom(ctx.rng) for _ in range(ctx.budget(1500, 6000))]
        for case, out, bad in pmap(_work, search):
            if bad:
                small = shrink(case)
                c2, o2, b2 = _work(small)
                if not b2:
                    c2, o2, b2 = case, out, bad
                ctx.violation(f"solve_{case['solver']}: {b2}", {"case": {k: v for k, v in c2.items() if k not in ("opt", "init_opt")},
                                                                "impl": o2, "exact_minimum": c2.get("opt")})
                found = True
                break
        if not found:
            for lemma, (case, out) in disagree[:1]:
                term = ("run_cg eps_default (" if case["solver"] == "cg" else "run_bp eps_default (") + coq_input(case) + ")"
                model = ctx.coq_eval("corr_show", IMPORTS, term)
                ctx.violation(f"correspondence lemma {lemma}: the Gallina model (SV.C17.Cg / SV.C17.Bp) and the implementation differ "
                              "(status / objective / plan / iterations / column pool / duals / LP value)",
                              {"case": {k: v for k, v in case.items() if k not in ("opt", "init_opt")}, "impl": out, "model": model[-1500:],
                               "lemma": f"Cases/C17/{lemma}_*.v corr"}, no_input=True)
            for lemma, (case, out) in gatebad[:1]:
                ctx.violation(f"gate lemma {lemma}: the proved boolean gate plan_ok rejects the implementation's plan",
                              {"case": {k: v for k, v in case.items() if k not in ("opt", "init_opt")}, "impl": out, "lemma": f"Cases/C17/{lemma}_*.v corr"}, no_input=True)
            for lemma, (case, out) in certbad[:1]:
                ctx.violation(f"certificate lemma {lemma}: the implementation says OPTIMAL but the proved dual certificate fails on the model's final duals",
                              {"case": {k: v for k, v in case.items() if k not in ("opt", "init_opt")}, "impl": out, "lemma": f"Cases/C17/{lemma}_*.v corr"}, no_input=True)
    C17_hard.run_part(ctx)   # call sequences / aliasing, unmodelled options (eps, gap_tol, call-backs), event-directed search
    if (COQ / "C17" / "DeepBpTreeCorr.v").exists(): from harness.props import C17_deep; C17_deep.run_part(ctx)  # noqa: E701,E702  whole-tree model of solve_bp


def replay(obj):
    from harness.core import use_repo

    use_repo()
    case = obj.get("case")
    if not case:
        print("replay names an unchecked obligation:", obj.get("unchecked") or obj.get("what"))
        return 1
    c, out, bad = _work(case)
    print("call:", {k: v for k, v in c.items() if k not in ("opt", "init_opt")})
    print("implementation:", {k: out.get(k) for k in ("status", "objective", "plan", "iterations", "fail", "exc", "msg")})
    print("exact minimum:", c.get("opt"))
    print("verdict:", bad or "ok")
    return 1 if bad else 0
