"""C17 - cutting-stock plans of solve_cg / solve_bp meet every demand; OPTIMAL is minimal.

Tie to /repo.  Small cutting-stock instances (<= 4 piece types, demands <= 6, width <= 12, integer sizes) and custom
column-generation instances (explicit column set, exact pricing over it) are solved by solvor.cg.solve_cg and
solvor.bp.solve_bp (working tree) with the master-LP / node-LP functions wrapped so that the final column pool, duals
and LP value are recorded.  The same inputs are run through the Gallina transliteration SV.C17.Cg / SV.C17.Bp inside
coqc (vm_compute, exact rationals, eps = 1e-9): status, objective, plan (ordered), iteration count, column pool are
compared exactly, duals / LP value within 1e-7 (`corr_*`); `eps0_*` checks that eps = 0 takes the same decisions;
`gate_*` evaluates the PROVED boolean gate `plan_ok` on the implementation's own plans; `cert_*` evaluates the PROVED
dual certificate (`dual_cert_check`: y >= 0, knapsack maximum of y over all fitting patterns <= 1, rolls <= ceil(y.d)) on
the model's final duals whenever the implementation says OPTIMAL.  Independently of Coq an exact optimum (BFS over
remaining-demand vectors with all maximal fitting patterns / all columns of the explicit set) judges every answer.
"""
from __future__ import annotations

import itertools
import json
import math
from fractions import Fraction

from harness.core import Ctx, VERIF, cbool, clist, cnat, cq, cz, guarded, pmap

ID = "C17"
ANCHORS = ["solvor/cg.py", "solvor/bp.py", "solvor/utils/pricing.py"]
IMPORTS = ("From Coq Require Import QArith.\nFrom SV Require Import C17.Cg C17.CgSpec C17.Bp C17.Corr.\n"
           "Open Scope Q_scope.")
TIMEOUT = 20
EPS = Fraction(1, 10 ** 9)


# ---------------------------------------------------------------------------------- exact oracle (independent)
def all_patterns(sizes, width):
    """Every non-negative integer vector a with sum(size_i * a_i) <= width (zero vector included)."""
    n = len(sizes)
    out = []

    def rec(i, rem, cur):
        if i == n:
            out.append(tuple(cur))
            return
        k = 0
        while k * sizes[i] <= rem:
            cur.append(k)
            rec(i + 1, rem - k * sizes[i], cur)
            cur.pop()
            k += 1

    rec(0, width, [])
    return out


def maximal_patterns(sizes, width):
    pats = all_patterns(sizes, width)
    mn = min(sizes) if sizes else 1
    return [p for p in pats if width - sum(s * a for s, a in zip(sizes, p)) < mn and any(p)]


_opt_cache: dict = {}


def exact_min(columns, demands):
    """Minimum number of columns (with repetition) from `columns` whose sum is >= demands componentwise; None if impossible.
    BFS over remaining-demand vectors (clamped at 0)."""
    key = (tuple(columns), tuple(demands))
    if key in _opt_cache:
        return _opt_cache[key]
    start = tuple(max(0, d) for d in demands)
    goal = tuple(0 for _ in demands)
    cols = [c for c in set(columns) if any(x > 0 for x in c)]
    seen = {start}
    frontier = [start]
    k = 0
    ans = None
    while frontier:
        if goal in seen:
            ans = k
            break
        nxt = []
        for st in frontier:
            for c in cols:
                ns = tuple(max(0, r - x) for r, x in zip(st, c))
                if ns not in seen:
                    seen.add(ns)
                    nxt.append(ns)
        frontier = nxt
        k += 1
    _opt_cache[key] = ans
    return ans


def judge(case, out):
    """The property itself.  Returns None if the answer obeys C17, else a description.  `out` is the canonical
    implementation outcome (see run_impl)."""
    if "fail" in out:
        if out["fail"] == "hang":
            return None  # termination / speed is not part of C17: counted, not judged
        if case["kind"] == "custom" and out.get("exc") == "OverflowError" and case["opt"] is None:
            return None  # no covering plan exists; the code raises instead of answering (no plan is presented)
        return f"implementation raised {out.get('exc')}: {out.get('msg')}"
    st = out["status"]
    if st not in ("OPTIMAL", "FEASIBLE"):
        if st == "INFEASIBLE" and case["opt"] is not None and case["kind"] != "custom":
            # a cutting-stock instance always has a plan; INFEASIBLE is not a usable status so the clauses of C17 about
            # returned plans do not apply, but it is worth seeing in the histogram
            return None
        return None
    d = case["demands"]
    m = len(d)
    plan = out["plan"]
    if plan is None:
        return f"status {st} without a plan"
    total = 0
    prod = [0] * m
    for pat, cnt in plan:
        if len(pat) != m or any((not isinstance(a, int)) or a < 0 for a in pat):
            return f"pattern {pat} is not a non-negative integer vector of length {m}"
        if not isinstance(cnt, int) or cnt < 0:
            return f"count {cnt!r} of pattern {pat} is not a non-negative integer"
        if case["kind"] == "custom":
            if tuple(pat) not in set(map(tuple, case["columns"])):
                return f"pattern {pat} is not a column of the explicit column set"
        elif sum(s * a for s, a in zip(case["sizes"], pat)) > case["width"]:
            return f"pattern {pat} does not fit in the roll width {case['width']}"
        total += cnt
        for i in range(m):
            prod[i] += cnt * pat[i]
    for i in range(m):
        if prod[i] < d[i]:
            return f"status {st} but demand {i} is missed: produced {prod[i]} < {d[i]}"
    if out["objective"] != total:
        return f"objective {out['objective']!r} is not the number of rolls used ({total})"
    opt = case["opt"]
    if opt is None:
        return "a covering plan was returned although the exact search says none exists (oracle bug?)"
    if total < opt:
        return f"objective {total} below the true minimum {opt} (oracle bug?)"
    if st == "OPTIMAL" and total != opt:
        return f"status OPTIMAL with {total} rolls, the true minimum is {opt}"
    return None


# ---------------------------------------------------------------------------------- generators
MAX_ITERS = [0, 1, 2, 30, None]


def gen_cs(rng, solver=None):
    n = rng.choice([1, 2, 2, 3, 3, 3, 4, 4])
    width = rng.choice([2, 3, 4, 5, 6, 7, 7, 8, 9, 9, 10, 11, 12, 12])
    style = rng.random()
    if style < 0.6:
        sizes = [rng.randint(1, width) for _ in range(n)]
    elif style < 0.8:   # large pieces: little room for combination, LP bound often fractional
        sizes = [rng.randint(max(1, width // 3), width) for _ in range(n)]
    else:               # duplicates of a size and near-divisors
        base = rng.randint(1, width)
        sizes = [rng.choice([base, max(1, width // 2), max(1, width // 3), rng.randint(1, width)]) for _ in range(n)]
    hi = rng.choice([1, 2, 3, 4, 6, 6])
    demands = [rng.randint(0, hi) for _ in range(n)]
    if rng.random() < 0.85 and not any(demands):
        demands[rng.randrange(n)] = rng.randint(1, hi)
    mi = rng.choice(MAX_ITERS)
    case = {"kind": "cs", "solver": solver or rng.choice(["cg", "bp"]), "sizes": sizes, "width": width, "demands": demands, "max_iter": mi}
    if case["solver"] == "bp":
        case["max_nodes"] = rng.choice([0, 1, 3, 20, 200, None])
        if mi is None:
            case["max_iter"] = rng.choice([30, 60, None])
    return case


def gen_custom(rng, solver=None):
    m = rng.choice([1, 2, 2, 3, 3])
    ncol = rng.randint(1, 6)
    cols = []
    while len(cols) < ncol:
        c = tuple(rng.choice([0, 0, 1, 1, 2, 3]) for _ in range(m))
        if any(c) and c not in cols:
            cols.append(c)
    if rng.random() < 0.7:   # make covering possible: unit-ish columns for every row
        for i in range(m):
            if not any(c[i] for c in cols):
                cols.append(tuple(1 if k == i else 0 for k in range(m)))
    k0 = rng.randint(1, len(cols))
    init = cols[:k0] if rng.random() < 0.7 else rng.sample(cols, k0)
    demands = [rng.randint(0, 5) for _ in range(m)]
    if not any(demands):
        demands[rng.randrange(m)] = rng.randint(1, 5)
    case = {"kind": "custom", "solver": solver or rng.choice(["cg", "bp"]), "columns": [list(c) for c in cols], "init": [list(c) for c in init],
            "demands": demands, "max_iter": rng.choice(MAX_ITERS)}
    if case["solver"] == "bp":
        case["max_nodes"] = rng.choice([0, 1, 3, 20, 200, None])
        if case["max_iter"] is None:
            case["max_iter"] = rng.choice([30, 60, None])
    return case


EDGE_CASES = [
    {"kind": "cs", "solver": "cg", "sizes": [5, 4], "width": 9, "demands": [2, 2], "max_iter": 0},
    {"kind": "cs", "solver": "bp", "sizes": [5, 4], "width": 9, "demands": [2, 2], "max_iter": 0, "max_nodes": None},
    {"kind": "cs", "solver": "cg", "sizes": [3, 5], "width": 11, "demands": [5, 6], "max_iter": None},
    {"kind": "cs", "solver": "cg", "sizes": [1], "width": 12, "demands": [6], "max_iter": None},
    {"kind": "cs", "solver": "cg", "sizes": [7], "width": 7, "demands": [3], "max_iter": 1},
    {"kind": "cs", "solver": "cg", "sizes": [2, 3], "width": 6, "demands": [0, 0], "max_iter": None},
    {"kind": "cs", "solver": "bp", "sizes": [2, 3], "width": 6, "demands": [0, 0], "max_iter": None, "max_nodes": None},
    {"kind": "cs", "solver": "cg", "sizes": [2, 3], "width": 6, "demands": [0, 4], "max_iter": None},
    {"kind": "cs", "solver": "cg", "sizes": [], "width": 6, "demands": [], "max_iter": None},
    {"kind": "cs", "solver": "bp", "sizes": [4, 3], "width": 9, "demands": [1, 1], "max_iter": 30, "max_nodes": None},
    {"kind": "cs", "solver": "bp", "sizes": [8, 4, 6], "width": 12, "demands": [6, 6, 6], "max_iter": 30, "max_nodes": 50},
    {"kind": "custom", "solver": "cg", "columns": [[1, 0], [0, 1], [1, 1]], "init": [[1, 0], [0, 1]], "demands": [3, 3], "max_iter": None},
    {"kind": "custom", "solver": "cg", "columns": [[1, 0], [0, 1], [1, 1]], "init": [[1, 0], [0, 1]], "demands": [3, 3], "max_iter": 0},
    {"kind": "custom", "solver": "bp", "columns": [[1, 0], [0, 1], [1, 1]], "init": [[1, 0], [0, 1]], "demands": [3, 3], "max_iter": 30, "max_nodes": None},
    {"kind": "custom", "solver": "cg", "columns": [[2, 0], [0, 0]], "init": [[2, 0]], "demands": [1, 1], "max_iter": None},   # no covering plan
    {"kind": "custom", "solver": "bp", "columns": [[2, 0], [0, 0]], "init": [[2, 0]], "demands": [1, 1], "max_iter": 30, "max_nodes": None},
]


def with_opt(case):
    """Attach the exact optimum (oracle side)."""
    d = case["demands"]
    if case["kind"] == "custom":
        case["opt"] = exact_min([tuple(c) for c in case["columns"]], d)
    elif not d or not any(d):
        case["opt"] = 0
    else:
        case["opt"] = exact_min(maximal_patterns(case["sizes"], case["width"]), d)
    return case


# ---------------------------------------------------------------------------------- the custom pricing function
def make_pricing(columns):
    """Exact pricing over the explicit column set, tie-robust: the first column whose reduced cost 1 - y.c is smaller
    than the best so far by more than 1e-9.  The Gallina model has the same function (Cg.custom_pricing)."""
    cols = [tuple(c) for c in columns]

    def pricing(duals):
        best, best_rc = None, None
        for c in cols:
            rc = 1.0 - sum(y * a for y, a in zip(duals, c))
            if best is None or rc < best_rc - 1e-9:
                best, best_rc = c, rc
        if best is None:
            return None, 0.0
        return best, best_rc

    return pricing


# ---------------------------------------------------------------------------------- implementation runs
def _canon_plan(sol):
    if sol is None:
        return None
    out = []
    for k, v in sol.items():
        kk = [int(a) if (isinstance(a, int) or (isinstance(a, float) and a == int(a))) else a for a in k]
        vv = int(v) if isinstance(v, int) or (isinstance(v, float) and v == int(v)) else v
        out.append([kk, vv])
    return out


def _canon_num(x):
    if isinstance(x, float) and math.isfinite(x) and x == int(x):
        return int(x)
    if isinstance(x, float) and not math.isfinite(x):
        return "inf" if x > 0 else "-inf"
    return x


def run_impl(case):
    """Run solve_cg / solve_bp on the case; returns the canonical outcome dict, with the recorded LP trace."""
    import solvor.bp as bp
    import solvor.cg as cg

    kw = {}
    if case["max_iter"] is not None:
        kw["max_iter"] = case["max_iter"]
    if case["kind"] == "cs":
        kw.update(roll_width=case["width"], piece_sizes=list(case["sizes"]))
    else:
        kw.update(pricing_fn=make_pricing(case["columns"]), initial_columns=[tuple(c) for c in case["init"]])
    rec = {"lp": [], "node": []}
    if case["solver"] == "cg":
        orig = cg._solve_master_lp

        def wrapped(columns, demands, eps):
            r = orig(columns, demands, eps)
            rec["lp"].append(([list(c) for c in columns], r))
            return r

        cg._solve_master_lp = wrapped
        try:
            res = guarded(cg.solve_cg, list(case["demands"]), timeout=TIMEOUT, **kw)
        finally:
            cg._solve_master_lp = orig
    else:
        if case.get("max_nodes") is not None:
            kw["max_nodes"] = case["max_nodes"]
        orig = bp._solve_node_lp

        def wrapped_node(columns, column_set, demands, col_bounds, pricing_fn, is_cs, max_iter, eps):
            r = orig(columns, column_set, demands, col_bounds, pricing_fn, is_cs, max_iter, eps)
            if not rec["node"]:
                rec["node"].append(([list(c) for c in columns], r, dict(col_bounds)))
            rec["nodes"] = rec.get("nodes", 0) + 1
            return r

        bp._solve_node_lp = wrapped_node
        try:
            res = guarded(bp.solve_bp, list(case["demands"]), timeout=TIMEOUT, **kw)
        finally:
            bp._solve_node_lp = orig
    if res[0] == "hang":
        return {"fail": "hang"}
    if res[0] == "exc":
        return {"fail": "exc", "exc": res[1], "msg": res[2]}
    r = res[1]
    out = {"status": r.status.name, "objective": _canon_num(r.objective), "plan": _canon_plan(r.solution),
           "iterations": int(r.iterations), "evaluations": int(r.evaluations)}
    if rec["lp"]:
        cols, (x, y, obj) = rec["lp"][-1]
        out["pool"] = cols
        out["x"] = [float(v) for v in x]
        out["duals"] = [float(v) for v in y]
        out["lp_obj"] = _canon_num(float(obj))
        out["lp_calls"] = len(rec["lp"])
    if rec["node"]:
        cols, (x, obj, iters, conv), cb = rec["node"][0]
        out["root_pool"] = cols
        out["root_x"] = [float(v) for v in x]
        out["root_obj"] = _canon_num(float(obj))
        out["root_iters"] = int(iters)
        out["root_converged"] = bool(conv)
        out["node_calls"] = rec.get("nodes", 0)
    return out


def _work(case):
    from harness.core import use_repo

    use_repo()
    case = with_opt(dict(case))
    out = run_impl(case)
    return case, out, judge(case, out)
