"""TEMPORARY DRIVER for part B of C19 (differential_evolution, particle_swarm, nelder_mead, bayesian_opt, powell,
bfgs, lbfgs).  Run as `/verif/check C19b`.  The real entry point is harness/props/C19.py, which calls
harness.props.C19_b.run_part(ctx); this file only exists so that part B can be exercised on its own."""
from harness.props import C19_b

ID = "C19"
ANCHORS = C19_b.ANCHORS


def run(ctx):
    ctx.rule = ("part B: seeded runs of DE/PSO/Nelder-Mead/bayesian_opt/powell/bfgs/lbfgs on integer-valued objectives "
                "(dims 1-3, small budgets, minimise f and maximise -f on the same seed); non-trivial = the best improved after "
                "the start phase and a worse point was evaluated after the final best; distinct = canonical JSON of the case")
    # only part B's files (build.sh accepts file paths: `find <file> -name '*.v'`), so that part A's files being
    # edited concurrently cannot break this driver; the real C19.py builds the whole directory
    from harness.core import COQ
    mine = sorted(str(f.relative_to(COQ)) for f in (COQ / "C19").glob("B_*.v"))
    ctx.proof_step(mine, props_file="Props/C19_b.v")
    C19_b.run_part(ctx)


replay = C19_b.replay
