"""C19 (part A) - anneal, tabu_search, lns, alns, evolve report the best point they evaluated.

Tie to /repo: each solver is run on integer-valued objectives (lookup tables over a small line / weight
matrices over permutations: plateaus, ties, discontinuities) with every source of non-determinism recorded
from OUTSIDE (no source change): the objective is wrapped by a recording proxy (deep copy of the point at
call time = identity by evaluation index), `Random`/`exp`/cooling/`_get_accept_fn` are wrapped in the
solver's module namespace, user call-backs are wrapped.  The recorded trace is cut into one event per loop
iteration and replayed through the Gallina bookkeeping machines SV.C19.A_* inside coqc (vm_compute); the
machine's (identity, objective, evaluations, iterations) must equal the implementation's Result.
Independently, a Python oracle judges every Result against the property itself (objective = f(solution)
re-evaluated, at least as good as every logged value, evaluations = number of calls, mirror, determinism)
and the Coq checker `obs_spec_check` (proved sound w.r.t. ObsSpec) judges it again inside the kernel.

Part B (DE, PSO, Nelder-Mead, bayesian_opt, powell, bfgs) lives in harness/props/C19_b.py.
"""
from __future__ import annotations

import copy
import importlib
import json
import math
import os
import random

from harness.core import COQ, VERIF, Ctx, cbool, clist, cnat, cz, guarded, pmap

ID = "C19"
ANCHORS_A = ["solvor/anneal.py", "solvor/tabu.py", "solvor/lns.py", "solvor/genetic.py", "solvor/utils/helpers.py"]
try:  # part B owns its own anchors
    from harness.props import C19_b as _partb  # noqa: F401

    ANCHORS = ANCHORS_A + [a for a in getattr(_partb, "ANCHORS", []) if a not in ANCHORS_A]
except Exception:  # noqa: BLE001
    _partb = None
    ANCHORS = list(ANCHORS_A)

SOLVERS = ["anneal", "lns", "alns", "tabu", "evolve"]


# ====================================================================================== spaces
def gen_table(rng, n):
    k = rng.randrange(7)
    if k == 0:  # few distinct values: many ties
        return [rng.randint(-2, 2) for _ in range(n)]
    if k == 1:  # plateaus
        t, v = [], rng.randint(-5, 5)
        while len(t) < n:
            t += [v] * rng.randint(1, 4)
            v += rng.choice([-3, -1, 0, 1, 2])
        return t[:n]
    if k == 2:  # V shape with a discontinuity
        c = rng.randrange(n)
        t = [abs(i - c) for i in range(n)]
        j = rng.randrange(n)
        t[j] += rng.choice([-7, 7])
        return t
    if k == 3:  # several local optima
        return [((i * 5) % 7) - (i // 3) for i in range(n)]
    if k == 4:  # constant
        return [rng.randint(-3, 3)] * n
    if k == 5:  # monotone (the improving direction is one-sided)
        s = rng.choice([-1, 1])
        return [s * i for i in range(n)]
    return [rng.randint(-9, 9) for _ in range(n)]


# ---- class L: labels.  A descriptor is JSON-able; build() makes a FRESH object on every call (equal, never identical
# for big ints / tuples / strings / frozensets).  The pool is injective under == (0, False, 0.0 are never mixed).
def build(d):
    k = d[0]
    if k == "none":
        return None
    if k == "int":
        return int(str(d[1]))  # a new int object for |v| >= 257
    if k == "bool":
        return bool(d[1])
    if k == "float":
        return float(str(d[1]))
    if k == "str":
        return "".join(list(d[1]))
    if k == "tuple":
        return tuple(build(e) for e in d[1])
    if k == "fset":
        return frozenset(d[1])
    raise ValueError(d)


def same(a, b):
    return type(a) is type(b) and a == b


def gen_labels(rng, n, allow_none=True):
    """n descriptors, pairwise different under ==, falsy / None / mixed types first."""
    zero = rng.choice([["int", 0], ["bool", 0], ["float", 0.0]])
    special = [zero, ["str", ""], ["tuple", []], ["fset", []]] + ([["none"]] if allow_none else [])
    rng.shuffle(special)
    special = special[: rng.randint(1, len(special))]
    if allow_none and rng.random() < 0.5 and ["none"] not in special:
        special.append(["none"])
    out = list(special)
    i = 0
    while len(out) < n:
        i += 1
        out.append(rng.choice([["int", 300 + i], ["str", f"c{i}"], ["tuple", [["int", i], ["str", "m"]]], ["fset", [i, 1000 + i]],
                               ["float", i + 0.5], ["tuple", [["none"], ["int", 1000 + i]]], ["int", -i]]))
    out = out[:n]
    rng.shuffle(out)
    return out


def gen_space(rng, want=None, enc=None):
    kind = want or rng.choice(["line", "line", "perm"])
    if kind == "line":
        n = rng.choice([1, 2, 3, 5, 8, 12, 16])
        sp = {"kind": "line", "table": gen_table(rng, n), "float": rng.random() < 0.25,
              "enc": enc or rng.choice(["int", "int", "int", "list", "big", "tuple", "str"])}
        if sp["enc"] == "pool":
            sp["labels"] = gen_labels(rng, n)
        return sp
    n = rng.choice([3, 4, 5])
    return {"kind": "perm", "w": [[rng.randint(-3, 3) for _ in range(n)] for _ in range(n)], "float": rng.random() < 0.25,
            "enc": rng.choice(["list", "list", "tuple"])}


class Space:
    """Points are handled as indices (line) / lists (perm) by the call-backs and shown to the solver in the
    space's encoding; enc() builds a fresh object every time."""

    def __init__(self, sp):
        self.sp = sp
        self.kind = sp["kind"]
        if self.kind == "perm":
            self.n = len(sp["w"])
        elif "gen" in sp:      # class W: long tables given by a rule: ["mono", n, slope] / ["vee", n, centre, slope]
            self.n = sp["gen"][1]
        elif "fvals" in sp:    # class X: float extremes, one value per cell (numbers or "inf" / "-inf" / "nan")
            self.n = len(sp["fvals"])
        else:
            self.n = len(sp["table"])
        self.off = sp.get("offset", 0)
        self.sc = sp.get("scale", 1)
        self.encoding = sp.get("enc", "int" if self.kind == "line" else "list")

    def enc(self, p):
        e = self.encoding
        if self.kind == "perm":
            return tuple(p) if e == "tuple" else list(p)
        if e == "int":
            return p
        if e == "big":
            return int(str(p + 1000))
        if e == "list":
            return [p]
        if e == "tuple":
            return tuple(["cell", p])
        if e == "str":
            return "c" + str(p)
        return build(self.sp["labels"][p])

    def dec(self, x):
        e = self.encoding
        if self.kind == "perm":
            if not isinstance(x, tuple if e == "tuple" else list):
                raise TypeError("not a point")
            return list(x)
        if e == "int":
            if type(x) is not int:
                raise TypeError("not a point")
            return x
        if e == "big":
            if type(x) is not int:
                raise TypeError("not a point")
            return x - 1000
        if e == "list":
            if type(x) is not list or len(x) != 1:
                raise TypeError("not a point")
            return x[0]
        if e == "tuple":
            if type(x) is not tuple or len(x) != 2:
                raise TypeError("not a point")
            return x[1]
        if e == "str":
            if type(x) is not str:
                raise TypeError("not a point")
            return int(x[1:])
        for i, d in enumerate(self.sp["labels"]):
            if same(build(d), x):
                return i
        raise TypeError("not a point")

    def value(self, p):
        if "fvals" in self.sp:
            v = self.sp["fvals"][p]
            return float(v) if isinstance(v, str) else v
        if "gen" in self.sp:
            g = self.sp["gen"]
            if not 0 <= p < g[1]:
                raise IndexError(p)
            return self.off + self.sc * (g[2] * p if g[0] == "mono" else g[3] * abs(p - g[2]))
        if self.kind == "line":
            return self.off + self.sc * self.sp["table"][p]
        W = self.sp["w"]
        return self.off + self.sc * sum(W[i][p[i]] for i in range(len(p)))


def raw_f(space, negate):
    """The user's objective (deterministic, integer-valued, exact Python ints) - `negate` gives -f for the mirror run."""
    s = -1 if negate else 1
    S = Space(space)
    return lambda x: s * S.value(S.dec(x))


def clamp(x, n):
    return max(0, min(n - 1, x))


def gen_start(rng, space):
    if space["kind"] == "line":
        return rng.randrange(len(space["table"]))
    p = list(range(len(space["w"])))
    rng.shuffle(p)
    return p


def gen_progress(rng, max_iter):
    r = rng.random()
    if r < 0.4:
        return None
    interval = rng.choice([0, 1, 1, 2, 3, 5])
    stop_at = rng.choice([None, None, rng.randint(1, max(1, max_iter)), rng.randint(1, max(1, max_iter))])
    return {"interval": interval, "stop_at": stop_at, "ret": rng.choice(["True", "True", "1", "None", "False"])}


# ====================================================================================== recording
class Rec:
    def __init__(self):
        self.tokens = []
        self.log = []  # (deep copy of the point, integer value f returned)


def sess(session, key, make):
    """class A2: within a session the SAME objects (space, call-backs, objective, their private rng) serve consecutive
    solver calls; without a session everything is built fresh."""
    if session is None:
        return make()
    if key not in session:
        session[key] = make()
    return session[key]


def rec_objective(space, negate, rec):
    f = raw_f(space, negate)
    as_float = space.get("float")

    def obj(x):
        v = f(x)
        rec.log.append((copy.deepcopy(x), v))
        rec.tokens.append(("eval", v))
        return float(v) if as_float else v

    return obj


def rec_random_class(rec):
    class RecRandom(random.Random):
        # both overridden so that CPython keeps the getrandbits-based _randbelow: same stream as Random
        def getrandbits(self, k):
            return super().getrandbits(k)

        def random(self):
            r = super().random()
            rec.tokens.append(("draw", r))
            return r

        def shuffle(self, x):
            # same swaps as Random.shuffle(x), applied to the index list: x_new[k] = x_old[perm[k]]
            perm = list(range(len(x)))
            super().shuffle(perm)
            x[:] = [x[i] for i in perm]
            rec.tokens.append(("shuf", perm))

    return RecRandom


def rec_progress(pspec, rec):
    if pspec is None:
        return None, 0

    def cb(progress):
        hit = pspec["stop_at"] is not None and progress.iteration >= pspec["stop_at"]
        ret = {"True": True, "1": 1, "None": None, "False": False}[pspec["ret"]] if hit else None
        rec.tokens.append(("prog", ret is True, progress.iteration, progress.evaluations))
        return ret

    return cb, pspec["interval"]


class Patched:
    """Temporarily replace attributes of a module (restored on exit)."""

    def __init__(self, mod, **attrs):
        self.mod, self.attrs, self.saved = mod, attrs, {}

    def __enter__(self):
        for k, v in self.attrs.items():
            self.saved[k] = getattr(self.mod, k)
            setattr(self.mod, k, v)

    def __exit__(self, *a):
        for k, v in self.saved.items():
            setattr(self.mod, k, v)


# ====================================================================================== solver runs
def build_inputs(case):
    """The caller-owned objects handed to the solver (class A: shared by the consecutive runs of one case and
    compared with a pristine rebuild afterwards)."""
    S = Space(case["space"])
    if case["solver"] == "evolve":
        kind = case.get("pop_kind", "list")
        if kind == "range":
            return {"population": range(len(case["population"]))}
        if kind == "dup":  # class A2: the SAME object listed several times
            objs = {}
            return {"population": [objs.setdefault(json.dumps(p), S.enc(p)) for p in case["population"]]}
        pop = [S.enc(p) for p in case["population"]]
        return {"population": tuple(pop) if kind == "tuple" else pop}
    return {"start": S.enc(case["start"])}


def inputs_equal(a, b):
    def eq(x, y):
        if type(x) is not type(y):
            return False
        if isinstance(x, (list, tuple)):
            return len(x) == len(y) and all(eq(p, q) for p, q in zip(x, y))
        return x == y
    return a.keys() == b.keys() and all(eq(a[k], b[k]) for k in a)


def call_anneal(case, minimize, negate, rec, inputs, session=None):
    M = importlib.import_module("solvor.anneal")

    sp = case["space"]
    S = sess(session, "S", lambda: Space(sp))
    n = S.n
    nrng = sess(session, "rng", random.Random)
    nrng.seed(case["cb_seed"])
    steps = case.get("steps", [1, 2])
    drift = case.get("drift")  # class W: probability of stepping right (None: fair)

    def neighbors(x):
        p = S.dec(x)
        if S.kind == "line":
            sgn = nrng.choice([-1, 1]) if drift is None else (1 if nrng.random() < drift else -1)
            return S.enc(clamp(p + nrng.choice(steps) * sgn, n))
        i, j = nrng.randrange(n), nrng.randrange(n)
        p[i], p[j] = p[j], p[i]
        return S.enc(p)

    neighbors = sess(session, "neighbors", lambda: neighbors)
    orig_exp, orig_ec = M.exp, M.exponential_cooling

    def rexp(a):
        e = orig_exp(a)
        rec.tokens.append(("exp", e))
        return e

    def wrap_sched(s):
        def w(t0, it, mi):
            t = s(t0, it, mi)
            rec.tokens.append(("temp", t))
            return t

        return w

    def rec_ec(rate=0.9995):
        return wrap_sched(orig_ec(rate))

    kw = {}
    if "cooling" in case:
        ck, cv = case["cooling"]
        kw["cooling"] = {"float": lambda: cv, "exp": lambda: wrap_sched(orig_ec(cv)), "lin": lambda: wrap_sched(M.linear_cooling(cv)),
                         "log": lambda: wrap_sched(M.logarithmic_cooling(cv))}[ck]()
    for k in ("temperature", "min_temp", "max_iter"):
        if k in case:
            kw[k] = case[k]
    cb, interval = rec_progress(case["progress"], rec)
    with Patched(M, Random=rec_random_class(rec), exp=rexp, exponential_cooling=rec_ec):
        return M.anneal(inputs["start"], sess(session, "obj", lambda: rec_objective(sp, negate, rec)), neighbors, minimize=minimize,
                        seed=case["seed"], on_progress=cb, progress_interval=interval, **kw)


def lns_ops(case):
    S = Space(case["space"])
    n = S.n

    def d_id(x, rng):
        return x

    def d_shift(x, rng):  # line: forget the position partly
        return S.enc(clamp(S.dec(x) + rng.choice([-1, 0, 1]), n))

    def d_drop(x, rng):  # perm: remove k elements
        p = S.dec(x)
        k = rng.randint(1, max(1, n - 1))
        out = rng.sample(p, k)
        return ([e for e in p if e not in out], out)

    def r_dec1(x, rng):
        return S.enc(S.dec(x) - 1)

    def r_step(x, rng):
        return S.enc(clamp(S.dec(x) + rng.choice([-2, -1, 1, 2]), n))

    def r_inc1(x, rng):  # class W: a walk that never returns
        return S.enc(clamp(S.dec(x) + 1, n))

    def r_same(x, rng):
        return x

    def r_insert(part, rng):
        rest, out = list(part[0]), list(part[1])
        for e in out:
            rest.insert(rng.randint(0, len(rest)), e)
        return S.enc(rest)

    def r_sorted(part, rng):
        return S.enc(list(part[0]) + sorted(part[1]))

    return {"id": d_id, "shift": d_shift, "drop": d_drop, "dec1": r_dec1, "step": r_step, "same": r_same, "inc1": r_inc1,
            "insert": r_insert, "sorted": r_sorted}


def make_accept(spec, cb_seed):
    if spec in ("improving", "accept_all", "simulated_annealing"):
        return spec
    arng = random.Random(cb_seed + 1)
    return {"never": lambda c, n, i, r: False, "always": lambda c, n, i, r: True,
            "worse_only": lambda c, n, i, r: n > c, "coin": lambda c, n, i, r: arng.random() < 0.5,
            "truthy": lambda c, n, i, r: (1 if n <= c else 0), "odd_iter": lambda c, n, i, r: i % 2 == 1,
            "none_or_str": lambda c, n, i, r: ("yes" if n < c else None)}[spec]


def call_lns(case, minimize, negate, rec, inputs, session=None):
    M = importlib.import_module("solvor.lns")

    ops = sess(session, "ops", lambda: lns_ops(case))
    orig_get = M._get_accept_fn

    def rec_get(accept, *a, **k):
        fn = orig_get(accept, *a, **k)

        def w(cur, new, it, rng):
            r = fn(cur, new, it, rng)
            rec.tokens.append(("acc", bool(r)))
            return r

        return w

    cb, interval = rec_progress(case["progress"], rec)
    common = dict(minimize=minimize, seed=case["seed"], on_progress=cb, progress_interval=interval)
    if "accept" in case:
        common["accept"] = make_accept(case["accept"], case["cb_seed"])  # (rebuilt per call: its private rng restarts)
    for k in ("start_temp", "cooling_rate", "max_iter", "max_no_improve"):
        if k in case:
            common[k] = case[k]
    with Patched(M, Random=rec_random_class(rec), _get_accept_fn=rec_get):
        if case["solver"] == "lns":
            return M.lns(inputs["start"], sess(session, "obj", lambda: rec_objective(case["space"], negate, rec)), ops[case["destroy"][0]],
                         ops[case["repair"][0]], **common)
        if "segment_size" in case:
            common["segment_size"] = case["segment_size"]
        seq = tuple if case.get("ops_kind") == "tuple" else list
        return M.alns(inputs["start"], sess(session, "obj", lambda: rec_objective(case["space"], negate, rec)), seq(ops[d] for d in case["destroy"]),
                      seq(ops[r] for r in case["repair"]), **common)


def tabu_moves(case):
    """move keys in a fixed order: deltas (line) / index pairs (perm)"""
    S = Space(case["space"])
    if S.kind == "line":
        return list(case.get("steps", [-2, -1, 1, 2]))
    return [(i, j) for i in range(S.n) for j in range(i + 1, S.n)][: case.get("max_cands", 99)]


def call_tabu(case, minimize, negate, rec, inputs, session=None):
    M = importlib.import_module("solvor.tabu")

    sp = case["space"]
    S = sess(session, "S", lambda: Space(sp))
    n = S.n
    keys = tabu_moves(case)
    mdesc = case.get("mdesc")  # class L: one label descriptor per move key (None: the plain key)
    ret_kind = case.get("ret_kind", "list")

    unique = case.get("move_unique")  # class W: every (move, position) pair is its own label: the tabu memory fills up

    def label(k):
        return keys[k] if mdesc is None else build(mdesc[k])

    def neighbors(x):
        p = S.dec(x)
        cands = []
        for k, mv in enumerate(keys):
            if S.kind == "line":
                y = p + mv
                if case.get("clamp"):
                    y = clamp(y, n)
                if 0 <= y < n:
                    cands.append(((label(k), p) if unique else label(k), S.enc(y)))
            else:
                q = list(p)
                q[mv[0]], q[mv[1]] = q[mv[1]], q[mv[0]]
                cands.append((label(k), S.enc(q)))
        if ret_kind == "items":  # a dict view: equal labels merge, as they would for the user
            cands = list(dict(cands).items())
        rec.tokens.append(("nb", [m for m, _ in cands], [copy.deepcopy(s) for _, s in cands]))
        if ret_kind == "gen":
            return (c for c in cands)
        if ret_kind == "tuple":
            return tuple(cands)
        if ret_kind == "items":
            return dict(cands).items()
        return cands

    neighbors = sess(session, "neighbors", lambda: neighbors)
    kw = {}
    for k in ("cooldown", "max_iter", "max_no_improve"):
        if k in case:
            kw[k] = case[k]
    cb, interval = rec_progress(case["progress"], rec)
    with Patched(M, Random=rec_random_class(rec)):
        return M.tabu_search(inputs["start"], sess(session, "obj", lambda: rec_objective(sp, negate, rec)), neighbors, minimize=minimize,
                             seed=case["seed"], on_progress=cb, progress_interval=interval, **kw)


def call_evolve(case, minimize, negate, rec, inputs, session=None):
    M = importlib.import_module("solvor.genetic")

    sp = case["space"]
    S = sess(session, "S", lambda: Space(sp))
    n = S.n
    crng = sess(session, "rng", random.Random)
    crng.seed(case["cb_seed"])

    def crossover(xa, xb):
        a, b = S.dec(xa), S.dec(xb)
        if S.kind == "line":
            return S.enc(crng.choice([a, b, (a + b) // 2]))
        k = crng.randint(0, n)
        head = list(a[:k])
        return S.enc(head + [e for e in b if e not in head])

    def mutate(xa):
        a = S.dec(xa)
        if S.kind == "line":
            return S.enc(clamp(a + crng.choice([-2, -1, 1, 2]), n))
        i, j = crng.randrange(n), crng.randrange(n)
        a[i], a[j] = a[j], a[i]
        return S.enc(a)

    crossover = sess(session, "crossover", lambda: crossover)
    mutate = sess(session, "mutate", lambda: mutate)
    kw = {}
    for k, name in (("elite_size", "elite_size"), ("mutation_rate", "mutation_rate"), ("adaptive", "adaptive_mutation"),
                    ("max_iter", "max_iter"), ("tournament_k", "tournament_k")):
        if k in case:
            kw[name] = case[k]
    cb, interval = rec_progress(case["progress"], rec)
    with Patched(M, Random=rec_random_class(rec)):
        return M.evolve(sess(session, "obj", lambda: rec_objective(sp, negate, rec)), inputs["population"], crossover, mutate, minimize=minimize,
                        seed=case["seed"], on_progress=cb, progress_interval=interval, **kw)


CALL = {"anneal": call_anneal, "lns": call_lns, "alns": call_lns, "tabu": call_tabu, "evolve": call_evolve}
DEFAULTS = {"anneal": {"max_iter": 100_000, "min_temp": 1e-8}, "lns": {"max_iter": 1000, "max_no_improve": 100},
            "alns": {"max_iter": 10000, "max_no_improve": 500}, "tabu": {"max_iter": 1000, "max_no_improve": 100, "cooldown": 10},
            "evolve": {"max_iter": 100, "elite_size": 2}}


def opt(case, key):
    """the option's value: given in the case or the solver's documented default (class O: default-argument calls)"""
    return case[key] if key in case else DEFAULTS[case["solver"]][key]


def canon_int(x):
    if isinstance(x, bool):
        return None
    if isinstance(x, int):
        return x
    if isinstance(x, float) and x == x and abs(x) != float("inf") and x == int(x):
        return int(x)
    return None


def run_once(case, minimize, negate, inputs=None, session=None):
    """One implementation run -> picklable record."""
    rec = session["rec"] if session is not None else Rec()
    del rec.tokens[:], rec.log[:]
    inputs = inputs if inputs is not None else build_inputs(case)
    res = guarded(CALL[case["solver"]], case, minimize, negate, rec, inputs, session, timeout=case.get("timeout", 5))
    out = {"minimize": minimize, "negate": negate, "status": res[0], "tokens": list(rec.tokens), "log": list(rec.log),
           "inputs_intact": inputs_equal(inputs, build_inputs(case))}
    if res[0] == "ok":
        r = res[1]
        out["result"] = {"solution": copy.deepcopy(r.solution), "objective": r.objective, "iterations": r.iterations,
                         "evaluations": r.evaluations, "status": r.status.name}
    else:
        out["error"] = list(res[1:])
    return out


def run_case(case):
    """primary run, mirror run (other direction on -f), repeat of the primary (determinism) - all three on the SAME
    caller-owned input objects; class M cases additionally the same case without offset (shift invariance)."""
    m = case["minimize"]
    if case.get("a2"):
        return run_case_a2(case)
    inputs = build_inputs(case)
    a = run_once(case, m, False, inputs)
    b = run_once(case, not m, True, inputs)
    c = run_once(case, m, False, inputs)
    d = None
    if case["space"].get("offset"):
        base = copy.deepcopy(case)
        base["space"]["offset"] = 0
        d = run_once(base, m, False)
    return a, b, c, d


def apply_a2(live, inputs):
    """class A2: edit the caller's objects IN PLACE between two calls: the table behind the same objective object, the
    start list / one population entry inside the same container; optionally the next call is the module's other solver."""
    ed = live["a2"]
    S = Space(live["space"])
    for j, v in ed.get("table", []):
        live["space"]["table"][j] = v
    if "w" in ed:
        i, j, v = ed["w"]
        live["space"]["w"][i][j] = v
    if "start" in ed:
        live["start"] = ed["start"]
        new = S.enc(ed["start"])
        if isinstance(inputs["start"], list):
            inputs["start"][:] = new
        else:
            inputs["start"] = new
    if "pop" in ed:
        i, p = ed["pop"]
        live["population"][i] = p
        inputs["population"][i] = S.enc(p)
    if ed.get("switch"):
        live["solver"] = {"lns": "alns", "alns": "lns"}[live["solver"]]
        if live["solver"] == "lns":
            live["destroy"], live["repair"] = live["destroy"][:1], live["repair"][:1]


def run_case_a2(case):
    """call, edit the inputs in place, call again WITH THE SAME OBJECTS; reference: a fresh call on a deep copy of the
    edited case.  Returned as (second call, fresh mirror, fresh call, None): judge_det compares the two."""
    m = case["minimize"]
    live = copy.deepcopy(case)
    session = {"rec": Rec()}
    inputs = build_inputs(live)
    run_once(live, m, False, inputs, session)
    apply_a2(live, inputs)
    second = run_once(live, m, False, inputs, session)
    eff = copy.deepcopy(live)
    fresh = run_once(copy.deepcopy(eff), m, False)
    mirror = run_once(copy.deepcopy(eff), not m, True)
    second["case"] = eff
    return second, mirror, fresh, None


# ====================================================================================== independent oracle
def is_nan(v):
    return isinstance(v, float) and v != v


def veq(a, b):
    """equality of objective values that lets NaN equal NaN (class X)"""
    return a == b or (is_nan(a) and is_nan(b))


def judge(case, run):
    """The property itself on one run.  Returns None or a description."""
    if run["status"] == "exc" and case.get("may_raise"):
        return None  # class X: NaN / wrongly typed numbers may be rejected by an exception (never by a wrong answer or a hang)
    if run["status"] != "ok":
        return f"implementation {run['status']}: {run.get('error')}"
    r = run["result"]
    f = raw_f(case["space"], run["negate"])
    minimize = run["minimize"]
    try:
        fx = f(r["solution"])
    except Exception as e:  # noqa: BLE001
        return f"returned solution {r['solution']!r} is not a point of the space ({type(e).__name__})"
    if not veq(r["objective"], fx):
        return f"reported objective {r['objective']!r} != f(returned solution {r['solution']!r}) = {fx}"
    vals = [v for _, v in run["log"]]
    worst = [v for v in vals if (v < r["objective"] if minimize else v > r["objective"])]
    if any(is_nan(v) for v in vals):
        worst = []  # class X: NaN is unordered - "best of everything evaluated" is only judged on NaN-free logs
    if worst:
        k = vals.index(worst[0])
        return (f"reported objective {r['objective']!r} is worse than evaluated candidate #{k} {run['log'][k][0]!r} "
                f"with f={worst[0]} ({'minimize' if minimize else 'maximize'})")
    S = Space(case["space"])
    s = -1 if run["negate"] else 1
    starts = case["population"] if case["solver"] == "evolve" else [case["start"]]
    for p in starts:
        fs = s * S.value(p)
        if any(is_nan(v) for v in vals):
            break  # (a NaN among the values makes sorting / comparing order-dependent: observed on the unchanged evolve)
        if fs < r["objective"] if minimize else fs > r["objective"]:
            return f"reported objective {r['objective']!r} is worse than start point {p} with f={fs}"
    if r["evaluations"] != len(vals):
        return f"evaluations={r['evaluations']} but the objective was called {len(vals)} times"
    if not run["inputs_intact"]:
        return "the caller's start point / population object was modified by the solver"
    ex = case.get("expect") or {}  # class W: answers known by construction
    if "solution_is" in ex and not (sol_eq(r["solution"], S.enc(ex["solution_is"])) and r["objective"] == s * S.value(ex["solution_is"])):
        return (f"by construction the start point {ex['solution_is']} is strictly better than every other point, but the result is "
                f"({r['solution']!r}, {r['objective']!r})")
    for k in ("iterations", "evaluations"):
        if k in ex and r[k] != ex[k]:
            return f"by construction the run performs exactly {ex[k]} {k}, reported {r[k]}"
    return None


def sol_eq(x, y):
    return type(x) is type(y) and x == y


def judge_mirror(a, b):
    if a["status"] != "ok" or b["status"] != "ok":
        return None  # judged by `judge`
    ra, rb = a["result"], b["result"]
    if not sol_eq(ra["solution"], rb["solution"]) or not veq(ra["objective"], -rb["objective"]) or ra["evaluations"] != rb["evaluations"] \
            or ra["iterations"] != rb["iterations"]:
        return (f"mirror broken: {'min' if a['minimize'] else 'max'} f -> ({ra['solution']!r}, {ra['objective']!r}, evals {ra['evaluations']}, "
                f"it {ra['iterations']}) but {'min' if b['minimize'] else 'max'} -f -> ({rb['solution']!r}, {rb['objective']!r}, "
                f"evals {rb['evaluations']}, it {rb['iterations']})")
    return None


def judge_det(a, c):
    if a["status"] != c["status"]:
        return f"same seed twice: {a['status']} vs {c['status']}"
    if a["status"] != "ok":
        return None
    ra, rc = a["result"], c["result"]
    la, lc = [v for _, v in a["log"]], [v for _, v in c["log"]]
    if any(ra[k] != rc[k] for k in ("iterations", "evaluations", "status")) or not veq(ra["objective"], rc["objective"]) \
            or not sol_eq(ra["solution"], rc["solution"]) or len(la) != len(lc) or not all(veq(x, y) for x, y in zip(la, lc)):
        return f"same seed, same input, another call gives a different result (state kept between calls): {ra} vs {rc}"
    return None


def judge_shift(case, a, d):
    """class M: adding a constant to an exact-integer objective changes no comparison and no difference:
    same trajectory, objective shifted by exactly that constant."""
    if d is None or a["status"] != "ok" or d["status"] != "ok":
        return None
    off = case["space"]["offset"]
    ra, rd = a["result"], d["result"]
    if not sol_eq(ra["solution"], rd["solution"]) or ra["objective"] != rd["objective"] + off or ra["evaluations"] != rd["evaluations"] \
            or ra["iterations"] != rd["iterations"] or [v for _, v in a["log"]] != [v + off for _, v in d["log"]]:
        return (f"shift invariance broken: f+{off} -> ({ra['solution']!r}, {ra['objective']!r}, evals {ra['evaluations']}, it {ra['iterations']}) "
                f"but f -> ({rd['solution']!r}, {rd['objective']!r}, evals {rd['evaluations']}, it {rd['iterations']})")
    return None


def judge_all(case, runs):
    """every oracle clause on the runs of one case: list of (tag, description)"""
    a, b, c, d = runs
    case = a.get("case") or case  # class A2: the case as edited in place before the judged call
    out = []
    for tag, rr in (("primary", a), ("mirror", b)):
        w = judge(case, rr)
        if w:
            out.append((tag, rr, w))
    if case["seed"] is not None:  # seed=None: fresh entropy per run, only the per-run clauses apply
        for w in (judge_mirror(a, b), judge_det(a, c), judge_shift(case, a, d)):
            if w:
                out.append(("relation", a, w))
    return out


# ====================================================================================== trace -> events
class TraceShape(Exception):
    pass


class Toks:
    def __init__(self, toks):
        self.t, self.i = toks, 0

    def peek(self):
        return self.t[self.i][0] if self.i < len(self.t) else None

    def take(self, kind):
        if self.peek() != kind:
            raise TraceShape(f"expected {kind} at token {self.i}, found {self.t[self.i] if self.i < len(self.t) else 'end'}")
        self.i += 1
        return self.t[self.i - 1]

    def done(self):
        return self.i >= len(self.t)


def ev_anneal(case, run):
    tk = Toks(run["tokens"])
    u0 = tk.take("eval")[1]
    evs = []
    while not tk.done():
        t = tk.take("temp")[1]
        if t < opt(case, "min_temp"):
            evs.append("ACold")
            break
        u = tk.take("eval")[1]
        acc = False
        if tk.peek() == "draw":
            d = tk.take("draw")[1]
            e = tk.take("exp")[1]
            acc = d < e
        stop = tk.take("prog")[1] if tk.peek() == "prog" else False
        evs.append(f"AEval {cz(u)} {cbool(acc)} {cbool(stop)}")
    if not tk.done():
        raise TraceShape("tokens after the loop was left")
    return u0, evs


def ev_lns(case, run):
    toks = [t for t in run["tokens"] if t[0] not in ("draw", "shuf")]
    tk = Toks(toks)
    sign = 1 if run["minimize"] else -1
    u0 = tk.take("eval")[1]
    best = sign * u0
    evs = []
    while not tk.done():
        u = tk.take("eval")[1]
        x = sign * u
        if tk.peek() == "acc":
            acc = tk.take("acc")[1]
        else:  # accept not consulted (alns: better than best/current - the machine ignores the bit there)
            acc = x < best
        best = min(best, x)
        stop = tk.take("prog")[1] if tk.peek() == "prog" else False
        evs.append(f"mkL {cz(u)} {cbool(acc)} {cbool(stop)}")
    return u0, evs


def tabu_rows(case, run):
    """per iteration: [(move number, value)] in evaluation order + stop bit.  Moves are numbered by first occurrence
    under Python's own hash/== (what the tabu set sees), whatever objects the labels are."""
    toks = [t for t in run["tokens"] if t[0] != "draw"]
    tk = Toks(toks)
    u0 = tk.take("eval")[1]
    names = {}
    rows = []
    k = 1
    while not tk.done():
        _, labels, sols = tk.take("nb")
        ids = [names.setdefault(mv, len(names)) for mv in labels]
        if not labels:
            rows.append(([], False))
            break
        perm = tk.take("shuf")[1]
        if sorted(perm) != list(range(len(labels))):
            raise TraceShape("shuffle of something else than the candidate list")
        row = []
        for j in perm:
            t = tk.take("eval")
            pt = run["log"][k][0]
            k += 1
            if not sol_eq(pt, sols[j]):
                raise TraceShape("evaluated point is not the candidate the shuffle put there")
            row.append((ids[j], t[1]))
        stop = tk.take("prog")[1] if tk.peek() == "prog" else False
        rows.append((row, stop))
    if not tk.done():
        raise TraceShape("tokens after the loop was left")
    return u0, rows


def ev_tabu(case, run):
    u0, rows = tabu_rows(case, run)
    return u0, ["mkT " + clist(row, lambda c: f"({cnat(c[0])}, {cz(c[1])})") + " " + cbool(stop) for row, stop in rows]


def ev_evolve(case, run):
    toks = [t for t in run["tokens"] if t[0] not in ("draw", "shuf")]
    n = len(case["population"])
    need = n - min(max(opt(case, "elite_size"), 0), n)  # children per generation: while len(new_pop) < pop_size
    tk = Toks(toks)
    us0 = [tk.take("eval")[1] for _ in range(n)]
    stops = [t for t in toks if t[0] == "prog" and t[1]]
    gens = stops[0][2] if stops else opt(case, "max_iter")  # generation whose call-back asked to stop, else all
    evs = []
    for g in range(1, gens + 1):
        kids = [tk.take("eval")[1] for _ in range(need)]
        stop = False
        if tk.peek() == "prog" and tk.t[tk.i][2] == g:
            stop = tk.take("prog")[1]
        evs.append(f"mkG {clist(kids, cz)} {cbool(stop)}")
    if not tk.done():
        raise TraceShape("tokens left over")
    return us0, evs


def observed(run):
    r = run["result"]
    obj = canon_int(r["objective"])
    if obj is None:
        raise TraceShape(f"non-integral objective {r['objective']!r}")
    ids = [i for i, (pt, _) in enumerate(run["log"]) if sol_eq(pt, r["solution"])]
    return f"(mkObs {clist(ids, cnat)} {cz(obj)} {cnat(r['evaluations'])} {cnat(r['iterations'])})"


def coq_case(case, run, pinned=False):
    """(kind, term for the correspondence check, term for the spec check)"""
    s = case["solver"]
    m = cbool(run["minimize"])
    us = clist([v for _, v in run["log"]], cz)
    obs = observed(run)
    spec = f"SpecCase {m} {us} {obs}"
    if s == "anneal":
        u0, evs = ev_anneal(case, run)
        return s, f"ACase {m} {cnat(opt(case, 'max_iter'))} {cz(u0)} {clist(evs, lambda e: '(' + e + ')')} {us} {obs}", spec
    if s in ("lns", "alns"):
        u0, evs = ev_lns(case, run)
        which = 1 if s == "alns" else (2 if pinned else 0)
        return "lns", (f"LCase {which} {m} {cnat(opt(case, 'max_iter'))} {cz(opt(case, 'max_no_improve'))} {cz(u0)} "
                       f"{clist(evs, lambda e: '(' + e + ')')} {us} {obs}"), spec
    if s == "tabu":
        u0, evs = ev_tabu(case, run)
        return s, (f"TCase {m} {cnat(opt(case, 'cooldown'))} {cnat(opt(case, 'max_iter'))} {cz(opt(case, 'max_no_improve'))} {cz(u0)} "
                   f"{clist(evs, lambda e: '(' + e + ')')} {us} {obs}"), spec
    us0, evs = ev_evolve(case, run)
    return s, (f"GCase {m} {cnat(max(opt(case, 'elite_size'), 0))} {cnat(opt(case, 'max_iter'))} {clist(us0, cz)} "
               f"{clist(evs, lambda e: '(' + e + ')')} {us} {obs}"), spec


CORR = {"anneal": ("acase", "anneal_corr"), "lns": ("lcase", "lns_corr"), "tabu": ("tcase", "tabu_corr"),
        "evolve": ("gcase", "evolve_corr")}
IMPORTS = "From SV Require Import C19.Common C19.A_Anneal C19.A_Lns C19.A_Tabu C19.A_Evolve C19.A_Check.\nOpen Scope Z_scope."
COQ_MAX_EVALS = 400  # larger traces (class S) are judged by the Python oracle only


# ====================================================================================== generators
ACCEPTS = ["improving", "accept_all", "simulated_annealing", "simulated_annealing", "never", "always", "worse_only", "coin", "truthy",
           "odd_iter", "none_or_str"]


def gen_mdesc(rng, nkeys, kind=None):
    """class L: labels of the tabu moves (None = the plain keys)"""
    kind = kind or rng.choice(["plain", "plain", "none_all", "pool", "collide", "fresh", "bigint"])
    if kind == "plain" or nkeys == 0:
        return None
    if kind == "none_all":
        return [["none"]] * nkeys
    if kind == "pool":
        return gen_labels(rng, nkeys)
    if kind == "collide":
        two = gen_labels(rng, 2)
        return [rng.choice(two) for _ in range(nkeys)]
    if kind == "fresh":
        return [["tuple", [["str", "mv"], ["int", k]]] for k in range(nkeys)]
    return [["int", 1000 + k] for k in range(nkeys)]


def gen_case(rng, solver, big=False, enc=None, space_kind=None):
    max_iter = rng.choice([0, 1, 2, 3, 5, 8, 8, 12, 12, 20, 20, 30, 30, 40] + ([45, 60, 60] if big else []))
    case = {"solver": solver, "family": "rand",
            "seed": rng.choice([0, 1, 2, 7, 42, rng.randrange(10**6), rng.randrange(10**6), None if rng.random() < 0.3 else 3]),
            "cb_seed": rng.randrange(10**6), "minimize": rng.random() < 0.5, "max_iter": max_iter, "progress": gen_progress(rng, max_iter)}
    sp = gen_space(rng, space_kind, enc)
    if solver == "anneal":
        case.update(space=sp, start=gen_start(rng, sp), temperature=rng.choice([0.5, 1.0, 3.0, 10.0, 1000.0]),
                    cooling=rng.choice([["float", 0.5], ["float", 0.9], ["float", 0.9995], ["exp", 0.7], ["lin", 0.01], ["lin", 0.5],
                                        ["log", 1.0], ["log", 5.0]]),
                    min_temp=rng.choice([1e-8, 1e-8, 0.05, 0.3, 1.0]), steps=rng.choice([[1], [1, 2], [1, 2, 3]]))
    elif solver in ("lns", "alns"):
        line = sp["kind"] == "line"
        dpool, rpool = (["id", "shift"], ["step", "same", "step"]) if line else (["drop"], ["insert", "sorted"])
        nd, nr = (1, 1) if solver == "lns" else (rng.randint(1, 3), rng.randint(1, 2))
        case.update(space=sp, start=gen_start(rng, sp), destroy=[rng.choice(dpool) for _ in range(nd)],
                    repair=[rng.choice(rpool) for _ in range(nr)], accept=rng.choice(ACCEPTS),
                    start_temp=rng.choice([0.5, 2.0, 100.0]), cooling_rate=rng.choice([0.5, 0.9, 0.9995]),
                    max_no_improve=rng.choice([0, 1, 2, 3, 5, 10, 10, 100, 100, 100]), segment_size=rng.choice([1, 2, 3, 5, 100]),
                    ops_kind=rng.choice(["list", "list", "tuple"]))
    elif solver == "tabu":
        case.update(space=sp, start=gen_start(rng, sp), cooldown=rng.choice([1, 1, 2, 3, 5, 10]),
                    max_no_improve=rng.choice([0, 1, 2, 3, 5, 10, 10, 100, 100, 100]),
                    steps=rng.choice([[-1, 1], [-2, -1, 1, 2], [1, 2], [-1, 1, 3], [0, 1, -1]]), clamp=rng.random() < 0.3,
                    ret_kind=rng.choice(["list", "list", "list", "gen", "tuple", "items"]), max_cands=rng.choice([99, 99, 3, 0]))
        case["mdesc"] = gen_mdesc(rng, len(tabu_moves(case)))
    else:
        n = rng.choice([1, 2, 3, 4, 6, 8])
        case.update(space=sp, population=[gen_start(rng, sp) for _ in range(n)], elite_size=rng.choice([0, 1, 2, 2, 3, n, n + 1]),
                    mutation_rate=rng.choice([0.0, 0.1, 0.5, 1.0]), adaptive=rng.random() < 0.4,
                    tournament_k=rng.choice([1, 2, 3, 5]), max_iter=rng.choice([0, 1, 2, 3, 5, 8, 12] + ([25] if big else [])),
                    pop_kind=rng.choice(["list", "list", "tuple"]))
        case["progress"] = gen_progress(rng, case["max_iter"])
    return case


HUGE = [2**31, 10**9, 2**53 - 1, 2**53, 2**53 + 1, 2**60, 10**18, -(2**60), -(2**53 + 1), 2**44 + 1, 2**64 + 3, 2**31 - 1]


def fam_L(rng, solver, big):
    """labels: points that are None / falsy / mixed-type / rebuilt on every call; tabu moves labelled the same way"""
    case = gen_case(rng, solver, big, enc="pool", space_kind="line")
    case["family"] = "L"
    if solver == "tabu":
        case["mdesc"] = gen_mdesc(rng, len(tabu_moves(case)), rng.choice(["none_all", "none_all", "pool", "pool", "collide", "fresh", "bigint"]))
        case["max_iter"] = max(case["max_iter"], 3)
    return case


def fam_M(rng, solver, big):
    """magnitudes: exact integer objectives far beyond 2^53 (and exactly representable integral floats there)"""
    case = gen_case(rng, solver, big)
    case["family"] = "M"
    sp = case["space"]
    if rng.random() < 0.2:  # integral floats at 2^60: spacing 256, every table value a multiple of it
        sp.update(offset=rng.choice([2**60, -(2**60), 2**53]), scale=256 * rng.choice([1, 2, 5]), float=True)
    else:
        sp.update(offset=rng.choice(HUGE), scale=rng.choice([1, 1, 1, 1, 3, 2**31, 10**9]), float=False)
    if case["seed"] is None:
        case["seed"] = rng.randrange(10**6)
    case["max_iter"] = max(case["max_iter"], 3)
    return case


def fam_I(rng, solver, big):
    """iterables: one-shot generators / tuples / dict views / ranges where the API accepts them"""
    case = gen_case(rng, solver, big, enc="int" if solver == "evolve" else None)
    case["family"] = "I"
    if solver == "tabu":
        case["ret_kind"] = rng.choice(["gen", "gen", "tuple", "items"])
        case["max_iter"] = max(case["max_iter"], 2)
    elif solver == "evolve":
        if case["space"]["kind"] == "line" and rng.random() < 0.5:
            k = rng.randint(1, len(case["space"]["table"]))
            case["population"] = list(range(k))
            case["pop_kind"] = "range"
        else:
            case["pop_kind"] = "tuple"
    elif solver == "alns":
        case["ops_kind"] = "tuple"
    else:
        return None
    return case


def fam_O(rng, solver, big):
    """option corners: one base instance, one option swept over 0, 1, small values, default-1, default, default+1"""
    base = gen_case(rng, solver, big)
    base.update(family="O", seed=rng.randrange(10**6), progress=None)
    out = []

    def var(**kw):
        c = copy.deepcopy(base)
        c.update(kw)
        out.append(c)

    what = rng.choice({"anneal": ["max_iter", "progress", "temp"], "lns": ["max_iter", "mni", "progress"],
                       "alns": ["max_iter", "mni", "segment", "progress"], "tabu": ["max_iter", "cooldown", "mni", "progress"],
                       "evolve": ["max_iter", "elite", "tournament", "popsize", "progress"]}[solver])
    if solver in ("lns", "alns", "tabu"):
        base["max_no_improve"] = 100
    if what == "max_iter":
        for mi in range(0, 26 if solver == "evolve" else 42):
            var(max_iter=mi)
    elif what == "progress":
        base["max_iter"] = 12
        for interval in range(0, 8):
            for stop_at in (None, 1, rng.randint(1, 12), 12):
                var(progress={"interval": interval, "stop_at": stop_at, "ret": "True"})
    elif what == "temp":
        base["max_iter"] = 15
        for t in (1e-9, 1e-8, 2e-8, 0.5, 1.0, 1000.0):
            for mt in (0.0, 1e-8, 0.4, 1.0):
                # (min_temp=0 with a schedule that reaches temperature 0 divides by zero in exp(-delta/T) on the unchanged
                #  code - reported as a finding, outside C19's statement; not generated)
                var(temperature=t, min_temp=mt, cooling=rng.choice([["float", 0.5], ["float", 0.9995]] + ([["lin", mt]] if mt > 0 else [])))
    elif what == "mni":
        # a constant objective never improves: the run must stop exactly at max_no_improve
        base["space"] = {"kind": "line", "table": [rng.randint(-3, 3)] * 6, "float": False, "enc": "int"}
        base["start"] = rng.randrange(6)
        if solver != "tabu":
            base.update(destroy=["id"], repair=["step"])
        else:
            base["mdesc"] = None
            base["steps"] = [-1, 1]
        for mni in (0, 1, 2, 3, 4, 5, 6, 99, 100, 101):
            for mi in (mni + 30, max(mni, 1), max(mni - 1, 0)):
                var(max_no_improve=mni, max_iter=mi)
        c = copy.deepcopy(base)
        c["max_iter"] = 130 if solver != "alns" else 520
        del c["max_no_improve"]  # the default
        out.append(c)
    elif what == "segment":
        base["max_iter"] = 25
        for seg in (1, 2, 3, 4, 5, 24, 25, 26):
            var(segment_size=seg)
        var(segment_size=100, max_iter=205, max_no_improve=500)
    elif what == "cooldown":
        base["max_iter"] = 30
        for cd in list(range(1, 14)):
            var(cooldown=cd)
        c = copy.deepcopy(base)
        del c["cooldown"]
        out.append(c)
    elif what == "elite":
        for e in range(0, len(base["population"]) + 3):
            var(elite_size=e)
        c = copy.deepcopy(base)
        del c["elite_size"]
        out.append(c)
    elif what == "tournament":
        for k in range(1, len(base["population"]) + 3):
            var(tournament_k=k)
    elif what == "popsize":
        sp = base["space"]
        for n in range(1, 11):
            var(population=[gen_start(rng, sp) for _ in range(n)], elite_size=rng.choice([0, 1, 2, n]))
    return out


def fam_defaults(rng, solver):
    """class O: every option left at its documented default (only the required arguments are passed)"""
    c = gen_case(rng, solver)
    c.update(family="O-default", seed=rng.randrange(10**6), progress=None, timeout=30)
    for k in ("max_iter", "temperature", "cooling", "min_temp", "accept", "start_temp", "cooling_rate", "max_no_improve", "segment_size",
              "cooldown", "elite_size", "mutation_rate", "adaptive", "tournament_k"):
        c.pop(k, None)
    return c


def fam_S(rng, solver, big):
    """size thresholds: a few large instances (candidates per iteration, population, iterations); judged by the
    recorded-log oracle, in the Coq correspondence only while the trace stays small"""
    sizes = [17, 65, 257] + ([801, 1025, 2049] if big else [rng.choice([801, 1025])])
    k = rng.choice(sizes)
    case = gen_case(rng, solver, big, space_kind="line")
    case.update(family="S", seed=rng.randrange(10**6), timeout=30, progress=rng.choice([None, {"interval": 64, "stop_at": None, "ret": "None"}]))
    if solver == "tabu":
        n = 2 * k + 50
        case["space"] = {"kind": "line", "table": [rng.randint(-50, 50) for _ in range(n)], "float": False, "enc": rng.choice(["int", "big", "str"])}
        case.update(start=n // 2, steps=[d for d in range(-(k // 2), k - k // 2 + 1) if d != 0][:k], clamp=False, max_iter=3, cooldown=10,
                    max_no_improve=100, ret_kind=rng.choice(["list", "gen"]))
        case["mdesc"] = gen_mdesc(rng, len(case["steps"]), rng.choice(["plain", "fresh", "bigint"]))
    elif solver == "evolve":
        n = 64
        case["space"] = {"kind": "line", "table": gen_table(rng, n), "float": False, "enc": "int"}
        case.update(population=[rng.randrange(n) for _ in range(k)], elite_size=rng.choice([0, 2, k - 1]), max_iter=3, tournament_k=3)
    else:
        mi = k if not (big and solver == "anneal" and rng.random() < 0.3) else 65537
        case.update(max_iter=mi)
        if solver == "anneal":
            case.update(temperature=1000.0, cooling=["float", 0.9995], min_temp=1e-8)
        else:
            case.update(max_no_improve=mi + 1, accept=rng.choice(["simulated_annealing", "accept_all", "coin"]), segment_size=100)
    return case


def fam_H(rng, solver, big):
    """rare histories: families that drive the loops into their corner branches (see events_of)"""
    if solver == "tabu":
        case = gen_case(rng, solver, big, space_kind="line")
        n = rng.choice([2, 3, 4, 5])
        case["space"] = {"kind": "line", "table": gen_table(rng, n), "float": False, "enc": rng.choice(["int", "list", "str"])}
        case.update(start=rng.randrange(n), steps=rng.choice([[-1, 1], [-1, 1, 0], [1], [-1, 1, 2]]), clamp=rng.random() < 0.6,
                    cooldown=rng.choice([1, 2, 3, 4, 6]), max_iter=rng.choice([10, 20, 30]), max_no_improve=100)
        case["mdesc"] = gen_mdesc(rng, len(case["steps"]))
    elif solver == "anneal":
        case = gen_case(rng, solver, big)
        hot = rng.random() < 0.5
        case.update(temperature=1000.0 if hot else rng.choice([0.5, 1.0]), cooling=["float", 0.9995] if hot else ["float", rng.choice([0.5, 0.7])],
                    min_temp=1e-8 if hot else rng.choice([0.05, 0.2]), max_iter=rng.choice([15, 30, 40]))
    elif solver in ("lns", "alns"):
        case = gen_case(rng, solver, big)
        case.update(accept=rng.choice(["never", "worse_only", "odd_iter", "none_or_str", "coin"]), max_iter=rng.choice([10, 20, 30]),
                    max_no_improve=rng.choice([3, 100]), segment_size=rng.choice([1, 2, 3]))
    else:
        case = gen_case(rng, solver, big)
        n = rng.choice([2, 3, 4])
        case.update(population=[gen_start(rng, case["space"]) for _ in range(n)], elite_size=rng.choice([0, 0, 1]),
                    mutation_rate=1.0, max_iter=rng.choice([5, 8, 12]))
    case["family"] = "H"
    case["progress"] = gen_progress(rng, case["max_iter"])
    return case


W_SIZES = [129, 1025, 2049, 4097, 10001]


def fam_W(rng, solver, big):
    """work volume: every loop driven across 2^7, 2^10, 2^11, 2^12, 10^4 (10^5 for anneal / thorough) iterations with answers
    known by construction: 'first' = the start is the strict optimum and the search walks away from it for good (a bounded
    memory / cap / window would forget it), 'last' = every step improves (the best is the newest point), 'mni' = a constant
    objective must stop at exactly max_no_improve, 'wide' = one huge neighbourhood / population."""
    out = []
    sizes = W_SIZES + ([100001] if big or solver == "anneal" else [])
    for k in sizes:
        pats = ["first", "last"] + (["mni"] if solver in ("lns", "alns", "tabu") else []) + (["wide"] if solver in ("tabu", "evolve") and k <= (10001 if big else 4097) else [])
        if not big and k > 4097:
            pats = ["first", pats[1 + k % (len(pats) - 1)]]
        for pat in pats:
            m = rng.random() < 0.5
            good = 1 if m else -1  # slope that makes cell 0 the strict optimum
            slope = good if pat in ("first", "wide") else (-good if pat == "last" else 0)
            n = k + 3 if solver != "tabu" else 2 * k + 5
            case = {"solver": solver, "family": "W", "wpat": pat, "seed": rng.randrange(10**6), "cb_seed": rng.randrange(10**6), "minimize": m,
                    "max_iter": k, "progress": rng.choice([None, {"interval": 1000, "stop_at": None, "ret": "None"}]), "timeout": 60,
                    "space": {"kind": "line", "gen": ["mono", n, slope], "float": False, "enc": rng.choice(["int", "big", "str", "tuple"])},
                    "start": 0}
            if solver == "anneal":
                hot = pat == "first"
                case.update(temperature=1000.0 if hot else 1.0, cooling=["lin", 500.0 if hot else 0.5], min_temp=1e-8, steps=[1], drift=0.9,
                            expect={"iterations": k, "evaluations": k + 1})
                if pat == "first":
                    case["drift"] = 1.0
                    case["expect"]["solution_is"] = 0
            elif solver in ("lns", "alns"):
                nd = 1 if solver == "lns" else 2
                case.update(destroy=["id"] * nd, repair=["inc1"] * nd, start_temp=100.0, cooling_rate=0.9995, segment_size=100,
                            max_no_improve=k + 1, accept="always" if pat == "first" else "improving", expect={"iterations": k, "evaluations": k + 1})
                if pat == "first":
                    case["expect"]["solution_is"] = 0
                if pat == "mni":
                    case.update(max_no_improve=k, max_iter=k + 37, accept="always")
            elif solver == "tabu":
                case.update(steps=[1, 2] if pat != "last" else [1], clamp=False, cooldown=10, max_no_improve=k + 1, ret_kind="list", mdesc=None,
                            max_cands=99, move_unique=pat != "last", expect={"iterations": k})
                if pat == "first":
                    case.update(cooldown=max(1, 3 * k // 4))
                    case["expect"].update(solution_is=0, evaluations=1 + 2 * k)
                elif pat == "mni":
                    case.update(max_no_improve=k, max_iter=k + 37)
                elif pat == "wide":
                    case["space"]["gen"] = ["mono", k + 2, slope]
                    case.update(steps=list(range(1, k + 1)), max_iter=2, max_no_improve=100, move_unique=False,
                                expect={"solution_is": 0, "iterations": 2})
            else:
                case["space"]["gen"] = ["mono", 64 if pat != "wide" else 2 * k, slope if pat != "last" else good]
                del case["start"]
                if pat == "wide":
                    e = rng.choice([0, 2, k - 1])
                    case.update(population=[0] + [rng.randrange(1, 2 * k) for _ in range(k - 1)], elite_size=e, max_iter=2, mutation_rate=0.5,
                                adaptive=False, tournament_k=3, pop_kind="list",
                                expect={"solution_is": 0, "iterations": 2, "evaluations": k + 2 * (k - e)})
                else:
                    e = rng.choice([0, 1, 2])
                    case.update(population=[rng.randrange(1, 64), 0, rng.randrange(1, 64)], elite_size=e, mutation_rate=rng.choice([0.1, 1.0]),
                                adaptive=pat == "last", tournament_k=2, pop_kind="list",
                                expect={"solution_is": 0, "iterations": k, "evaluations": 3 + k * (3 - e)})
            out.append(case)
    return out


XVALS = [0.0, -0.0, 2.0**60, -(2.0**60), 2.0**60 + 256, 2.0**60 - 128, 5e-324, -5e-324, 1e-300, 0.1 + 0.2, 0.3, 33, 33.0, 1, 1.0, -1, 2**60,
         -(2**60) + 1, 1e15, -1e15 + 0.5]
XOUTSIDE = [1e308, -1e308, 1.7976931348623157e308, "inf", "-inf", "nan", 1e300]  # outside the property (POLICY_X): observation only


def fam_X(rng, solver, big):
    """float extremes: +-1e308 (differences overflow to inf), +-inf, +-0.0, denormals, 2^60 next to -2^60, 0.1+0.2 vs 0.3, ints next
    to equal floats; ints where floats are expected and vice versa (a TypeError is fine there).  NaN, +-inf and |v| >= 1e300 are
    outside the property (coordinator's POLICY_X): such cases are run, counted in the histogram `observation_only`, never judged."""
    case = gen_case(rng, solver, big, enc=rng.choice(["int", "list", "str", "tuple", "big"]), space_kind="line")
    sp = case["space"]
    n = len(sp.pop("table"))
    sp["float"] = False
    outside = rng.random() < 0.25
    sp["fvals"] = [rng.choice(XVALS + (XOUTSIDE * 2 if outside else [])) for _ in range(n)]
    outside = any(isinstance(v, str) or abs(v) >= 1e300 for v in sp["fvals"])
    case.update(family="X", nocoq=True, may_raise=False, observe_only=outside)
    if case["seed"] is None:
        case["seed"] = rng.randrange(10**6)
    r = rng.random()
    if r < 0.25:  # ints where the signature says float
        for k, v in (("temperature", 10), ("min_temp", 1), ("start_temp", 2), ("cooling_rate", 1), ("mutation_rate", rng.choice([0, 1]))):
            if k in case:
                case[k] = v
        if "cooling" in case:
            case["cooling"] = ["float", 1]
    elif r < 0.4:  # integral floats where the signature says int: a TypeError is fine, a wrong answer is not
        k = rng.choice([k for k in ("max_iter", "max_no_improve", "cooldown", "elite_size", "tournament_k") if k in case])
        case[k] = float(case[k])
        case["may_raise"] = True
    case["max_iter"] = max(case["max_iter"], 3) if not isinstance(case["max_iter"], float) else case["max_iter"]
    return case


def fam_A2(rng, solver, big):
    """in-place edits between calls: same objective / call-back / start / population OBJECTS, table or entries edited in place,
    second call (for lns/alns possibly the module's other solver) must equal a fresh call on a copy of the edited input"""
    case = gen_case(rng, solver, big, enc="list")
    sp = case["space"]
    case.update(family="A2", max_iter=max(case["max_iter"], 5), progress=None)
    if case["seed"] is None:
        case["seed"] = rng.randrange(10**6)
    ed = {}
    if sp["kind"] == "line":
        n = len(sp["table"])
        ed["table"] = [[rng.randrange(n), rng.choice([-40, -15, 15, 40, 0])] for _ in range(rng.randint(1, 3))]
    else:
        n = len(sp["w"])
        ed["w"] = [rng.randrange(n), rng.randrange(n), rng.choice([-40, 40])]
    if solver == "evolve":
        if rng.random() < 0.7:
            ed["pop"] = [rng.randrange(len(case["population"])), gen_start(rng, sp)]
        case["pop_kind"] = rng.choice(["list", "list", "dup"])
    else:
        if rng.random() < 0.6:
            ed["start"] = gen_start(rng, sp)
        if solver in ("lns", "alns") and rng.random() < 0.5:
            ed["switch"] = True
    case["a2"] = ed
    return case


def corpus_cases():
    out = []
    d = VERIF / "corpus" / "C19"
    if d.exists():
        for f in sorted(d.glob("*.json")):
            o = json.loads(f.read_text())
            if o.get("part", "A") == "A" and "solver" in o:
                o.setdefault("family", "corpus")
                out.append(o)
    return out


def rejected_improvement(case, run):
    """lns/alns: accept() answered False on a candidate better than the best so far (class of the lns finding)."""
    if case["solver"] not in ("lns", "alns") or run["status"] != "ok":
        return False
    sign = 1 if run["minimize"] else -1
    toks = [t for t in run["tokens"] if t[0] in ("eval", "acc")]
    best, last = None, None
    for t in toks:
        if t[0] == "eval":
            x = sign * t[1]
            if best is None:
                best = x
            last = x
        else:
            if last is not None and last < best and not t[1]:
                return True
            best = min(best, last)
    return False


def events_of(case, run):
    """class H: which rare branches of the loops this run went through (histogram only - never judged)."""
    ev = set()
    if run["status"] != "ok":
        return ev
    s = case["solver"]
    toks = run["tokens"]
    sign = 1 if run["minimize"] else -1
    if any(t[0] == "prog" and t[1] for t in toks):
        ev.add("progress_stop")
    its, mi = run["result"]["iterations"], opt(case, "max_iter")
    if its == mi and any(t[0] == "prog" and t[1] and t[2] == mi for t in toks):
        ev.add("progress_stop_at_last_iteration")
    try:
        if s == "anneal":
            xs = [sign * t[1] for t in toks if t[0] == "eval"]
            if any(t[0] == "temp" and t[1] < opt(case, "min_temp") for t in toks):
                ev.add("anneal_cold_stop")
            for i, t in enumerate(toks):
                if t[0] == "draw" and i + 1 < len(toks) and toks[i + 1][0] == "exp":
                    ev.add("anneal_uphill_accepted" if t[1] < toks[i + 1][1] else "anneal_uphill_rejected")
            if xs and xs.index(min(xs)) < len(xs) - 1 and "anneal_uphill_accepted" in ev:
                ev.add("anneal_worse_accepted_after_best")
        elif s in ("lns", "alns"):
            if rejected_improvement(case, run):
                ev.add(s + "_accept_rejects_new_best")
            if its < mi and "progress_stop" not in ev:
                ev.add(s + "_no_improve_break")
            if s == "alns" and its >= case.get("segment_size", 100):
                ev.add("alns_weights_updated")
        elif s == "tabu":
            u0, rows = tabu_rows(case, run)
            cd = opt(case, "cooldown")
            best, tl, ts = sign * u0, [], set()
            for row, stop in rows:
                if not row:
                    ev.add("tabu_empty_candidates")
                    break
                bn = None
                for mv, u in row:
                    x = sign * u
                    if mv in ts and x >= best:
                        continue
                    if bn is None or x < bn[0]:
                        bn = (x, mv)
                if bn is None:
                    ev.add("tabu_all_candidates_tabu")
                    break
                if bn[1] in ts:
                    ev.add("tabu_aspiration")
                if len(tl) == cd:
                    ts.discard(tl[0])
                    tl = tl[1:]
                tl.append(bn[1])
                ts.add(bn[1])
                if ts != set(tl):
                    ev.add("tabu_set_deque_drift")
                if bn[0] < best:
                    best = bn[0]
                else:
                    ev.add("tabu_non_improving_move")
            if its < mi and "progress_stop" not in ev and not ev & {"tabu_empty_candidates", "tabu_all_candidates_tabu"}:
                ev.add("tabu_no_improve_break")
            if any(t[0] == "nb" and any(m is None for m in t[1]) for t in toks):
                ev.add("tabu_none_move_label")
        else:
            n = len(case["population"])
            e = min(max(opt(case, "elite_size"), 0), n)
            if e == n:
                ev.add("evolve_no_children")
            if e == 0:
                ev.add("evolve_no_elite")
            xs = [sign * v for _, v in run["log"]]
            if xs and xs.index(min(xs)) >= n:
                ev.add("evolve_best_is_a_child")
            if xs and xs.count(min(xs)) > 1:
                ev.add("evolve_tie_for_best")
    except TraceShape:
        ev.add("trace_shape")
    return ev


def nontrivial(case, run):
    """a run in which a worse-or-equal point was evaluated after the best one, or the best is not the start."""
    if run["status"] != "ok" or len(run["log"]) < 3:
        return False
    vals = [v for _, v in run["log"]]
    sign = 1 if run["minimize"] else -1
    xs = [sign * v for v in vals]
    b = xs.index(min(xs))
    return b > 0 or any(x > xs[0] for x in xs)


def shrink(case):
    """cheap minimisation of a failing case: fewer iterations while any oracle clause still fails"""
    cur = case
    if "max_iter" not in cur:
        return cur
    for mi in sorted({0, 1, 2, 3, 5, 8, 12, 20}):
        if mi >= cur["max_iter"]:
            break
        c = copy.deepcopy(cur)
        c["max_iter"] = mi
        if c.get("progress") and c["progress"].get("stop_at"):
            c["progress"]["stop_at"] = min(c["progress"]["stop_at"], max(mi, 1))
        if judge_all(c, run_case(c)):
            return c
    return cur


# ====================================================================================== the check
def run(ctx: Ctx):
    ctx.rule = ("anneal/tabu_search/lns/alns/evolve on integer lookup-table objectives (line of 1..16 cells, permutations of 3..5; "
                "ties, plateaus, discontinuities, constants), random seeds, max_iter 0..40 (..60 thorough), all accept rules incl. "
                "custom ones, progress call-backs that stop; each case run as (dir f), (other dir, -f), (dir f) again on the same "
                "input objects; plus families L (None/falsy/mixed/fresh labels for points and tabu moves), I (generators, tuples, dict "
                "views, ranges), S (17..2049 candidates / individuals / iterations), M (exact objectives up to 2^64, shift invariance), "
                "O (option sweeps, default-argument calls), A (inputs intact, shared inputs), H (directed rare branches); "
                "non-trivial = >=3 evaluations and the best point is not the start or a worse point was evaluated; "
                "distinct = canonical JSON of the case")
    ctx.proof_step(["C19"])
    only_a = os.environ.get("C19_ONLY") == "A"  # development switch: skip part B
    if (COQ / "Props" / "C19_b.v").exists() and not only_a:
        ctx.proof_step(["C19"], props_file="Props/C19_b.v")
    run_part_a(ctx)
    if _partb is not None and hasattr(_partb, "run_part") and not only_a:
        _partb.run_part(ctx)
    if not only_a:
        from harness.props import C19_shapes

        C19_shapes.run_shapes(ctx)


def all_cases(ctx):
    big = ctx.tier == "thorough"
    rng = ctx.rng
    cases = corpus_cases()
    per = ctx.budget(90, 2500)
    fam = ctx.budget(1, 12)
    for s in SOLVERS:
        cases += [gen_case(rng, s, big) for _ in range(per)]
        cases += [fam_L(rng, s, big) for _ in range(24 * fam)]
        cases += [fam_M(rng, s, big) for _ in range(24 * fam)]
        cases += [c for c in (fam_I(rng, s, big) for _ in range(16 * fam)) if c]
        cases += [fam_H(rng, s, big) for _ in range(24 * fam)]
        for _ in range(fam):
            cases += fam_O(rng, s, big)
        cases += [fam_S(rng, s, big) for _ in range(2 if not big else 8)]
        cases += fam_W(rng, s, big)
        cases += [fam_X(rng, s, big) for _ in range(24 * fam)]
        cases += [fam_A2(rng, s, big) for _ in range(16 * fam)]
    cases += [fam_defaults(rng, s) for s in rng.sample(SOLVERS, 2 if not big else 5)]
    return cases


def work_case(case):
    """worker: run one case, judge it, cut its traces into Coq terms - only the digest travels back to the parent"""
    runs = run_case(case)
    a, b = runs[0], runs[1]
    eff = a.get("case") or case  # class A2: the case as edited in place
    d = {"eff": eff if a.get("case") else None, "status": a["status"], "result": a.get("result"), "error": a.get("error"),
         "mirror": b.get("result") or b.get("error"), "nruns": 3 + (runs[3] is not None),
         "bads": [(tag, w) for tag, rr, w in judge_all(case, runs)], "events": sorted(events_of(eff, a)),
         "nontrivial": nontrivial(eff, a), "nlog": len(a["log"]), "stats": {}, "coq": [], "shape_fail": []}
    if a["status"] == "ok":
        sv, st = eff["solver"], d["stats"]
        st[f"{sv}.main_loop_iterations"] = a["result"]["iterations"]
        st[f"{sv}.objective_evaluations"] = a["result"]["evaluations"]
        if sv == "tabu":
            st["tabu.candidates_in_one_iteration"] = max([len(t[1]) for t in a["tokens"] if t[0] == "nb"] or [0])
            if eff.get("move_unique"):
                st["tabu.tabu_list_length"] = min(opt(eff, "cooldown"), a["result"]["iterations"])
        if sv == "evolve":
            n_ = len(eff["population"])
            st["evolve.children_per_generation"] = n_ - min(max(int(opt(eff, "elite_size")), 0), n_)
            st["evolve.population_size"] = n_
        if sv in ("lns", "alns", "tabu") and a["result"]["iterations"] < opt(eff, "max_iter"):
            st[f"{sv}.no_improve_counter"] = a["result"]["iterations"]
    if not eff.get("observe_only"):
        for rr in (a, b):
            if rr["status"] != "ok" or len(rr["log"]) > COQ_MAX_EVALS or eff.get("nocoq"):
                continue
            try:
                kind, term, spec = coq_case(eff, rr)
            except TraceShape as e:
                d["shape_fail"].append((str(e), rr.get("result"), rr["tokens"][:40]))
                continue
            want_spec = rr is a or eff["family"] in ("M", "L")  # the Coq spec checker: primary runs (both runs for M and L)
            d["coq"].append((kind, term, spec if want_spec else None, rr["result"]))
    return d


def run_part_a(ctx: Ctx):
    cases = all_cases(ctx)
    # heaviest first, small chunks: the few work-volume cases must not queue up behind each other in one worker
    cases.sort(key=lambda c: -(int(opt(c, "max_iter")) * (len(c["population"]) if c["solver"] == "evolve" else len(c.get("steps", [1])))))
    import time as _t
    _t0 = _t.time()
    results = pmap(work_case, cases, chunksize=2)
    ctx.extra["t_impl_runs_s"] = round(_t.time() - _t0, 1)
    terms = {k: [] for k in CORR}
    metas = {k: [] for k in CORR}
    specs, spec_meta = [], []
    shape_fail = []
    loop_max = {}
    for case, d in zip(cases, results):
        case = d["eff"] or case
        for k, v in d["stats"].items():
            loop_max[k] = max(loop_max.get(k, 0), int(v))
        ctx.evaluations += d["nruns"]
        ctx.count("solver", case["solver"])
        ctx.count("family", case["family"])
        ctx.count("max_iter", min(int(opt(case, "max_iter")), 100))
        ctx.count("point_encoding", case["space"].get("enc", "-"))
        ctx.count("status", d["status"] if d["status"] != "ok" else d["result"]["status"])
        for e in d["events"]:
            ctx.count("event", e)
        if d["status"] == "ok":
            ctx.count("evals_bucket", min(d["nlog"] // 10 * 10, 100))
            ctx.count("iters_vs_max", "early" if d["result"]["iterations"] < opt(case, "max_iter") else "full")
        if case.get("observe_only"):
            ctx.count("observation_only", f"{case['solver']}:{d['status']}" + (":oracle-would-object" if d["bads"] else ""))
            continue
        bads = [f"{case['solver']} [{case['family']}] {tag}: {w}" for tag, w in d["bads"]]
        if bads and len(ctx.violations) < 8:
            small = shrink(case)
            sr = run_case(small)
            sb = [f"{small['solver']} [{small['family']}] {tag}: {w}" for tag, rr, w in judge_all(small, sr)] or bads
            ctx.violation(sb[0], {"case": small, "impl": {"primary": sr[0].get("result") or sr[0].get("error"),
                                                          "mirror": sr[1].get("result") or sr[1].get("error")}})
        elif bads:
            ctx.violation(bads[0], {"case": case, "impl": {"primary": d["result"] or d["error"]}})
        if d["nontrivial"]:
            ctx.nontriv(json.dumps(case, sort_keys=True))
        ctx.sample({"case": {k: case[k] for k in ("solver", "family", "seed", "minimize")}, "result": d["result"]}, 3)
        for msg, res, toks in d["shape_fail"]:
            shape_fail.append((case, {"result": res, "tokens": toks}, msg))
        for kind, term, spec, res in d["coq"]:
            terms[kind].append(term)
            metas[kind].append((case, {"result": res}))
            if spec is not None:
                specs.append(spec)
                spec_meta.append((case, {"result": res}))
            ctx.traces_validated += 1

    ctx.extra["max_loop_counts"] = dict(sorted(loop_max.items()))
    ctx.extra["t_judge_s"] = round(_t.time() - _t0 - ctx.extra["t_impl_runs_s"], 1)
    disagree = []
    for kind, (ctype, chk) in CORR.items():
        failing = ctx.coq_check(kind, IMPORTS, ctype, chk, terms[kind], shard=120)
        disagree += [(kind, metas[kind][i], terms[kind][i]) for i in failing]
    spec_fail = ctx.coq_check("spec", IMPORTS, "speccase", "spec_ok", specs, shard=200)
    for i in spec_fail:
        case, rr = spec_meta[i]
        if not any(v["replay"].get("case") == case for v in ctx.violations) and not ctx.violations:
            ctx.violation(f"{case['solver']}: Coq spec checker obs_spec_check rejects the implementation's result "
                          f"{rr['result']} against the recorded log", {"case": case, "impl": rr["result"]})

    ctx.notes += [
        "C19/A: objective values are exact Python ints or integral floats (exact comparisons); rounding of other float-valued objectives is outside the theorems",
        "C19/A: float decisions (cooling schedule vs min_temp, random() < exp(-delta/T), accept rules of lns/alns) enter the machines as recorded bits",
        "C19/A: identity of a solution = index of its evaluation; the returned solution is matched by VALUE AND TYPE against deep copies taken at call time",
        "C19/A: seed reproducibility is a property of random.Random (trusted, tested by running each case twice on the same input objects)",
        "C19/A: tabu cooldown>=1 and a non-empty evolve population are assumed (the code raises IndexError otherwise); since dcd4794 a tabu SOLUTION may be the object None (corpus/C19/tabu_none_solution.json)",
        "C19/A: NaN, +-inf and |v| >= 1e300 as objective values are outside the property: generated, run, counted (histogram observation_only), never judged",
        "C19/A: shift invariance (f+c gives the same trajectory, objective+c) is a metamorphic oracle for exact-integer objectives only",
    ]

    # ---- disagreement between machine and implementation with no property violation found: search, then report
    if (disagree or shape_fail or ctx.broken) and not ctx.violations:
        found = False
        pool = [d[1][0] for d in disagree] + [s[0] for s in shape_fail]
        fams = [fam_L, fam_M, fam_H, lambda r, s, b: fam_I(r, s, b) or gen_case(r, s, b)]
        for k in range(ctx.budget(3000, 12000)):
            if pool and k % 2 == 0:
                case = copy.deepcopy(ctx.rng.choice(pool))
                case["seed"] = ctx.rng.randrange(10**6)
                case["cb_seed"] = ctx.rng.randrange(10**6)
                case["minimize"] = ctx.rng.random() < 0.5
            elif k % 4 == 1:
                case = ctx.rng.choice(fams)(ctx.rng, ctx.rng.choice(SOLVERS), True)
            else:
                case = gen_case(ctx.rng, ctx.rng.choice(SOLVERS), True)
            runs = run_case(case)
            bad = judge_all(case, runs)
            if bad:
                ctx.violation(f"{case['solver']}: {bad[0][2]}", {"case": case, "impl": {"primary": runs[0].get("result") or runs[0].get("error"),
                                                                                    "mirror": runs[1].get("result") or runs[1].get("error")}})
                found = True
                break
        if not found:
            for kind, (case, rr), term in disagree[:2]:
                model = ctx.coq_eval(f"show_{kind}", IMPORTS, _model_term(kind, term))
                ctx.violation(f"correspondence lemma {kind}: machine SV.C19.A_* and implementation differ (solution identity / objective / "
                              f"evaluations / iterations)", {"case": case, "impl": rr["result"], "model": model[-400:],
                                                              "lemma": f"Cases/C19/{kind}_*.v corr"}, no_input=True)
            for case, rr, msg in shape_fail[:2]:
                ctx.violation(f"{case['solver']}: recorded trace does not have the shape of the modelled loop ({msg})",
                              {"case": case, "impl": rr.get("result"), "tokens": rr["tokens"][:40]}, no_input=True)


def _model_term(kind, term):
    parts = term.split(" ", 1)[1]
    fn = {"anneal": "fun m mi u0 evs (us : list Z) (o : observed) => anneal m mi u0 evs",
          "lns": "fun w m mi mni u0 evs (us : list Z) (o : observed) => l_model w m mi mni u0 evs",
          "tabu": "fun m cd mi mni u0 evs (us : list Z) (o : observed) => tabu m cd mi mni u0 evs",
          "evolve": "fun m el mi us0 evs (us : list Z) (o : observed) => evolve m el mi us0 evs"}[kind]
    return f"({fn}) {parts}"


def replay(obj):
    case = obj.get("case")
    if isinstance(case, dict) and case.get("part") == "shapes":
        from harness.props import C19_shapes

        return C19_shapes.replay(obj)
    if not case or "solver" not in case or "space" not in case:
        if _partb is not None and hasattr(_partb, "replay"):
            return _partb.replay(obj)
        print("replay names an unchecked obligation:", obj.get("unchecked") or obj.get("what"))
        return 1
    runs = run_case(case)
    for tag, rr in (("primary", runs[0]), ("mirror", runs[1])):
        print(tag, "minimize" if rr["minimize"] else "maximize", "-f" if rr["negate"] else "f", "->", rr.get("result") or rr.get("error"))
        print("   evaluated:", [(p, v) for p, v in rr["log"]][:40])
    bad = judge_all(case, runs)
    for tag, rr, w in bad:
        print("   oracle:", tag, w)
    if not bad:
        print("   oracle: ok")
    return 1 if bad else 0
