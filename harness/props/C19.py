"""C19 (part A) - anneal, tabu_search, lns, alns, evolve report the best point they evaluated.

Tie to /repo: each solver is run on integer-valued objectives (lookup tables over a small line / weight
matrices over permutations: plateaus, ties, discontinuities) with every source of non-determinism recorded
from OUTSIDE (no source change): the objective is wrapped by a recording proxy (deep copy of the point at
call time = identity by evaluation index), `Random`/`exp`/cooling/`_get_accept_fn` are wrapped in the
solver's module namespace, user call-backs are wrapped.  The recorded trace is cut into one event per loop
iteration and replayed through the Gallina bookkeeping machines SV.C19.A_* inside coqc (vm_compute); the
machine's (identity, objective, evaluations, iterations) must equal the implementation's Result.
Independently, a Python oracle judges every Result against the property itself (objective = f(solution)
re-evaluated, at least as good as every logged value, evaluations = number of calls, mirror, determinism)
and the Coq checker `obs_spec_check` (proved sound w.r.t. ObsSpec) judges it again inside the kernel.

Part B (DE, PSO, Nelder-Mead, bayesian_opt, powell, bfgs) lives in harness/props/C19_b.py.
"""
from __future__ import annotations

import copy
import importlib
import json
import math
import os
import random

from harness.core import COQ, VERIF, Ctx, cbool, clist, cnat, cz, guarded, pmap

ID = "C19"
ANCHORS_A = ["solvor/anneal.py", "solvor/tabu.py", "solvor/lns.py", "solvor/genetic.py", "solvor/utils/helpers.py"]
try:  # part B owns its own anchors
    from harness.props import C19_b as _partb  # noqa: F401

    ANCHORS = ANCHORS_A + [a for a in getattr(_partb, "ANCHORS", []) if a not in ANCHORS_A]
except Exception:  # noqa: BLE001
    _partb = None
    ANCHORS = list(ANCHORS_A)

SOLVERS = ["anneal", "lns", "alns", "tabu", "evolve"]
KNOWN_LNS = "C19-lns-best-lost"  # id of the (now repaired) finding; only honoured if listed as open


# ====================================================================================== spaces
def gen_table(rng, n):
    k = rng.randrange(7)
    if k == 0:  # few distinct values: many ties
        return [rng.randint(-2, 2) for _ in range(n)]
    if k == 1:  # plateaus
        t, v = [], rng.randint(-5, 5)
        while len(t) < n:
            t += [v] * rng.randint(1, 4)
            v += rng.choice([-3, -1, 0, 1, 2])
        return t[:n]
    if k == 2:  # V shape with a discontinuity
        c = rng.randrange(n)
        t = [abs(i - c) for i in range(n)]
        j = rng.randrange(n)
        t[j] += rng.choice([-7, 7])
        return t
    if k == 3:  # several local optima
        return [((i * 5) % 7) - (i // 3) for i in range(n)]
    if k == 4:  # constant
        return [rng.randint(-3, 3)] * n
    if k == 5:  # monotone (the improving direction is one-sided)
        s = rng.choice([-1, 1])
        return [s * i for i in range(n)]
    return [rng.randint(-9, 9) for _ in range(n)]


def gen_space(rng, want=None):
    kind = want or rng.choice(["line", "line", "perm"])
    if kind == "line":
        n = rng.choice([1, 2, 3, 5, 8, 12, 16])
        return {"kind": "line", "table": gen_table(rng, n), "float": rng.random() < 0.25}
    n = rng.choice([3, 4, 5])
    return {"kind": "perm", "w": [[rng.randint(-3, 3) for _ in range(n)] for _ in range(n)], "float": rng.random() < 0.25}


def raw_f(space, negate):
    """The user's objective (deterministic, integer-valued) - `negate` gives -f for the mirror run."""
    s = -1 if negate else 1
    if space["kind"] == "line":
        T = space["table"]

        def f(x):
            return s * T[x[0] if isinstance(x, list) else x]
    else:
        W = space["w"]

        def f(p):
            return s * sum(W[i][p[i]] for i in range(len(p)))
    return f


def clamp(x, n):
    return max(0, min(n - 1, x))


def gen_start(rng, space, boxed=False):
    if space["kind"] == "line":
        x = rng.randrange(len(space["table"]))
        return [x] if boxed else x
    p = list(range(len(space["w"])))
    rng.shuffle(p)
    return p


def gen_progress(rng, max_iter):
    r = rng.random()
    if r < 0.4:
        return None
    interval = rng.choice([0, 1, 1, 2, 3, 5])
    stop_at = rng.choice([None, None, rng.randint(1, max(1, max_iter)), rng.randint(1, max(1, max_iter))])
    return {"interval": interval, "stop_at": stop_at, "ret": rng.choice(["True", "True", "1", "None", "False"])}


# ====================================================================================== recording
class Rec:
    def __init__(self):
        self.tokens = []
        self.log = []  # (deep copy of the point, integer value f returned)
        self.keep = []  # keeps every object whose id() we recorded alive


def rec_objective(space, negate, rec):
    f = raw_f(space, negate)
    as_float = space.get("float")

    def obj(x):
        v = f(x)
        rec.log.append((copy.deepcopy(x), v))
        rec.tokens.append(("eval", v, id(x)))
        rec.keep.append(x)
        return float(v) if as_float else v

    return obj


def rec_random_class(rec):
    class RecRandom(random.Random):
        # both overridden so that CPython keeps the getrandbits-based _randbelow: same stream as Random
        def getrandbits(self, k):
            return super().getrandbits(k)

        def random(self):
            r = super().random()
            rec.tokens.append(("draw", r))
            return r

    return RecRandom


def rec_progress(pspec, rec):
    if pspec is None:
        return None, 0

    def cb(progress):
        hit = pspec["stop_at"] is not None and progress.iteration >= pspec["stop_at"]
        ret = {"True": True, "1": 1, "None": None, "False": False}[pspec["ret"]] if hit else None
        rec.tokens.append(("prog", ret is True, progress.iteration, progress.evaluations))
        return ret

    return cb, pspec["interval"]


class Patched:
    """Temporarily replace attributes of a module (restored on exit)."""

    def __init__(self, mod, **attrs):
        self.mod, self.attrs, self.saved = mod, attrs, {}

    def __enter__(self):
        for k, v in self.attrs.items():
            self.saved[k] = getattr(self.mod, k)
            setattr(self.mod, k, v)

    def __exit__(self, *a):
        for k, v in self.saved.items():
            setattr(self.mod, k, v)


# ====================================================================================== solver runs
def call_anneal(case, minimize, negate, rec):
    M = importlib.import_module("solvor.anneal")

    sp = case["space"]
    n = len(sp["table"]) if sp["kind"] == "line" else len(sp["w"])
    nrng = random.Random(case["cb_seed"])
    steps = case.get("steps", [1, 2])

    def neighbors(x):
        if sp["kind"] == "line":
            return clamp(x + nrng.choice(steps) * nrng.choice([-1, 1]), n)
        p = list(x)
        i, j = nrng.randrange(n), nrng.randrange(n)
        p[i], p[j] = p[j], p[i]
        return p

    orig_exp, orig_ec = M.exp, M.exponential_cooling

    def rexp(a):
        e = orig_exp(a)
        rec.tokens.append(("exp", e))
        return e

    def wrap_sched(s):
        def w(t0, it, mi):
            t = s(t0, it, mi)
            rec.tokens.append(("temp", t))
            return t

        return w

    def rec_ec(rate=0.9995):
        return wrap_sched(orig_ec(rate))

    ck, cv = case["cooling"]
    cooling = {"float": lambda: cv, "exp": lambda: wrap_sched(orig_ec(cv)), "lin": lambda: wrap_sched(M.linear_cooling(cv)),
               "log": lambda: wrap_sched(M.logarithmic_cooling(cv))}[ck]()
    cb, interval = rec_progress(case["progress"], rec)
    with Patched(M, Random=rec_random_class(rec), exp=rexp, exponential_cooling=rec_ec):
        return M.anneal(copy.deepcopy(case["start"]), rec_objective(sp, negate, rec), neighbors, minimize=minimize,
                        temperature=case["temperature"], cooling=cooling, min_temp=case["min_temp"],
                        max_iter=case["max_iter"], seed=case["seed"], on_progress=cb, progress_interval=interval)


def lns_ops(case):
    sp = case["space"]
    n = len(sp["table"]) if sp["kind"] == "line" else len(sp["w"])

    def d_id(x, rng):
        return x

    def d_shift(x, rng):  # line: forget the position partly
        return clamp(x + rng.choice([-1, 0, 1]), n)

    def d_drop(p, rng):  # perm: remove k elements
        k = rng.randint(1, max(1, n - 1))
        out = rng.sample(p, k)
        return ([e for e in p if e not in out], out)

    def r_dec1(x, rng):
        return x - 1

    def r_step(x, rng):
        return clamp(x + rng.choice([-2, -1, 1, 2]), n)

    def r_same(x, rng):
        return x

    def r_insert(part, rng):
        rest, out = list(part[0]), list(part[1])
        for e in out:
            rest.insert(rng.randint(0, len(rest)), e)
        return rest

    def r_sorted(part, rng):
        return list(part[0]) + sorted(part[1])

    return {"id": d_id, "shift": d_shift, "drop": d_drop, "dec1": r_dec1, "step": r_step, "same": r_same,
            "insert": r_insert, "sorted": r_sorted}


def make_accept(spec, cb_seed):
    if spec in ("improving", "accept_all", "simulated_annealing"):
        return spec
    arng = random.Random(cb_seed + 1)
    return {"never": lambda c, n, i, r: False, "always": lambda c, n, i, r: True,
            "worse_only": lambda c, n, i, r: n > c, "coin": lambda c, n, i, r: arng.random() < 0.5,
            "truthy": lambda c, n, i, r: (1 if n <= c else 0), "odd_iter": lambda c, n, i, r: i % 2 == 1}[spec]


def call_lns(case, minimize, negate, rec):
    M = importlib.import_module("solvor.lns")

    ops = lns_ops(case)
    orig_get = M._get_accept_fn

    def rec_get(accept, *a, **k):
        fn = orig_get(accept, *a, **k)

        def w(cur, new, it, rng):
            r = fn(cur, new, it, rng)
            rec.tokens.append(("acc", bool(r)))
            return r

        return w

    cb, interval = rec_progress(case["progress"], rec)
    common = dict(minimize=minimize, accept=make_accept(case["accept"], case["cb_seed"]), start_temp=case["start_temp"],
                  cooling_rate=case["cooling_rate"], max_iter=case["max_iter"], max_no_improve=case["max_no_improve"],
                  seed=case["seed"], on_progress=cb, progress_interval=interval)
    with Patched(M, Random=rec_random_class(rec), _get_accept_fn=rec_get):
        if case["solver"] == "lns":
            return M.lns(copy.deepcopy(case["start"]), rec_objective(case["space"], negate, rec), ops[case["destroy"][0]],
                         ops[case["repair"][0]], **common)
        return M.alns(copy.deepcopy(case["start"]), rec_objective(case["space"], negate, rec), [ops[d] for d in case["destroy"]],
                      [ops[r] for r in case["repair"]], segment_size=case["segment_size"], **common)


def call_tabu(case, minimize, negate, rec):
    M = importlib.import_module("solvor.tabu")

    sp = case["space"]
    n = len(sp["table"]) if sp["kind"] == "line" else len(sp["w"])
    steps = case.get("steps", [-2, -1, 1, 2])

    def neighbors(x):
        if sp["kind"] == "line":
            cands = []
            for d in steps:
                y = x[0] + d
                if case.get("clamp"):
                    y = clamp(y, n)
                if 0 <= y < n:
                    cands.append((d, [y]))
        else:
            cands = []
            for i in range(n):
                for j in range(i + 1, n):
                    p = list(x)
                    p[i], p[j] = p[j], p[i]
                    cands.append(((i, j), p))
            cands = cands[: case.get("max_cands", 99)]
        rec.tokens.append(("nb", [(m, id(s)) for m, s in cands]))
        rec.keep.append(cands)
        return cands if case.get("as_list", True) else iter(cands)

    cb, interval = rec_progress(case["progress"], rec)
    with Patched(M, Random=rec_random_class(rec)):
        return M.tabu_search(copy.deepcopy(case["start"]), rec_objective(sp, negate, rec), neighbors, minimize=minimize,
                             cooldown=case["cooldown"], max_iter=case["max_iter"], max_no_improve=case["max_no_improve"],
                             seed=case["seed"], on_progress=cb, progress_interval=interval)


def call_evolve(case, minimize, negate, rec):
    M = importlib.import_module("solvor.genetic")

    sp = case["space"]
    n = len(sp["table"]) if sp["kind"] == "line" else len(sp["w"])
    crng = random.Random(case["cb_seed"])

    def crossover(a, b):
        if sp["kind"] == "line":
            return crng.choice([a, b, (a + b) // 2])
        k = crng.randint(0, n)
        head = list(a[:k])
        return head + [e for e in b if e not in head]

    def mutate(a):
        if sp["kind"] == "line":
            return clamp(a + crng.choice([-2, -1, 1, 2]), n)
        p = list(a)
        i, j = crng.randrange(n), crng.randrange(n)
        p[i], p[j] = p[j], p[i]
        return p

    cb, interval = rec_progress(case["progress"], rec)
    with Patched(M, Random=rec_random_class(rec)):
        return M.evolve(rec_objective(sp, negate, rec), copy.deepcopy(case["population"]), crossover, mutate, minimize=minimize,
                        elite_size=case["elite_size"], mutation_rate=case["mutation_rate"],
                        adaptive_mutation=case["adaptive"], max_iter=case["max_iter"], tournament_k=case["tournament_k"],
                        seed=case["seed"], on_progress=cb, progress_interval=interval)


CALL = {"anneal": call_anneal, "lns": call_lns, "alns": call_lns, "tabu": call_tabu, "evolve": call_evolve}


def canon_int(x):
    if isinstance(x, bool):
        return None
    if isinstance(x, int):
        return x
    if isinstance(x, float) and x == int(x) and abs(x) < 2**53:
        return int(x)
    return None


def run_once(case, minimize, negate):
    """One implementation run -> picklable record."""
    rec = Rec()
    res = guarded(CALL[case["solver"]], case, minimize, negate, rec, timeout=5)
    out = {"minimize": minimize, "negate": negate, "status": res[0], "tokens": [t[:3] if t[0] == "eval" else t for t in rec.tokens],
           "log": rec.log}
    if res[0] == "ok":
        r = res[1]
        out["result"] = {"solution": copy.deepcopy(r.solution), "objective": r.objective, "iterations": r.iterations,
                         "evaluations": r.evaluations, "status": r.status.name}
    else:
        out["error"] = list(res[1:])
    return out


def run_case(case):
    """primary run, mirror run (other direction on -f), repeat of the primary (determinism)."""
    m = case["minimize"]
    a = run_once(case, m, False)
    b = run_once(case, not m, True)
    c = run_once(case, m, False)
    return a, b, c


# ====================================================================================== independent oracle
def judge(case, run):
    """The property itself on one run.  Returns None or a description."""
    if run["status"] != "ok":
        return f"implementation {run['status']}: {run.get('error')}"
    r = run["result"]
    f = raw_f(case["space"], run["negate"])
    minimize = run["minimize"]
    try:
        fx = f(r["solution"])
    except Exception as e:  # noqa: BLE001
        return f"returned solution {r['solution']!r} is not a point of the space ({type(e).__name__})"
    if r["objective"] != fx:
        return f"reported objective {r['objective']} != f(returned solution {r['solution']}) = {fx}"
    vals = [v for _, v in run["log"]]
    worst = [v for v in vals if (v < r["objective"] if minimize else v > r["objective"])]
    if worst:
        k = vals.index(worst[0])
        return (f"reported objective {r['objective']} is worse than evaluated candidate #{k} {run['log'][k][0]} "
                f"with f={worst[0]} ({'minimize' if minimize else 'maximize'})")
    starts = case["population"] if case["solver"] == "evolve" else [case["start"]]
    for s in starts:
        fs = f(s)
        if fs < r["objective"] if minimize else fs > r["objective"]:
            return f"reported objective {r['objective']} is worse than start point {s} with f={fs}"
    if r["evaluations"] != len(vals):
        return f"evaluations={r['evaluations']} but the objective was called {len(vals)} times"
    return None


def judge_mirror(a, b):
    if a["status"] != "ok" or b["status"] != "ok":
        return None  # judged by `judge`
    ra, rb = a["result"], b["result"]
    if ra["solution"] != rb["solution"] or ra["objective"] != -rb["objective"] or ra["evaluations"] != rb["evaluations"] \
            or ra["iterations"] != rb["iterations"]:
        return (f"mirror broken: {'min' if a['minimize'] else 'max'} f -> ({ra['solution']}, {ra['objective']}, evals {ra['evaluations']}, "
                f"it {ra['iterations']}) but {'min' if b['minimize'] else 'max'} -f -> ({rb['solution']}, {rb['objective']}, "
                f"evals {rb['evaluations']}, it {rb['iterations']})")
    return None


def judge_det(a, c):
    if a["status"] != c["status"]:
        return f"same seed twice: {a['status']} vs {c['status']}"
    if a["status"] != "ok":
        return None
    if a["result"] != c["result"] or [v for _, v in a["log"]] != [v for _, v in c["log"]]:
        return f"same seed twice gives different results: {a['result']} vs {c['result']}"
    return None


# ====================================================================================== trace -> events
class TraceShape(Exception):
    pass


class Toks:
    def __init__(self, toks):
        self.t, self.i = toks, 0

    def peek(self):
        return self.t[self.i][0] if self.i < len(self.t) else None

    def take(self, kind):
        if self.peek() != kind:
            raise TraceShape(f"expected {kind} at token {self.i}, found {self.t[self.i] if self.i < len(self.t) else 'end'}")
        self.i += 1
        return self.t[self.i - 1]

    def done(self):
        return self.i >= len(self.t)


def ev_anneal(case, run):
    tk = Toks(run["tokens"])
    u0 = tk.take("eval")[1]
    evs = []
    while not tk.done():
        t = tk.take("temp")[1]
        if t < case["min_temp"]:
            evs.append("ACold")
            break
        u = tk.take("eval")[1]
        acc = False
        if tk.peek() == "draw":
            d = tk.take("draw")[1]
            e = tk.take("exp")[1]
            acc = d < e
        stop = tk.take("prog")[1] if tk.peek() == "prog" else False
        evs.append(f"AEval {cz(u)} {cbool(acc)} {cbool(stop)}")
    if not tk.done():
        raise TraceShape("tokens after the loop was left")
    return u0, evs


def ev_lns(case, run):
    toks = [t for t in run["tokens"] if t[0] != "draw"]
    tk = Toks(toks)
    sign = 1 if run["minimize"] else -1
    u0 = tk.take("eval")[1]
    best = sign * u0
    evs = []
    while not tk.done():
        u = tk.take("eval")[1]
        x = sign * u
        if tk.peek() == "acc":
            acc = tk.take("acc")[1]
        else:  # accept not consulted (alns: better than best/current - the machine ignores the bit there)
            acc = x < best
        best = min(best, x)
        stop = tk.take("prog")[1] if tk.peek() == "prog" else False
        evs.append(f"mkL {cz(u)} {cbool(acc)} {cbool(stop)}")
    return u0, evs


def ev_tabu(case, run):
    toks = [t for t in run["tokens"] if t[0] != "draw"]
    tk = Toks(toks)
    u0 = tk.take("eval")[1]
    names = {}
    evs = []
    while not tk.done():
        cands = tk.take("nb")[1]
        by_id = {}
        for mv, oid in cands:
            by_id[oid] = names.setdefault(mv, len(names))
        if len(by_id) != len(cands):
            raise TraceShape("neighbour objects not distinct")
        row = []
        for _ in cands:
            t = tk.take("eval")
            if t[2] not in by_id:
                raise TraceShape("evaluated object is not one of the candidates")
            row.append((by_id.pop(t[2]), t[1]))
        stop = tk.take("prog")[1] if tk.peek() == "prog" else False
        evs.append("mkT " + clist(row, lambda c: f"({cnat(c[0])}, {cz(c[1])})") + " " + cbool(stop))
    return u0, evs


def ev_evolve(case, run):
    toks = [t for t in run["tokens"] if t[0] != "draw"]
    n = len(case["population"])
    need = n - min(max(case["elite_size"], 0), n)  # children per generation: while len(new_pop) < pop_size
    tk = Toks(toks)
    us0 = [tk.take("eval")[1] for _ in range(n)]
    stops = [t for t in toks if t[0] == "prog" and t[1]]
    gens = stops[0][2] if stops else case["max_iter"]  # generation whose call-back asked to stop, else all
    evs = []
    for g in range(1, gens + 1):
        kids = [tk.take("eval")[1] for _ in range(need)]
        stop = False
        if tk.peek() == "prog" and tk.t[tk.i][2] == g:
            stop = tk.take("prog")[1]
        evs.append(f"mkG {clist(kids, cz)} {cbool(stop)}")
    if not tk.done():
        raise TraceShape("tokens left over")
    return us0, evs


def observed(run):
    r = run["result"]
    obj = canon_int(r["objective"])
    if obj is None:
        raise TraceShape(f"non-integral objective {r['objective']!r}")
    ids = [i for i, (pt, _) in enumerate(run["log"]) if pt == r["solution"] and type(pt) is type(r["solution"])]
    return f"(mkObs {clist(ids, cnat)} {cz(obj)} {cnat(r['evaluations'])} {cnat(r['iterations'])})"


def coq_case(case, run, pinned=False):
    """(kind, term for the correspondence check, term for the spec check)"""
    s = case["solver"]
    m = cbool(run["minimize"])
    us = clist([v for _, v in run["log"]], cz)
    obs = observed(run)
    spec = f"SpecCase {m} {us} {obs}"
    if s == "anneal":
        u0, evs = ev_anneal(case, run)
        return s, f"ACase {m} {cnat(case['max_iter'])} {cz(u0)} {clist(evs, lambda e: '(' + e + ')')} {us} {obs}", spec
    if s in ("lns", "alns"):
        u0, evs = ev_lns(case, run)
        which = 1 if s == "alns" else (2 if pinned else 0)
        return "lns", (f"LCase {which} {m} {cnat(case['max_iter'])} {cz(case['max_no_improve'])} {cz(u0)} "
                       f"{clist(evs, lambda e: '(' + e + ')')} {us} {obs}"), spec
    if s == "tabu":
        u0, evs = ev_tabu(case, run)
        return s, (f"TCase {m} {cnat(case['cooldown'])} {cnat(case['max_iter'])} {cz(case['max_no_improve'])} {cz(u0)} "
                   f"{clist(evs, lambda e: '(' + e + ')')} {us} {obs}"), spec
    us0, evs = ev_evolve(case, run)
    return s, (f"GCase {m} {cnat(max(case['elite_size'], 0))} {cnat(case['max_iter'])} {clist(us0, cz)} "
               f"{clist(evs, lambda e: '(' + e + ')')} {us} {obs}"), spec


CORR = {"anneal": ("acase", "anneal_corr"), "lns": ("lcase", "lns_corr"), "tabu": ("tcase", "tabu_corr"),
        "evolve": ("gcase", "evolve_corr")}
IMPORTS = "From SV Require Import C19.Common C19.A_Anneal C19.A_Lns C19.A_Tabu C19.A_Evolve C19.A_Check.\nOpen Scope Z_scope."


# ====================================================================================== generators
def gen_case(rng, solver, big=False):
    max_iter = rng.choice([0, 1, 2, 3, 5, 8, 8, 12, 12, 20, 20, 30, 30, 40] + ([45, 60, 60] if big else []))
    case = {"solver": solver, "seed": rng.choice([0, 1, 2, 7, 42, rng.randrange(10**6), rng.randrange(10**6), None if rng.random() < 0.3 else 3]), "cb_seed": rng.randrange(10**6),
            "minimize": rng.random() < 0.5, "max_iter": max_iter, "progress": gen_progress(rng, max_iter)}
    if solver == "anneal":
        sp = gen_space(rng)
        case.update(space=sp, start=gen_start(rng, sp), temperature=rng.choice([0.5, 1.0, 3.0, 10.0, 1000.0]),
                    cooling=rng.choice([["float", 0.5], ["float", 0.9], ["float", 0.9995], ["exp", 0.7], ["lin", 0.01], ["lin", 0.5],
                                        ["log", 1.0], ["log", 5.0]]),
                    min_temp=rng.choice([1e-8, 1e-8, 0.05, 0.3, 1.0]), steps=rng.choice([[1], [1, 2], [1, 2, 3]]))
    elif solver in ("lns", "alns"):
        sp = gen_space(rng)
        line = sp["kind"] == "line"
        dpool, rpool = (["id", "shift"], ["step", "same", "step"]) if line else (["drop"], ["insert", "sorted"])
        nd, nr = (1, 1) if solver == "lns" else (rng.randint(1, 3), rng.randint(1, 2))
        case.update(space=sp, start=gen_start(rng, sp), destroy=[rng.choice(dpool) for _ in range(nd)],
                    repair=[rng.choice(rpool) for _ in range(nr)],
                    accept=rng.choice(["improving", "accept_all", "simulated_annealing", "simulated_annealing", "never", "always",
                                       "worse_only", "coin", "truthy", "odd_iter"]),
                    start_temp=rng.choice([0.5, 2.0, 100.0]), cooling_rate=rng.choice([0.5, 0.9, 0.9995]),
                    max_no_improve=rng.choice([0, 1, 2, 3, 5, 10, 10, 100, 100, 100]), segment_size=rng.choice([1, 2, 3, 5, 100]))
    elif solver == "tabu":
        sp = gen_space(rng)
        case.update(space=sp, start=gen_start(rng, sp, boxed=True), cooldown=rng.choice([1, 1, 2, 3, 5, 10]),
                    max_no_improve=rng.choice([0, 1, 2, 3, 5, 10, 10, 100, 100, 100]),
                    steps=rng.choice([[-1, 1], [-2, -1, 1, 2], [1, 2], [-1, 1, 3], [0, 1, -1]]), clamp=rng.random() < 0.3,
                    as_list=rng.random() < 0.8, max_cands=rng.choice([99, 99, 3, 0]))
    else:
        sp = gen_space(rng)
        n = rng.choice([1, 2, 3, 4, 6, 8])
        case.update(space=sp, population=[gen_start(rng, sp) for _ in range(n)], elite_size=rng.choice([0, 1, 2, 2, 3, n, n + 1]),
                    mutation_rate=rng.choice([0.0, 0.1, 0.5, 1.0]), adaptive=rng.random() < 0.4,
                    tournament_k=rng.choice([1, 2, 3, 5]), max_iter=rng.choice([0, 1, 2, 3, 5, 8, 12] + ([25] if big else [])))
        case["progress"] = gen_progress(rng, case["max_iter"])
    return case


def corpus_cases():
    out = []
    d = VERIF / "corpus" / "C19"
    if d.exists():
        for f in sorted(d.glob("*.json")):
            o = json.loads(f.read_text())
            if o.get("part", "A") == "A" and "solver" in o:
                out.append(o)
    return out


def rejected_improvement(case, run):
    """lns: accept() answered False on a candidate better than the best so far (class of the lns finding)."""
    if case["solver"] != "lns" or run["status"] != "ok":
        return False
    sign = 1 if run["minimize"] else -1
    toks = [t for t in run["tokens"] if t[0] in ("eval", "acc")]
    best, last = None, None
    for t in toks:
        if t[0] == "eval":
            x = sign * t[1]
            if best is None:
                best = x
            last = x
        else:
            if last is not None and last < best and not t[1]:
                return True
            best = min(best, last)
    return False


def nontrivial(case, run):
    """a run in which a worse-or-equal point was evaluated after the best one, or the best is not the start."""
    if run["status"] != "ok" or len(run["log"]) < 3:
        return False
    vals = [v for _, v in run["log"]]
    sign = 1 if run["minimize"] else -1
    xs = [sign * v for v in vals]
    b = xs.index(min(xs))
    return b > 0 or any(x > xs[0] for x in xs)


# ====================================================================================== the check
def run(ctx: Ctx):
    ctx.rule = ("anneal/tabu_search/lns/alns/evolve on integer lookup-table objectives (line of 1..16 cells, permutations of 3..5; "
                "ties, plateaus, discontinuities, constants), random seeds, max_iter 0..30 (..60 thorough), all accept rules incl. "
                "custom ones, progress call-backs that stop; each case run as (dir f), (other dir, -f), (dir f) again; "
                "non-trivial = >=3 evaluations and the best point is not the start or a worse point was evaluated; "
                "distinct = canonical JSON of the case")
    ctx.proof_step(["C19"])
    only_a = os.environ.get("C19_ONLY") == "A"  # development switch: skip part B
    if (COQ / "Props" / "C19_b.v").exists() and not only_a:
        ctx.proof_step(["C19"], props_file="Props/C19_b.v")
    run_part_a(ctx)
    if _partb is not None and hasattr(_partb, "run_part") and not only_a:
        _partb.run_part(ctx)


def run_part_a(ctx: Ctx):
    big = ctx.tier == "thorough"
    per = ctx.budget(200, 2500)
    cases = corpus_cases()
    for s in SOLVERS:
        cases += [gen_case(ctx.rng, s, big) for _ in range(per)]
    known = {f["id"] for f in ctx.open_findings()}
    results = pmap(run_case, cases)
    terms = {k: [] for k in CORR}
    metas = {k: [] for k in CORR}
    specs, spec_meta = [], []
    shape_fail = []
    for case, (a, b, c) in zip(cases, results):
        ctx.evaluations += 3
        ctx.count("solver", case["solver"])
        ctx.count("max_iter", case["max_iter"])
        ctx.count("status", a["status"] if a["status"] != "ok" else a["result"]["status"])
        if a["status"] == "ok":
            ctx.count("evals_bucket", min(len(a["log"]) // 10 * 10, 100))
            ctx.count("iters_vs_max", "early" if a["result"]["iterations"] < case["max_iter"] else "full")
        bad = None
        for tag, rr in (("primary", a), ("mirror", b)):
            w = judge(case, rr)
            if w:
                if KNOWN_LNS in known and rejected_improvement(case, rr) and "worse than evaluated" in w:
                    ctx.known_hit(KNOWN_LNS, f"{w} (case seed {case['seed']})")
                    continue
                bad = bad or f"{case['solver']} {tag} run: {w}"
        if case["seed"] is not None:  # seed=None: fresh entropy per run, only the per-run clauses apply
            bad = bad or judge_mirror(a, b) and f"{case['solver']}: {judge_mirror(a, b)}"
            bad = bad or judge_det(a, c) and f"{case['solver']}: {judge_det(a, c)}"
        if bad:
            ctx.violation(bad, {"case": case, "impl": {"primary": a.get("result") or a.get("error"), "mirror": b.get("result") or b.get("error")}})
        if nontrivial(case, a):
            ctx.nontriv(json.dumps(case, sort_keys=True))
        ctx.sample({"case": {k: case[k] for k in ("solver", "seed", "max_iter", "minimize")}, "result": a.get("result")}, 3)
        for rr in (a, b):
            if rr["status"] != "ok":
                continue
            try:
                kind, term, spec = coq_case(case, rr)
            except TraceShape as e:
                shape_fail.append((case, rr, str(e)))
                continue
            terms[kind].append(term)
            metas[kind].append((case, rr))
            specs.append(spec)
            spec_meta.append((case, rr))
            ctx.traces_validated += 1

    disagree = []
    for kind, (ctype, chk) in CORR.items():
        failing = ctx.coq_check(kind, IMPORTS, ctype, chk, terms[kind])
        disagree += [(kind, metas[kind][i], terms[kind][i]) for i in failing]
    spec_fail = ctx.coq_check("spec", IMPORTS, "speccase", "spec_ok", specs)
    for i in spec_fail:
        case, rr = spec_meta[i]
        if not (KNOWN_LNS in known and rejected_improvement(case, rr)):
            if not any(v["replay"].get("case") == case for v in ctx.violations):
                ctx.violation(f"{case['solver']}: Coq spec checker obs_spec_check rejects the implementation's result "
                              f"{rr['result']} against the recorded log", {"case": case, "impl": rr["result"]})

    ctx.notes += [
        "C19/A: objective values are integers (exact comparisons); rounding of float-valued objectives is outside the theorems",
        "C19/A: float decisions (cooling schedule vs min_temp, random() < exp(-delta/T), accept rules of lns/alns) enter the machines as recorded bits",
        "C19/A: identity of a solution = index of its evaluation; the returned solution is matched by VALUE against deep copies taken at call time",
        "C19/A: seed reproducibility is a property of random.Random (trusted, tested by running each case twice)",
        "C19/A: tabu cooldown>=1 and a non-empty evolve population are assumed (the code raises IndexError otherwise)",
    ]

    # ---- disagreement between machine and implementation with no property violation found: search, then report
    if (disagree or shape_fail or ctx.broken) and not ctx.violations:
        found = False
        pool = [d[1][0] for d in disagree] + [s[0] for s in shape_fail]
        for k in range(ctx.budget(3000, 12000)):
            if pool and k % 2 == 0:
                case = copy.deepcopy(ctx.rng.choice(pool))
                case["seed"] = ctx.rng.randrange(10**6)
                case["cb_seed"] = ctx.rng.randrange(10**6)
                case["minimize"] = ctx.rng.random() < 0.5
            else:
                case = gen_case(ctx.rng, ctx.rng.choice(SOLVERS), True)
            a, b, c = run_case(case)
            w = judge(case, a) or judge(case, b) or (case["seed"] is not None and (judge_mirror(a, b) or judge_det(a, c)))
            if w:
                ctx.violation(f"{case['solver']}: {w}", {"case": case, "impl": {"primary": a.get("result") or a.get("error"),
                                                                              "mirror": b.get("result") or b.get("error")}})
                found = True
                break
        if not found:
            for kind, (case, rr), term in disagree[:2]:
                model = ctx.coq_eval(f"show_{kind}", IMPORTS, _model_term(kind, term))
                ctx.violation(f"correspondence lemma {kind}: machine SV.C19.A_* and implementation differ (solution identity / objective / "
                              f"evaluations / iterations)", {"case": case, "impl": rr["result"], "model": model[-400:],
                                                              "lemma": f"Cases/C19/{kind}_*.v corr"}, no_input=True)
            for case, rr, msg in shape_fail[:2]:
                ctx.violation(f"{case['solver']}: recorded trace does not have the shape of the modelled loop ({msg})",
                              {"case": case, "impl": rr.get("result"), "tokens": rr["tokens"][:40]}, no_input=True)


def _model_term(kind, term):
    parts = term.split(" ", 1)[1]
    fn = {"anneal": "fun m mi u0 evs (us : list Z) (o : observed) => anneal m mi u0 evs",
          "lns": "fun w m mi mni u0 evs (us : list Z) (o : observed) => l_model w m mi mni u0 evs",
          "tabu": "fun m cd mi mni u0 evs (us : list Z) (o : observed) => tabu m cd mi mni u0 evs",
          "evolve": "fun m el mi us0 evs (us : list Z) (o : observed) => evolve m el mi us0 evs"}[kind]
    return f"({fn}) {parts}"


def replay(obj):
    case = obj.get("case")
    if not case or "solver" not in case:
        if _partb is not None and hasattr(_partb, "replay"):
            return _partb.replay(obj)
        print("replay names an unchecked obligation:", obj.get("unchecked") or obj.get("what"))
        return 1
    a, b, c = run_case(case)
    rc = 0
    for tag, rr in (("primary", a), ("mirror", b)):
        w = judge(case, rr)
        print(tag, "minimize" if rr["minimize"] else "maximize", "-f" if rr["negate"] else "f", "->", rr.get("result") or rr.get("error"))
        print("   evaluated:", [(p, v) for p, v in rr["log"]][:40])
        print("   oracle:", w or "ok")
        rc |= 1 if w else 0
    for w in (judge_mirror(a, b), judge_det(a, c)):
        if w and case.get("seed") is not None:
            print("   oracle:", w)
            rc = 1
    return rc
