"""C03 - LP verdicts and optima are exact (simplex); interior point is right when it says OPTIMAL.

Tie to /repo.  Random small integer LPs are solved by solvor.simplex.solve_lp (working tree) with
solvor.simplex._pivot wrapped so that every pivot (row, col) is recorded.  The same inputs are run
through the Gallina transliteration SV.C03.Simplex.solve_lp inside coqc (vm_compute, exact rationals,
eps = 1e-10) and status / pivot sequence / iteration count / solution / objective must agree
(`corr_*` lemmas); a second family of lemmas checks that eps = 0 takes the same decisions (`eps0_*`),
a third evaluates the PROVED certificate checkers (optimality by weak duality, Farkas, improving ray)
on the implementation's own answers (`cert_*`).  Independently of Coq, an exact vertex-enumeration
oracle (fractions.Fraction) written here judges every answer against the property itself.
Interior point: OPTIMAL answers are compared with the exact optimum, FEASIBLE answers with the 0.01
residual, exceptions on infeasible/unbounded input are violations; the final (x, y, z) iterate is captured
and the Gallina convergence gate (proved to imply eps-feasibility and a duality-gap bound) is evaluated on it.
"""
from __future__ import annotations

import itertools
import json
import math
from fractions import Fraction

from harness.core import Ctx, VERIF, cbool, clist, cnat, cq, guarded, pmap

ID = "C03"
ANCHORS = ["solvor/simplex.py", "solvor/interior_point.py", "solvor/utils/validate.py"]

IMPORTS = ("From Coq Require Import QArith.\nFrom SV Require Import C03.Simplex C03.SimplexCorr C03.Cert C03.Ipm.\n"
           "Open Scope Q_scope.")
TOL = 1e-7


# ---------------------------------------------------------------------------------- generators
def gen_lp(rng, big=False):
    """Integer LP  min/max c.x, A x <= b, x >= 0  with forced degeneracy."""
    m = rng.choice([1, 2, 2, 3, 3, 3, 4, 4, 5])
    n = rng.choice([1, 2, 2, 3, 3, 3, 4, 4, 5])
    if big and rng.random() < 0.15:
        m, n = rng.randint(4, 7), rng.randint(4, 7)
    pz = rng.choice([0.0, 0.2, 0.4, 0.6])
    A = [[0 if rng.random() < pz else rng.randint(-5, 5) for _ in range(n)] for _ in range(m)]
    bstyle = rng.random()
    if bstyle < 0.3:
        b = [rng.randint(0, 5) for _ in range(m)]
    elif bstyle < 0.45:
        b = [rng.choice([0, 0, 1, 2]) for _ in range(m)]
    elif bstyle < 0.8:
        b = [rng.randint(-5, 5) for _ in range(m)]
    else:
        # feasible by construction (x0 >= 0), negative rhs likely: phase 1 has work to do
        x0 = [rng.randint(0, 3) for _ in range(n)]
        b = [sum(a * x for a, x in zip(row, x0)) + rng.choice([0, 0, 1, 2]) for row in A]
    c = [rng.randint(-5, 5) if rng.random() > 0.2 else 0 for _ in range(n)]
    # structural edits named in the property's quantifier
    for _ in range(rng.choice([0, 1, 1, 2])):
        r = rng.random()
        i, k = rng.randrange(m), rng.randrange(m)
        j = rng.randrange(n)
        if r < 0.2 and m > 1:          # duplicate row (same or different rhs)
            A[k] = list(A[i]); b[k] = b[i] if rng.random() < 0.6 else b[i] + rng.randint(-2, 2)
        elif r < 0.4 and m > 1:        # parallel / anti-parallel row
            f = rng.choice([2, -1, -2, 3])
            A[k] = [f * a for a in A[i]]; b[k] = f * b[i] + rng.choice([0, 0, 1, -1])
        elif r < 0.5:                  # zero row
            A[i] = [0] * n; b[i] = rng.choice([0, 0, 1, 3, -1])
        elif r < 0.6:                  # zero column
            for row in A:
                row[j] = 0
        elif r < 0.8:                  # ties in the ratio test: rhs proportional to column j
            f = rng.choice([0, 1, 2])
            for t in range(m):
                if A[t][j] > 0:
                    b[t] = f * A[t][j]
        elif r < 0.9:                  # box row  x_j <= u  (bounded problems)
            A[i] = [0] * n; A[i][j] = 1; b[i] = rng.randint(0, 4)
        else:                          # lower bound  -x_j <= -l  (negative rhs: phase 1)
            A[i] = [0] * n; A[i][j] = -1; b[i] = -rng.randint(0, 3)
    minimize = rng.random() < 0.5
    max_iter = None if rng.random() < 0.65 else rng.randint(0, 6)
    return {"c": c, "A": A, "b": b, "minimize": minimize, "max_iter": max_iter}


INEXACT = [3, -3, 5, -5, 7, -7, 9, -9, 11, -11, 6, 10, 13]


def gen_lp_inexact(rng):
    """Integer LPs whose float pivots are inexact (coefficients 3, 5, 7, 9, 11, ... give thirds / sevenths after one pivot)
    combined with the forced-degeneracy shapes: a base row together with its opposite (an equality written as two
    inequalities, or an infeasible / slack pair with gap -1 / +1), duplicates, scaled duplicates, rows with rhs 0.
    Mostly feasible by construction (rhs = row . x0 for a small x0 >= 0) so that linearly dependent rows turn into
    0 = 0 rows that only carry round-off, and phase 2 has work left."""
    n = rng.choice([1, 2, 2, 2, 3, 3, 3, 4])
    pz = rng.choice([0.0, 0.0, 0.25, 0.4])
    x0 = [rng.choice([0, 0, 1, 1, 2, 3]) for _ in range(n)] if rng.random() < 0.75 else None

    def coef():
        if rng.random() < pz:
            return 0
        return rng.choice(INEXACT) if rng.random() < 0.75 else rng.randint(-3, 3)

    def row():
        r = [coef() for _ in range(n)]
        if not any(r):
            r[rng.randrange(n)] = rng.choice(INEXACT)
        return r

    def rhs(r):
        if x0 is None:
            return rng.choice([0, 0, 1, -1, 2, 3, -3, rng.randint(-6, 6)])
        return sum(a * x for a, x in zip(r, x0))

    A, b = [], []
    for _ in range(rng.choice([1, 1, 1, 2])):
        base = row()
        t = rhs(base)
        A.append(base); b.append(t)
        shape = rng.random()
        if shape < 0.45:      # opposite row: equality (gap 0), infeasible pair (gap -1) or band (gap +1, +2)
            gap = rng.choice([0, 0, 0, 0, -1, 1, 2])
            A.append([-a for a in base]); b.append(-t + gap)
        elif shape < 0.6:     # duplicate
            A.append(list(base)); b.append(t if rng.random() < 0.7 else t + rng.choice([-1, 1]))
        elif shape < 0.85:    # scaled duplicate / scaled opposite
            f = rng.choice([2, 3, -2, -3])
            A.append([f * a for a in base]); b.append(f * t + rng.choice([0, 0, 0, 0, 1, -1]))
        if rng.random() < 0.3:  # and once more: three-fold degeneracy
            f = rng.choice([1, -1, 2])
            A.append([f * a for a in base]); b.append(f * t + (0 if f != -1 else rng.choice([0, 0, 1])))
    for _ in range(rng.choice([0, 0, 0, 1, 1, 2])):
        r = row()
        A.append(r); b.append(rhs(r) + rng.choice([0, 0, 1, 2, 4]) if x0 is not None else rng.choice([0, 0, 1, 2, 3, -2, 8]))
    while len(A) > 6 or len(A) + n > 10:
        k = rng.randrange(len(A)); del A[k]; del b[k]
    if rng.random() < 0.5:
        order = list(range(len(A))); rng.shuffle(order)
        A = [A[i] for i in order]; b = [b[i] for i in order]
    c = [rng.choice([0, 1, -1, 2, -2, 3, -3, 5, -7]) for _ in range(n)]
    minimize = rng.random() < 0.5
    max_iter = None if rng.random() < 0.92 else rng.randint(2, 8)
    return {"c": c, "A": A, "b": b, "minimize": minimize, "max_iter": max_iter}


EDGE_CASES = [
    # the witness of the repaired phase-1 defect and its neighbours
    {"c": [1, 1], "A": [[-1, -1], [1, 0], [0, 1], [-1, 0]], "b": [-2, 3, 3, -1], "minimize": True, "max_iter": 1},
    {"c": [1, 1], "A": [[-1, -1], [1, 0], [0, 1], [-1, 0]], "b": [-2, 3, 3, -1], "minimize": True, "max_iter": 2},
    {"c": [1, 1], "A": [[-1, -1], [1, 0], [0, 1], [-1, 0]], "b": [-2, 3, 3, -1], "minimize": True, "max_iter": 3},
    {"c": [1, 1], "A": [[-1, -1], [1, 0], [0, 1], [-1, 0]], "b": [-2, 3, 3, -1], "minimize": True, "max_iter": 0},
    # artificial stays basic after phase 1 (redundant equality written as two inequalities)
    {"c": [1, 2], "A": [[1, 1], [-1, -1], [2, 2], [-2, -2]], "b": [2, -2, 4, -4], "minimize": True, "max_iter": None},
    {"c": [1, 2], "A": [[1, 1], [-1, -1], [2, 2], [-2, -2]], "b": [2, -2, 4, -4], "minimize": False, "max_iter": None},
    # zero row with negative rhs: infeasible;  zero row with rhs 0
    {"c": [1], "A": [[0]], "b": [-1], "minimize": True, "max_iter": None},
    {"c": [1], "A": [[0]], "b": [0], "minimize": False, "max_iter": None},
    # unbounded, and unbounded after phase 1
    {"c": [-1, 0], "A": [[-1, 1]], "b": [1], "minimize": True, "max_iter": None},
    {"c": [1, 1], "A": [[-1, -1], [1, -1]], "b": [-1, 2], "minimize": False, "max_iter": None},
    # degenerate vertex (Beale-like ties), classic cycling example scaled to integers
    {"c": [-3, 80, -2, 24], "A": [[1, -32, -4, 36], [1, -24, -1, 6], [0, 0, 1, 0]], "b": [0, 0, 1], "minimize": True, "max_iter": None},
    {"c": [3, 2], "A": [[1, 1], [1, 3], [1, 0]], "b": [4, 6, 3], "minimize": False, "max_iter": None},
    {"c": [0, 0], "A": [[1, 1]], "b": [0], "minimize": True, "max_iter": None},
    {"c": [], "A": [[]], "b": [1], "minimize": True, "max_iter": None},
    {"c": [], "A": [[]], "b": [-1], "minimize": True, "max_iter": None},
]


# ---------------------------------------------------------------------------------- implementation
_TRACE = []


def _install_trace():
    import solvor.simplex as S

    if getattr(S._pivot, "_c03_wrapped", False):
        return
    orig = S._pivot

    def traced(matrix, m, row, col, eps):
        _TRACE.append((int(row), int(col)))
        return orig(matrix, m, row, col, eps)

    traced._c03_wrapped = True
    traced._c03_orig = orig
    S._pivot = traced      # _phase1/_phase2 look the name up at call time


def _call_simplex(case):
    from solvor.simplex import solve_lp

    kw = {"minimize": case["minimize"]}
    if case["max_iter"] is not None:
        kw["max_iter"] = case["max_iter"]
    if case.get("eps") is not None:
        kw["eps"] = case["eps"]
    return solve_lp(list(case["c"]), [list(r) for r in case["A"]], list(case["b"]), **kw)


def run_simplex(case):
    """-> dict(status, solution, objective, iterations, pivots) or dict(fail=...)"""
    _install_trace()
    del _TRACE[:]
    res = guarded(_call_simplex, case, timeout=case.get("timeout", 10))
    piv = list(_TRACE)
    if res[0] != "ok":
        return {"fail": list(res), "pivots": piv}
    r = res[1]
    return {"status": r.status.name, "solution": [float(v) for v in r.solution], "objective": float(r.objective),
            "iterations": int(r.iterations), "pivots": piv}


# ---------------------------------------------------------------------------------- exact oracle
def _solve_square(M, rhs):
    """Gaussian elimination over Fraction; None if singular."""
    k = len(M)
    a = [list(map(Fraction, M[i])) + [Fraction(rhs[i])] for i in range(k)]
    for col in range(k):
        p = next((r for r in range(col, k) if a[r][col] != 0), None)
        if p is None:
            return None
        a[col], a[p] = a[p], a[col]
        inv = 1 / a[col][col]
        a[col] = [v * inv for v in a[col]]
        for r in range(k):
            if r != col and a[r][col] != 0:
                f = a[r][col]
                a[r] = [v - f * w for v, w in zip(a[r], a[col])]
    return [a[i][k] for i in range(k)]


def _basic_feasible(cols, rhs):
    """All basic feasible solutions of  sum_j cols[j] * v_j = rhs, v >= 0  (cols: list of column vectors)."""
    k = len(rhs)
    N = len(cols)
    for comb in itertools.combinations(range(N), k):
        M = [[cols[j][i] for j in comb] for i in range(k)]
        sol = _solve_square(M, rhs)
        if sol is None or any(v < 0 for v in sol):
            continue
        v = [Fraction(0)] * N
        for j, s in zip(comb, sol):
            v[j] = s
        yield v


def oracle_lp(c, A, b, minimize):
    """Exact verdict by vertex enumeration: ('OPTIMAL', opt) | ('INFEASIBLE',) | ('UNBOUNDED',).
    Primal  {A x + s = b, x,s >= 0}  is non-empty iff it has a basic feasible solution; given that, the optimum is
    finite iff the dual  {A^T y - t = -w, y,t >= 0}  is non-empty (LP duality), and is then attained at a vertex."""
    m, n = len(b), len(c)
    w = [Fraction(v) if minimize else -Fraction(v) for v in c]
    pcols = [[Fraction(A[i][j]) for i in range(m)] for j in range(n)] + [[Fraction(1 if i == k else 0) for i in range(m)] for k in range(m)]
    best = None
    for v in _basic_feasible(pcols, [Fraction(x) for x in b]):
        val = sum(w[j] * v[j] for j in range(n))
        if best is None or val < best:
            best = val
    if best is None:
        return ("INFEASIBLE",)
    if n == 0:
        return ("OPTIMAL", Fraction(0))
    dcols = [[Fraction(A[i][j]) for j in range(n)] for i in range(m)] + [[Fraction(-1 if j == k else 0) for j in range(n)] for k in range(n)]
    dual_ok = next(iter(_basic_feasible(dcols, [-x for x in w])), None) is not None
    if not dual_ok:
        return ("UNBOUNDED",)
    return ("OPTIMAL", best if minimize else -best)


def judge_simplex(case, out, orc):
    """None if the answer obeys the property, else a description."""
    if "fail" in out:
        return f"solve_lp did not return: {out['fail']}"
    st = out["status"]
    c, A, b = case["c"], case["A"], case["b"]
    if st == "MAX_ITER":
        if case["max_iter"] is None:
            return "MAX_ITER with the default limit of 100000 on a tiny LP"
        if out["iterations"] > case["max_iter"]:
            return f"iterations {out['iterations']} exceed max_iter {case['max_iter']}"
        return None
    if st not in ("OPTIMAL", "INFEASIBLE", "UNBOUNDED"):
        return f"unexpected status {st}"
    if st != orc[0]:
        return f"status {st} but the exact verdict is {orc[0]}" + (f" (optimum {orc[1]})" if orc[0] == "OPTIMAL" else "")
    if st == "OPTIMAL":
        x = out["solution"]
        if len(x) != len(c):
            return f"solution has length {len(x)}"
        if any(not math.isfinite(v) for v in x) or not math.isfinite(out["objective"]):
            return "non-finite solution/objective"
        if any(v < -TOL for v in x):
            return f"negative component in {x}"
        for i, row in enumerate(A):
            lhs = sum(a * v for a, v in zip(row, x))
            # relative residual: the tolerance scales with the magnitude of the row's terms (a row multiplied by 2^30 is the same
            # constraint; the float evaluation of a.x alone carries |a||x| * 1e-16)
            if lhs > b[i] + TOL * (1 + abs(b[i]) + sum(abs(a * v) for a, v in zip(row, x))):
                return f"row {i} violated: {lhs} > {b[i]}"
        cx = sum(a * v for a, v in zip(c, x))
        if abs(cx - out["objective"]) > TOL * (1 + abs(cx)):
            return f"objective {out['objective']} != c.x = {cx}"
        opt = float(orc[1])
        if abs(out["objective"] - opt) > TOL * (1 + abs(opt)):
            return f"objective {out['objective']} but the true optimum is {orc[1]}"
    return None


def _oracle(case):
    o = case.get("oracle")
    if o:
        from harness.props import C03_hard as H

        return (H.oracle_small_n if o == "small_n" else H.exact_simplex)(case["c"], case["A"], case["b"], case["minimize"])
    return oracle_lp(case["c"], case["A"], case["b"], case["minimize"])


def _work(case):
    out = run_simplex(case)
    orc = _oracle(case)
    return out, orc, judge_simplex(case, out, orc)


# ---------------------------------------------------------------------------------- Coq terms
def _q(x):
    return cq(Fraction(x))


def coq_case(case, out):
    inf_obj = not math.isfinite(out["objective"])
    sol = [v if math.isfinite(v) else 0.0 for v in out["solution"]]
    return ("(mkC {mn} {mi} {c} {A} {b} {st} {pv} {it} {sol} {obj})".format(
        mn=cbool(case["minimize"]),
        mi="None" if case["max_iter"] is None else f"(Some {cnat(case['max_iter'])})",
        c=clist(case["c"], _q), A=clist(case["A"], lambda r: clist(r, _q)), b=clist(case["b"], _q),
        st=out["status"], pv=clist(out["pivots"], lambda p: f"({cnat(p[0])}, {cnat(p[1])})"),
        it=cnat(out["iterations"]), sol=clist(sol, _q), obj=_q(0 if inf_obj else out["objective"])))


def shrink(case, still_bad):
    """Greedy: drop rows / columns, zero entries, while the failure persists."""
    cur = json.loads(json.dumps(case))
    changed = True
    while changed:
        changed = False
        for i in range(len(cur["b"])):
            if len(cur["b"]) <= 1:
                break
            t = {**cur, "A": cur["A"][:i] + cur["A"][i + 1:], "b": cur["b"][:i] + cur["b"][i + 1:]}
            if still_bad(t):
                cur, changed = t, True
                break
        if changed:
            continue
        for j in range(len(cur["c"])):
            if len(cur["c"]) <= 1:
                break
            t = {**cur, "c": cur["c"][:j] + cur["c"][j + 1:], "A": [r[:j] + r[j + 1:] for r in cur["A"]]}
            if still_bad(t):
                cur, changed = t, True
                break
        if changed:
            continue
        for i in range(len(cur["b"])):
            for j in range(len(cur["c"])):
                if cur["A"][i][j] != 0:
                    t = json.loads(json.dumps(cur)); t["A"][i][j] = 0
                    if still_bad(t):
                        cur, changed = t, True
                        break
            if changed:
                break
    return cur


def _bad(case):
    try:
        return _work(case)[2] is not None
    except Exception:  # noqa: BLE001
        return False


# ---------------------------------------------------------------------------------- interior point
def gen_ipm(rng):
    """(case, kind): tiny (the only LPs on which the solver reaches its OPTIMAL gate), feasible bounded, infeasible,
    unbounded; integer or small dyadic data."""
    r = rng.random()
    minimize = rng.random() < 0.5
    if r < 0.5:
        n = rng.choice([1, 1, 1, 2, 2, 3])
        k = rng.choice([1, 1, 1, 1, 2])
        sc = rng.choice([1, 1, Fraction(1, 2), Fraction(1, 4), 2])
        A = [[float(rng.randint(-4, 5) * sc) for _ in range(n)] for _ in range(k)]
        b = [float(rng.randint(0, 6) * rng.choice([1, 1, Fraction(1, 2)])) for _ in range(k)]
        c = [rng.randint(-4, 5) for _ in range(n)]
        return {"c": c, "A": A, "b": b, "minimize": minimize}, "tiny"
    n = rng.choice([1, 2, 2, 3, 3, 4])
    k = rng.choice([1, 2, 2, 3])
    A = [[rng.randint(-4, 5) if rng.random() > 0.25 else 0 for _ in range(n)] for _ in range(k)]
    x0 = [rng.randint(0, 3) for _ in range(n)]
    b = [sum(a * x for a, x in zip(row, x0)) + rng.randint(0, 3) for row in A]
    c = [rng.randint(-5, 5) for _ in range(n)]
    if r < 0.7:      # bounded: box rows
        for j in range(n):
            A.append([1 if t == j else 0 for t in range(n)]); b.append(x0[j] + rng.randint(1, 4))
        kind = "bounded"
    elif r < 0.85:   # infeasible: a row and its negation with a gap
        row = [rng.randint(0, 3) for _ in range(n)]
        A.append(row); b.append(rng.randint(0, 3))
        A.append([-a for a in row]); b.append(-(b[-1] + rng.randint(1, 3)))
        kind = "infeasible"
    else:            # likely unbounded: only '>=' style rows, improving direction
        A = [[-abs(a) for a in row] for row in A]
        b = [rng.randint(0, 3) for _ in A]
        c = [(-abs(v) - 1 if minimize else abs(v) + 1) for v in c]
        kind = "unbounded"
    return {"c": c, "A": A, "b": b, "minimize": minimize}, kind


def gen_ipm_large(rng):
    """Large magnitudes (|b| up to ~200-600, coefficients 1..9): a level set a.x = t squeezed between a '<=' row and a
    '>=' row (both possibly scaled), infeasible by a small margin (well below 2 % of max|b|), its feasible twin, or
    degenerate (margin 0); optional far-away box / cover rows."""
    n = rng.choice([1, 1, 2, 2, 3])
    a = [rng.randint(1, 9) for _ in range(n)]
    t = rng.randint(15, 200)
    f1, f2 = rng.choice([1, 1, 2, 3]), rng.choice([1, 1, 2, 3])
    e1, e2 = rng.choice([0, 0, 1, 1, 2]), rng.choice([0, 1, 1, 2, 3])
    kind = rng.choice(["near-infeasible", "near-infeasible", "near-feasible", "degenerate"])
    sgn = {"near-infeasible": -1, "near-feasible": 1, "degenerate": 0}[kind]
    if kind == "near-infeasible" and e1 == 0 and e2 == 0:
        e2 = 1
    A = [[f1 * v for v in a], [-f2 * v for v in a]]
    b = [f1 * t + sgn * e1, -f2 * t + sgn * e2]
    for _ in range(rng.choice([0, 0, 1, 2])):
        if rng.random() < 0.5:
            j = rng.randrange(n)
            A.append([1 if q == j else 0 for q in range(n)]); b.append(rng.randint(t // 2, 2 * t) + 50)
        else:
            r = [rng.randint(1, 9) for _ in range(n)]
            A.append(r); b.append(sum(r) * t + rng.randint(0, 50))
    if rng.random() < 0.4:
        order = list(range(len(A))); rng.shuffle(order)
        A = [A[i] for i in order]; b = [b[i] for i in order]
    c = [rng.randint(-5, 5) for _ in range(n)]
    return {"c": c, "A": A, "b": b, "minimize": rng.random() < 0.5}, "large-" + kind


_IPM_STATE = []


def _install_ipm_capture():
    import solvor.interior_point as P

    if getattr(P._initialize, "_c03_wrapped", False):
        return
    orig = P._initialize

    def init(c_ext, m, n_total):
        x, y, z = orig(c_ext, m, n_total)
        del _IPM_STATE[:]
        _IPM_STATE.extend([x, y, z])      # the solver updates these three lists in place
        return x, y, z

    init._c03_wrapped = True
    P._initialize = init


def _call_ipm(case):
    from solvor.interior_point import solve_lp_interior

    kw = {}
    if case.get("max_iter") is not None:
        kw["max_iter"] = case["max_iter"]
    if case.get("eps") is not None:
        kw["eps"] = case["eps"]
    return solve_lp_interior(list(case["c"]), [list(r) for r in case["A"]], list(case["b"]), minimize=case["minimize"], **kw)


def run_ipm(case):
    import warnings

    _install_ipm_capture()
    del _IPM_STATE[:]
    with warnings.catch_warnings():
        warnings.simplefilter("ignore")
        res = guarded(_call_ipm, case, timeout=20)
    if res[0] != "ok":
        return {"fail": list(res)}
    r = res[1]
    st = [list(map(float, v)) for v in _IPM_STATE] if _IPM_STATE else None
    return {"status": r.status.name, "solution": [float(v) for v in r.solution], "objective": float(r.objective),
            "iterations": int(r.iterations), "xyz": st}


def judge_ipm(case, out, orc):
    """OPTIMAL: point feasible (1e-6 relative) and objective = exact optimum (1e-5 relative), exact verdict must be OPTIMAL.
    FEASIBLE: exactly the documented clause, ABSOLUTE 0.01:  max_i (A x - b)_i^+ <= 0.01  and  x >= 0.  This is what the
    code's own test implies and no more: it requires || A x + s - b ||_2 < 0.01 for its slack vector s, every s_i is clamped
    >= eps > 0 and the returned x_j is max(0, x_j); hence (A x - b)_i = r_i - s_i < 0.01 for every row.  (Nothing is demanded
    of the objective of a FEASIBLE answer.)  A FEASIBLE answer on an LP without feasible points necessarily violates some
    row; it is a violation exactly when that violation exceeds 0.01."""
    if "fail" in out:
        return f"solve_lp_interior did not return: {out['fail']}"
    st = out["status"]
    c, A, b = case["c"], case["A"], case["b"]
    x = out["solution"]
    eps = case.get("eps") or 1e-8
    if st == "OPTIMAL":
        if orc[0] != "OPTIMAL":
            return f"OPTIMAL but the exact verdict is {orc[0]}"
        ftol = max(1e-6, 10 * eps)      # the gate gives eps-feasibility (C03_ipm_gate)
        if any(not math.isfinite(v) for v in x) or any(v < -ftol for v in x):
            return f"OPTIMAL point not >= 0: {x}"
        for i, row in enumerate(A):
            lhs = sum(a * v for a, v in zip(row, x))
            if lhs > b[i] + ftol * (1 + abs(b[i])):
                return f"OPTIMAL point violates row {i}: {lhs} > {b[i]}"
        opt = float(orc[1])
        otol = 1e-5 * (1 + abs(opt))
        if eps > 1e-8 and out.get("xyz"):
            # "within its tolerance": the explicit gap bound of C03_ipm_gate, eps * (|y|_1 + N + |x|_1 + |x*|_1), with |x*|_1 <= |x|_1 + |b|_1 + 1 assumed
            xx, yy, _ = out["xyz"]
            otol = max(otol, 2 * eps * (sum(map(abs, yy)) + len(xx) + 2 * sum(map(abs, xx)) + sum(map(abs, b)) + 1))
        if abs(out["objective"] - opt) > otol:
            return f"OPTIMAL objective {out['objective']} but the true optimum is {orc[1]}"
        cx = sum(a * v for a, v in zip(c, x))
        if abs(cx - out["objective"]) > 1e-7 * (1 + abs(cx)):
            return f"objective {out['objective']} != c.x = {cx}"
    elif st == "FEASIBLE":
        if any(not math.isfinite(v) for v in x) or any(v < 0 for v in x):
            return f"FEASIBLE point not >= 0: {x}"
        for i, row in enumerate(A):
            lhs = sum(a * v for a, v in zip(row, x))
            if lhs > b[i] + 0.01:
                return f"FEASIBLE point violates row {i} by more than 0.01: {lhs} > {b[i]}"
    elif st != "MAX_ITER":
        return f"unexpected status {st}"
    return None


def _work_ipm(item):
    case, kind = item
    out = run_ipm(case)
    orc = oracle_lp(case["c"], case["A"], case["b"], case["minimize"])
    return out, orc, judge_ipm(case, out, orc)


def coq_ipm_case(case, out):
    """(eps, A, b, w, xs, ss, y, zx, zs) for Ipm.gate; w is the sign-adjusted objective the solver works with.
    The gate is evaluated exactly on the captured floats with eps' = 1e-8 * (1 + 1e-6): the code's own float evaluation of the
    residual norms can differ from the exact one by a few ulps right at the threshold (seen: exact 1.0000000111e-8 vs float
    9.99999994e-9); C03_ipm_gate is parametric in eps, so the conclusion then holds with eps'."""
    n, m = len(case["c"]), len(case["b"])
    x, y, z = out["xyz"]
    w = [v if case["minimize"] else -v for v in case["c"]]
    return "(mkI {e} {A} {b} {w} {xs} {ss} {y} {zx} {zs})".format(
        e=cq(Fraction(case.get("eps") or 1e-8).limit_denominator(10 ** 16) * Fraction(1000001, 1000000)), A=clist(case["A"], lambda r: clist(r, _q)), b=clist(case["b"], _q), w=clist(w, _q),
        xs=clist(x[:n], _q), ss=clist(x[n:], _q), y=clist(y, _q), zx=clist(z[:n], _q), zs=clist(z[n:], _q))


# ---------------------------------------------------------------------------------- malformed input
MALFORMED = [
    ([1], [], []),                    # empty A
    ([1, 2], [[1, 2]], [1, 2]),       # len(A) != len(b)
    ([1, 2], [[1], [1, 2]], [1, 2]),  # ragged row
    ([1], [[1, 2]], [1]),             # row longer than c
]


def check_malformed(ctx):
    from solvor.interior_point import solve_lp_interior
    from solvor.simplex import solve_lp

    for c, A, b in MALFORMED:
        for fn in (solve_lp, solve_lp_interior):
            res = guarded(fn, c, A, b, timeout=5)
            ctx.evaluations += 1
            if not (res[0] == "exc" and res[1] == "ValueError"):
                ctx.violation(f"{fn.__name__} on malformed input (c={c}, A={A}, b={b}) should raise ValueError, got {res}",
                              {"kind": "malformed", "c": c, "A": A, "b": b, "fn": fn.__name__})


# ---------------------------------------------------------------------------------- run
def _corpus(kind="simplex"):
    d = VERIF / "corpus" / "C03"
    out = []
    if d.exists():
        for f in sorted(d.glob("*.json")):
            o = json.loads(f.read_text())
            if o.get("kind", "simplex") != kind:
                continue
            if kind == "simplex":
                out.append({"c": o["c"], "A": o["A"], "b": o["b"], "minimize": o.get("minimize", True), "max_iter": o.get("max_iter")})
            else:
                out.append(({"c": o["c"], "A": o["A"], "b": o["b"], "minimize": o.get("minimize", True)}, "corpus"))
    return out


KNOWN_IPM_OVERFLOW = "C03-ipm-overflow"


def _in_overflow_class(out, orc):
    """class of the known finding: OverflowError out of solve_lp_interior on an infeasible / unbounded LP"""
    return "fail" in out and out["fail"][0] == "exc" and out["fail"][1] == "OverflowError" and orc[0] in ("INFEASIBLE", "UNBOUNDED")


def run(ctx: Ctx):
    ctx.rule = ("random integer LPs (m,n <= 5 quick, <= 7 thorough; data -5..5; duplicate/parallel/zero rows, zero columns, rhs with zeros and "
                "negatives, ratio-test ties, box and lower-bound rows; min and max; max_iter default or 0..6) + an inexact-pivot family "
                "(coefficients 3,5,7,9,11,6,10,13 with opposite / duplicate / scaled-duplicate rows, rhs 0, mostly feasible by construction) "
                "+ interior-point families (tiny, boxed, infeasible, unbounded, large-magnitude near-(in)feasible twins); non-trivial = the run made "
                ">= 1 pivot; distinct = canonical JSON of the input; phase-1 / degenerate-tie / artificial-left-basic counts in histograms")
    ctx.proof_step(["C03"])
    if (VERIF / "coq" / "Props" / "C03_deep.v").exists(): ctx.proof_step(["C03"], props_file="Props/C03_deep.v")
    ctx.notes += [
        "floats are idealised as exact rationals: the model runs in Q with eps = 1e-10; discrete decisions (status, pivots, iterations) "
        "are compared exactly, solution/objective within 1e-7 relative",
        "theorems are for eps = 0; on every run the eps0_* lemmas check that eps = 0 and eps = 1e-10 take identical decisions on the explored "
        "inputs (cases where they differ are counted in histogram 'eps0_differs' and excluded from the claim)",
        "correspondence (corr_*) uses the exact-Q model with eps = 1e-10 as the reference for the float code only on eps-robust cases "
        "(same status / pivots / iterations of the exact run for eps = 0, 1e-10, 1e-7: no compared tableau quantity strictly between 0 and "
        "1e-7 where it matters); fragile cases are counted in histogram 'eps_fragile_skipped' and only judged by the vertex-enumeration oracle",
        "MAX_ITER answers are exempt from the verdict oracle (allowed by the property); Bland termination is not proved",
        "interior point: the gate is evaluated exactly on the captured floats with eps' = 1e-8*(1+1e-6) (float rounding of the residual "
        "norms at the threshold); C03_ipm_gate is parametric in eps",
        "interior point FEASIBLE clause judged: max_i (A x - b)_i^+ <= 0.01 absolute and x >= 0 (follows from the code's documented test "
        "||A x + s - b||_2 < 0.01 with s > 0); large-magnitude near-(in)feasible twins exercise it (histogram ipm_status, kinds large-*)",
        "interior point: Newton/Cholesky step not modelled; only the convergence gate is (Ipm.gate), evaluated on the captured final iterate",
        "interior point: the solver's max(eps, .) clamp leaves residuals ~ sqrt(k)*eps >= eps, so it almost never reaches its OPTIMAL gate "
        "(only on ~1x1 / 1x2 LPs; everything else runs all 100 iterations and answers FEASIBLE or MAX_ITER) - see histogram ipm_status; "
        "the OPTIMAL clause of the property is therefore exercised on few cases per run (generator family 'tiny')",
        "general theorem C03_optimal_sound is proved for LPs that need no phase 1 (b >= 0); for phase-1 runs, INFEASIBLE and UNBOUNDED the "
        "claim rests on the per-run certificates (cert_* lemmas + C03_cert_* soundness theorems)",
    ]
    big = ctx.tier == "thorough"
    n_rand = ctx.budget(420, 9000)
    n_inexact = ctx.budget(400, 6000)
    cases = (_corpus() + [dict(e) for e in EDGE_CASES] + [gen_lp(ctx.rng, big) for _ in range(n_rand)]
             + [gen_lp_inexact(ctx.rng) for _ in range(n_inexact)])
    # the oracle enumerates C(m+n, m) bases: keep it to m+n <= 10 (quick) / 14 (thorough) - the generator obeys this
    results = pmap(_work, cases)
    coq_cases, metas = [], []
    for case, (out, orc, bad) in zip(cases, results):
        ctx.evaluations += 1
        ctx.count("simplex_size", f"{len(case['b'])}x{len(case['c'])}")
        ctx.count("simplex_status", out.get("status", "FAIL"))
        ctx.count("oracle_verdict", orc[0])
        ctx.count("max_iter", "default" if case["max_iter"] is None else case["max_iter"])
        ctx.count("direction", "min" if case["minimize"] else "max")
        if bad:
            small = shrink(case, _bad)
            o2, r2, b2 = _work(small)
            ctx.violation(f"solve_lp: {b2 or bad}", {"kind": "simplex", **small, "impl": o2, "exact_verdict": [str(v) for v in r2]})
            continue
        if "fail" in out:
            continue
        ctx.count("pivots", len(out["pivots"]))
        ctx.count("phase1", any(v < 0 for v in case["b"]))
        if out["pivots"]:
            ctx.nontriv(json.dumps(case, sort_keys=True))
        ctx.sample({"input": case, "impl": {k: out[k] for k in ("status", "objective", "iterations", "pivots")}, "exact": [str(v) for v in orc]})
        ctx.traces_validated += 1
        coq_cases.append(coq_case(case, out))
        metas.append((case, out, orc))

    failing = ctx.coq_check("corr", IMPORTS, "lp_case", "corr_robust_check eps_default tol7", coq_cases, shard=100)
    disagree = [metas[i] for i in failing]
    fragile = ctx.coq_check("robust", IMPORTS, "lp_case", "robust_check", coq_cases, shard=100)
    ctx.count("eps_fragile_skipped", len(fragile), 1)
    if fragile:
        ctx.notes.append(f"{len(fragile)} explored case(s) are eps-fragile (the exact run decides differently for eps in {{0, 1e-10, 1e-7}}), e.g. "
                         f"{metas[fragile[0]][0]}; skipped by the correspondence lemma, still judged by the oracle")
    diff0 = ctx.coq_check("eps0", IMPORTS, "lp_case", "eps0_check", coq_cases, shard=100)
    ctx.count("eps0_differs", len(diff0), 1)
    if diff0:
        # not a failure of the implementation: the claim "eps does not matter" is restricted to the other cases
        ctx.notes.append(f"eps=0 and eps=1e-10 differ on {len(diff0)} explored case(s), e.g. {metas[diff0[0]][0]}; excluded from the exact-arithmetic claim")
        ctx.obligations -= 0
    cert_bad = ctx.coq_check("cert", IMPORTS, "lp_case", "cert_case_check", coq_cases, shard=100)
    cert_disagree = [metas[i] for i in cert_bad]

    # ---- interior point
    check_malformed(ctx)
    n_ipm = ctx.budget(240, 2500)
    n_large = ctx.budget(120, 1500)
    items = _corpus("ipm") + [gen_ipm(ctx.rng) for _ in range(n_ipm)] + [gen_ipm_large(ctx.rng) for _ in range(n_large)]
    overflow_open = any(f.get("id") == KNOWN_IPM_OVERFLOW for f in ctx.open_findings())
    ipm_results = pmap(_work_ipm, items)
    gate_cases, gate_meta = [], []
    for (case, kind), (out, orc, bad) in zip(items, ipm_results):
        ctx.evaluations += 1
        ctx.count("ipm_kind", kind)
        ctx.count("ipm_status", out.get("status", "FAIL") + "/" + orc[0])
        if bad:
            if overflow_open and _in_overflow_class(out, orc):
                ctx.known_hit(KNOWN_IPM_OVERFLOW, f"solve_lp_interior raises OverflowError on {orc[0]} input, e.g. c={case['c']} A={case['A']} b={case['b']} minimize={case['minimize']}")
                continue
            ctx.violation(f"solve_lp_interior: {bad}", {"kind": "ipm", **case, "impl": {k: v for k, v in out.items() if k != "xyz"},
                                                        "exact_verdict": [str(v) for v in orc]})
            continue
        if out.get("status") == "OPTIMAL" and out.get("xyz"):
            ctx.nontriv("ipm" + json.dumps(case, sort_keys=True))
            gate_cases.append(coq_ipm_case(case, out))
            gate_meta.append((case, out))
    gate_bad = ctx.coq_check("gate", IMPORTS, "ipm_case", "gate_case", gate_cases, shard=60)

    # ---- round-2 hardening families (sizes, magnitudes, option sweeps, types, aliasing, rare histories)
    from harness.props import C03_hard

    C03_hard.run_hard(ctx)
    from harness.props import C03_hard3

    C03_hard3.run_hard3(ctx)
    from harness.props import C03_hard4

    C03_hard4.run_hard4(ctx)

    # ---- something no longer checks but the oracle found no failing input: search, then report
    if (disagree or cert_disagree or gate_bad or ctx.broken) and not ctx.violations:
        found = False
        pool = [m[0] for m in disagree + cert_disagree]
        extra = []
        for base in pool[:20]:
            for mi in [None, 0, 1, 2, 3, 4, 5, 6, 8]:
                for mn in (True, False):
                    extra.append({**base, "max_iter": mi, "minimize": mn})
        search = extra + [gen_lp(ctx.rng, True) for _ in range(ctx.budget(6000, 30000))]
        for case, (out, orc, bad) in zip(search, pmap(_work, search)):
            if bad:
                small = shrink(case, _bad)
                o2, r2, b2 = _work(small)
                ctx.violation(f"solve_lp: {b2 or bad}", {"kind": "simplex", **small, "impl": o2, "exact_verdict": [str(v) for v in r2]})
                found = True
                break
        if not found:
            for case, out, orc in disagree[:1]:
                model = ctx.coq_eval("corr_show", IMPORTS, "let r := run_case eps_default " + coq_case(case, out) +
                                     " in (r_status r, r_pivots r, r_iterations r, r_solution r, r_objective r)")
                ctx.violation("correspondence lemma corr: model SV.C03.Simplex.solve_lp and solvor.simplex.solve_lp differ "
                              "(status / pivot sequence / iterations / solution / objective)",
                              {"kind": "simplex", **case, "impl": out, "model": model, "lemma": "Cases/C03/corr_*.v corr"}, no_input=True)
            for case, out, orc in cert_disagree[:1]:
                ctx.violation("certificate lemma cert: the proved checker (Cert.cert_case_check) rejects the implementation's answer",
                              {"kind": "simplex", **case, "impl": out, "lemma": "Cases/C03/cert_*.v corr"}, no_input=True)
            for i in gate_bad[:1]:
                case, out = gate_meta[i]
                ctx.violation("gate lemma: solve_lp_interior answered OPTIMAL but the transliterated convergence gate (Ipm.gate) is false "
                              "on its final iterate", {"kind": "ipm", **case, "impl": out, "lemma": "Cases/C03/gate_*.v corr"}, no_input=True)


def replay(obj):
    kind = obj.get("kind")
    if kind == "inplace":
        from harness.props import C03_hard3 as H3

        probs = H3.check_inplace({"c": obj["c"], "A": obj["A"], "b": obj["b"], "minimize": obj.get("minimize", True), "max_iter": None})
        print("\n".join(probs) or "ok")
        return 1 if probs else 0
    if kind == "extreme":
        from harness.props import C03_hard3 as H3

        conv = lambda v: float(v) if isinstance(v, str) else v
        case = {"c": [conv(v) for v in obj["c"]], "A": [[conv(a) for a in r] for r in obj["A"]], "b": [conv(v) for v in obj["b"]],
                "minimize": obj.get("minimize", True), "max_iter": None, "family": "extreme-replay"}
        empty = any(v != v or v == float("-inf") for v in case["b"]) or any(a != a for r in case["A"] for a in r)
        ref = None
        if not empty and any(v == float("inf") for v in case["b"]):
            keep = [i for i, v in enumerate(case["b"]) if v != float("inf")]
            ref = {"c": case["c"], "A": [case["A"][i] for i in keep] or [[0] * len(case["c"])], "b": [case["b"][i] for i in keep] or [0]}
        out, orc, bad = H3._work_extreme((case, "empty" if empty else "oracle", ref))
        print("solve_lp:", out); print("judgement:", bad or "ok")
        return 1 if bad else 0
    if kind in ("types", "alias"):
        from harness.props import C03_hard as H

        case = {"c": obj["c"], "A": obj["A"], "b": obj["b"], "minimize": obj.get("minimize", True), "max_iter": None}
        probs = (H.check_types if kind == "types" else H.check_alias)(case)
        print("\n".join(probs) or "ok")
        return 1 if probs else 0
    if kind == "simplex" and obj.get("expect"):
        from harness.props import C03_hard as H

        case = {"c": obj["c"], "A": obj["A"], "b": obj["b"], "minimize": obj.get("minimize", True), "max_iter": obj.get("max_iter"), "expect": obj["expect"]}
        out, bad = H._work_construct(case)
        print("solve_lp:", {k: out.get(k) for k in ("status", "objective", "iterations")}, "expected by construction:", obj["expect"])
        print("judgement:", bad or "ok")
        return 1 if bad else 0
    if kind == "simplex":
        case = {"c": obj["c"], "A": obj["A"], "b": obj["b"], "minimize": obj.get("minimize", True), "max_iter": obj.get("max_iter")}
        if obj.get("eps") is not None:
            case["eps"] = obj["eps"]
        if max(len(case["c"]), len(case["b"])) > 10:
            case["oracle"] = "exact_simplex"
        out, orc, bad = _work(case)
        print("solve_lp:", out)
        print("exact verdict:", orc)
        print("judgement:", bad or "ok")
        return 1 if bad else 0
    if kind == "ipm":
        case = {"c": obj["c"], "A": obj["A"], "b": obj["b"], "minimize": obj.get("minimize", True)}
        for k in ("max_iter", "eps"):
            if obj.get(k) is not None:
                case[k] = obj[k]
        out, orc, bad = _work_ipm((case, "replay"))
        print("solve_lp_interior:", {k: v for k, v in out.items() if k != "xyz"})
        print("exact verdict:", orc)
        print("judgement:", bad or "ok")
        return 1 if bad else 0
    if kind == "malformed":
        import solvor.interior_point as P
        import solvor.simplex as S

        fn = S.solve_lp if obj.get("fn") == "solve_lp" else P.solve_lp_interior
        res = guarded(fn, obj["c"], obj["A"], obj["b"], timeout=5)
        print("result:", res)
        return 0 if (res[0] == "exc" and res[1] == "ValueError") else 1
    print("replay names an unchecked obligation:", obj.get("unchecked") or obj.get("what"))
    return 1
