"""C08 - max_flow returns a feasible flow whose value is the maximum (solvor/flow.py: max_flow).

Tie to /repo: generated capacitated digraphs are run on solvor.flow.max_flow (working tree); the same inputs
(node labels numbered by first occurrence) are evaluated by the Gallina model SV.C08.MaxFlow.max_flow inside
coqc (vm_compute) and the returned flow dictionary (as a finite map), the objective and the iteration count
are compared exactly.  Independently
 (a) a Python oracle judges the implementation's output against the property itself: flow on real input arcs
     only, 0 < x <= pooled capacity, conservation at every node other than source/sink, net flow into the
     sink = objective = capacity of a minimum cut found by enumerating ALL source-side subsets;
 (b) the Coq boolean MaxFlowSpec.spec_check (feasible + value + a residual-closed cut exists; proved sound for
     is_max_flow via weak duality in MaxFlowDuality.v) is evaluated on the IMPLEMENTATION's output in coqc.
Rare execution histories (an arc exhausted, restored through its reverse and reused; partial cancellation on an
anti-parallel pair; ...) are sought by an event-directed search, see harness/props/maxflow_events.py; the inputs it
found once are kept minimised in corpus/C08/e<k>_*.json and a fresh search runs from ctx.rng on every run.
"""
import itertools
import json
import random

from harness.core import VERIF, Ctx, clist, cnat, copt, cz, guarded
from harness.props import maxflow_events as EV
from harness.props import maxflow_shapes as SH

ID = "C08"
ANCHORS = ["solvor/flow.py"]
IMPORTS = "From SV Require Import C08.MaxFlow C08.MaxFlowSpec."
MAX_NODES = 12


# ---------------------------------------------------------------- generators
# a case = {"graph": [[u, [[v, cap, extra...], ...]], ...] (dict items in order), "source": s, "sink": t}
def _cap(rng):
    return rng.choice([0, 1, 1, 1, 2, 2, 3, 4])


def _labels(rng, names):
    """relabel the abstract node names (ints) by strings / ints / mixed hashables"""
    r = rng.random()
    if r < 0.4:
        pool = ["s", "a", "b", "c", "d", "e", "f", "g", "h", "t", "x", "y"]
    elif r < 0.7:
        pool = list(range(20))
    else:
        pool = ["n0", 7, "u", 0, "v1", -3, "w", 11, "z", 5, "q", 2]
    rng.shuffle(pool)
    return {n: pool[i] for i, n in enumerate(names)}


def _assemble(rng, arcs, s, t, nodes, shuffle=True):
    """arcs: list of (u, v, cap) over abstract names -> case with adjacency dict in a random insertion order"""
    lab = _labels(rng, nodes)
    order = []
    adj = {}
    if shuffle:
        arcs = list(arcs)
        if rng.random() < 0.5:
            rng.shuffle(arcs)
    for u, v, c in arcs:
        if u not in adj:
            adj[u] = []
            order.append(u)
        e = [lab[v], c]
        if rng.random() < 0.3:
            e.append(rng.randint(0, 5))  # a cost entry, ignored by max_flow
        adj[u].append(e)
    # sometimes a node with an empty adjacency list
    if rng.random() < 0.15:
        for n in nodes:
            if n not in adj and rng.random() < 0.5:
                adj[n] = []
                order.append(n)
    if rng.random() < 0.3:
        rng.shuffle(order)
    return {"graph": [[lab[u], adj[u]] for u in order], "source": lab[s], "sink": lab[t]}


def gen_layered(rng):
    """s -> L1 -> L2 (-> L3) -> t; matching-like (small capacities at both ends, sparse middle) so that the
    first BFS paths often block and flow has to be undone along reverse residual arcs"""
    three = rng.random() < 0.2
    if three:
        w1, w2, w3 = rng.choice([(2, 2, 2), (2, 3, 2), (3, 2, 2), (2, 2, 3), (1, 2, 2), (2, 2, 1)])
    else:
        w1, w2, w3 = rng.choice([(2, 2), (2, 3), (3, 2), (3, 3), (3, 3), (3, 4), (4, 3), (1, 3), (3, 1), (2, 4)]) + (0,)
    s, t = 0, 1
    L1 = list(range(2, 2 + w1))
    L2 = list(range(2 + w1, 2 + w1 + w2))
    L3 = list(range(2 + w1 + w2, 2 + w1 + w2 + w3))
    nodes = [s, t] + L1 + L2 + L3
    mode = rng.choice(["unit", "unit", "ends1", "any"])
    end_cap = (lambda: 1) if mode in ("unit", "ends1") else (lambda: _cap(rng))
    mid_cap = (lambda: 1) if mode == "unit" else (lambda: _cap(rng))
    p_mid = rng.choice([0.35, 0.5, 0.5, 0.65])
    arcs = []
    for a in L1:
        if rng.random() < 0.95:
            arcs.append((s, a, end_cap()))
    layers = [L1, L2] + ([L3] if three else [])
    for A, B in zip(layers, layers[1:]):
        for a in A:
            picked = [b for b in B if rng.random() < p_mid] or [rng.choice(B)]
            for b in picked:
                arcs.append((a, b, mid_cap()))
    for b in layers[-1]:
        if rng.random() < 0.95:
            arcs.append((b, t, end_cap()))
    # decorations: parallel / anti-parallel arcs, arcs into the source, out of the sink
    for _ in range(rng.choice([0, 0, 0, 1, 2])):
        u, v, c = rng.choice(arcs)
        r = rng.random()
        if r < 0.35:
            arcs.append((u, v, _cap(rng)))
        elif r < 0.7:
            arcs.append((v, u, _cap(rng)))
        elif r < 0.85:
            arcs.append((rng.choice(nodes), s, _cap(rng)))
        else:
            arcs.append((t, rng.choice(nodes), _cap(rng)))
    return _assemble(rng, arcs, s, t, nodes, shuffle=rng.random() < 0.4)


def gen_adversarial(rng):
    """bipartite s -> A -> C -> t with a hidden perfect matching a_i - c_p(i); the extra arcs of a_i (to the partners
    of LATER a_j) come first in a_i's adjacency list, so BFS's first paths take the wrong partner and the
    flow must be rerouted through reverse residual arcs"""
    k = rng.choice([2, 3, 3, 3, 4])   # 2 + 2k <= 10; k = 4 gives 10 nodes -> use 3 on one side
    ka, kc = (k, k) if k < 4 else rng.choice([(4, 3), (3, 4)])
    s, t = 0, 1
    A = list(range(2, 2 + ka))
    C = list(range(2 + ka, 2 + ka + kc))
    nodes = [s, t] + A + C
    perm = list(range(kc))
    rng.shuffle(perm)
    big = rng.random() < 0.3
    arcs = [(s, a, rng.choice([1, 1, 2]) if big else 1) for a in A]
    for i, a in enumerate(A):
        extras = [C[perm[j]] for j in range(i + 1, min(ka, kc)) if rng.random() < 0.6]
        rng.shuffle(extras)
        mine = [C[perm[i]]] if i < kc else []
        if rng.random() < 0.15:
            mine, extras = extras, mine
        for c in extras + mine:
            arcs.append((a, c, rng.choice([1, 2, 3]) if big else 1))
    arcs += [(c, t, rng.choice([1, 1, 2]) if big else 1) for c in C]
    if rng.random() < 0.3:
        u, v, c = rng.choice(arcs)
        arcs.insert(rng.randrange(len(arcs) + 1), (v, u, _cap(rng)) if rng.random() < 0.5 else (u, v, _cap(rng)))
    for _ in range(rng.choice([0, 0, 0, 1, 2])):   # noise arcs anywhere
        u, v = rng.sample(nodes, 2)
        arcs.insert(rng.randrange(len(arcs) + 1), (u, v, _cap(rng)))
    if rng.random() < 0.25:   # read the middle arcs before the source arcs: changes the key order of capacity[a]
        arcs = arcs[ka:] + arcs[:ka]
    return _assemble(rng, arcs, s, t, nodes, shuffle=False)


def gen_random(rng):
    n = rng.randint(2, 7)
    nodes = list(range(n))
    s, t = rng.sample(nodes, 2)
    m = rng.randint(0, 3) if rng.random() < 0.1 else rng.randint(n, min(18, 3 * n))
    arcs = []
    for _ in range(m):
        r = rng.random()
        if r < 0.08 and arcs:
            u, v, _ = rng.choice(arcs)  # parallel
        elif r < 0.18 and arcs:
            v, u, _ = rng.choice(arcs)  # anti-parallel
        elif r < 0.21:
            u = v = rng.choice(nodes)  # self loop
        elif r < 0.26:
            u, v = rng.choice(nodes), s  # into the source
        elif r < 0.31:
            u, v = t, rng.choice(nodes)  # out of the sink
        elif r < 0.45:
            u, v = s, rng.choice(nodes)
        elif r < 0.59:
            u, v = rng.choice(nodes), t
        else:
            u, v = rng.sample(nodes, 2)
        arcs.append((u, v, _cap(rng)))
    # unreachable part: sometimes two extra nodes joined to each other only
    if rng.random() < 0.2 and n <= 5:
        a, b = n, n + 1
        nodes += [a, b]
        arcs += [(a, b, _cap(rng)), (b, a, _cap(rng))]
        if rng.random() < 0.5:
            arcs.append((a, t, _cap(rng)))  # can reach the sink but is not reachable from the source
    return _assemble(rng, arcs, s, t, nodes)


def fixed_cases():
    W = [["s", [["a", 1], ["b", 1]]], ["a", [["c", 1], ["d", 1]]], ["b", [["c", 1]]], ["c", [["t", 1]]], ["d", [["t", 1]]]]
    return [
        {"graph": W, "source": "s", "sink": "t"},
        {"graph": [], "source": 0, "sink": 1},                                   # empty graph
        {"graph": [["s", []]], "source": "s", "sink": "t"},                     # sink absent
        {"graph": [["a", [["b", 3]]]], "source": "s", "sink": "b"},             # source absent
        {"graph": [["s", [["t", 0]]]], "source": "s", "sink": "t"},             # zero capacity
        {"graph": [["s", [["t", 2], ["t", 3], ["s", 4]]], ["t", [["s", 5], ["t", 1]]]], "source": "s", "sink": "t"},
        {"graph": [["t", [["s", 4]]], ["s", [["t", 1]]]], "source": "s", "sink": "t"},  # anti-parallel only
        # bipartite matching where the greedy first paths must be undone twice
        {"graph": [[0, [[1, 1], [2, 1], [3, 1]]], [1, [[4, 1], [5, 1]]], [2, [[4, 1]]], [3, [[5, 1], [6, 1]]],
                   [4, [[7, 1]]], [5, [[7, 1]]], [6, [[7, 1]]]], "source": 0, "sink": 7},
        # the reverse arc is an anti-parallel INPUT arc with its own capacity
        {"graph": [["s", [["a", 2], ["b", 2]]], ["a", [["b", 1], ["t", 1]]], ["b", [["a", 3], ["t", 2]]]], "source": "s", "sink": "t"},
    ]


# ---------------------------------------------------------------- implementation run
def to_dict(case):
    return SH.materialize(case)[0]


def run_impl(case, timeout=5.0):
    """-> ('ok', solution with the case's JSON labels, objective, iterations, alias_note) | ('exc', ..) | ('hang',)
    The call is built by SH.materialize (label scheme, containers, mapping type of case['variant']); afterwards the
    caller's graph object is compared with a freshly built equal one (alias_note = what changed, or None)."""
    from solvor.flow import max_flow

    g, s, t, back = SH.materialize(case)
    res = guarded(max_flow, g, s, t, timeout=timeout)
    if res[0] != "ok":
        return res
    alias = SH.same_graph(g, SH.materialize(case)[0])
    r = res[1]
    sol = {}
    try:
        items = list(dict(r.solution).items())
    except Exception as e:  # noqa: BLE001
        return ("exc", "BadSolution", f"solution {r.solution!r} is not a dictionary: {e}")
    for k, x in items:
        try:
            kk = (back[k[0]], back[k[1]]) if isinstance(k, tuple) and len(k) == 2 else k
        except (KeyError, TypeError):
            kk = k
        sol[kk] = x
    if len(sol) != len(items):
        return ("exc", "BadSolution", f"two keys of the solution denote the same arc: {r.solution!r}")
    return ("ok", sol, r.objective, r.iterations, alias)


def run_sequence(case, timeout=5.0):
    """A: ONE graph object passed to three consecutive calls: (s, t), (t, s), (s, t).  -> None or a description:
    the first and the third answer must be equal, the object unchanged, the middle answer must satisfy the oracle."""
    from solvor.flow import max_flow

    g, s, t, back = SH.materialize(case)

    def call(a, b):
        res = guarded(max_flow, g, a, b, timeout=timeout)
        if res[0] != "ok":
            return res
        sol = {}
        for k, x in dict(res[1].solution).items():
            try:
                sol[(back[k[0]], back[k[1]])] = x
            except (KeyError, TypeError, IndexError):
                sol[k] = x
        return ("ok", sol, res[1].objective, res[1].iterations, None)

    first = call(s, t)
    snap = json.dumps(sorted((repr(k), v) for k, v in first[1].items())) if first[0] == "ok" else None
    middle = call(t, s)
    third = call(s, t)
    if first[0] == "ok" and snap != json.dumps(sorted((repr(k), v) for k, v in first[1].items())):
        return "the dictionary returned by the first call changed during later calls"
    if first[:4] != third[:4]:
        return f"one graph object, calls (s,t),(t,s),(s,t): third answer {third[1:4]!r} differs from the first {first[1:4]!r}"
    alias = SH.same_graph(g, SH.materialize(case)[0])
    if alias:
        return f"the caller's graph was modified by a sequence of calls: {alias}"
    rev = {"graph": case["graph"], "source": case["sink"], "sink": case["source"]}
    bad = oracle(rev, middle)
    if bad:
        return f"second call of a sequence on one graph object, source and sink swapped: {bad}"
    return None


def _call_on(g, a, b, back, timeout=5.0):
    from solvor.flow import max_flow

    res = guarded(max_flow, g, a, b, timeout=timeout)
    if res[0] != "ok":
        return res
    sol = {}
    for k, x in dict(res[1].solution).items():
        try:
            sol[(back[k[0]], back[k[1]])] = x
        except (KeyError, TypeError, IndexError):
            sol[k] = x
    return ("ok", sol, res[1].objective, res[1].iterations, None)


def run_edits(case, rng, steps=3):
    """A2: call, then edit the caller's graph IN PLACE (replace an element, append / delete an arc, add a key, swap
    capacities), call again on the same object - optionally after another public function of solvor.flow has seen the same
    object - and compare with a call on a freshly built copy of the edited input; the edited answer is also judged by the
    oracle.  -> None or a description."""
    from solvor import flow as F

    c = json.loads(json.dumps({k: case[k] for k in ("graph", "source", "sink")}))
    v = dict(case.get("variant") or {})
    v["mapping"] = rng.choice(["dict", "dict", "OrderedDict", "defaultdict"])
    v["adj"] = "list"
    c["variant"] = v
    g, s, t, back = SH.materialize(c)
    lab = SH.labeller(json.loads(json.dumps(c)))
    _call_on(g, s, t, back)
    log = []
    for _ in range(steps):
        log.append(SH.edit_in_place(rng, c, g, lab))
        if rng.random() < 0.4:
            # another public function of the module looks at the same object in between (shared caches must not leak)
            if all(len(e) >= 3 for k in g for e in g[k]):
                guarded(F.min_cost_flow, g, s, t, 1, timeout=2.0)
            else:
                guarded(F.max_flow, g, t, s, timeout=2.0)
        again = _call_on(g, s, t, back)
        fresh = run_impl(c)
        if again[:4] != fresh[:4]:
            return (f"after in-place edits {log} the call on the SAME graph object gives {again[1:4]!r}, "
                    f"a fresh copy of the edited graph gives {fresh[1:4]!r}"), c
        bad = oracle(c, again)
        if bad:
            return f"after in-place edits {log}: {bad}", c
    return None, c


# ---------------------------------------------------------------- independent oracle (the property itself)
def pooled(case):
    cap = {}
    nodes = {case["source"]: None, case["sink"]: None}
    for u, adj in case["graph"]:
        nodes.setdefault(u)
        for e in adj:
            v, c = e[0], e[1]
            nodes.setdefault(v)
            cap[(u, v)] = cap.get((u, v), 0) + c
    return cap, list(nodes)


def min_cut(case):
    """capacity of a minimum source-sink cut by enumeration of ALL source-side subsets (<= 12 nodes: 1024 subsets)"""
    cap, nodes = pooled(case)
    s, t = case["source"], case["sink"]
    assert len(nodes) <= 16, len(nodes)
    others = [n for n in nodes if n != s and n != t]
    bit = {n: 1 << i for i, n in enumerate(others)}
    bit[s], bit[t] = 1 << len(others), 0          # s always inside, t never
    arcs = [(bit[u], bit[v], x) for (u, v), x in cap.items() if x and u != v]
    sb = bit[s]
    best = None
    for m in range(1 << len(others)):
        S = m | sb
        c = 0
        for bu, bv, x in arcs:
            if bu & S and not bv & S:
                c += x
        if best is None or c < best:
            best = c
    return best


def oracle(case, out):
    """None if the output obeys the property, else a description.  Maximum: capacity of a minimum cut by enumeration,
    or case['expected'] for the large instances whose answer is known by construction."""
    if out[0] != "ok":
        return f"implementation {out[0]}: {out[1:]}"
    _, sol, obj, _its = out[:4]
    if len(out) > 4 and out[4]:
        return f"the caller's graph was modified by the call: {out[4]}"
    cap, nodes = pooled(case)
    s, t = case["source"], case["sink"]
    if isinstance(obj, bool) or not isinstance(obj, int):
        return f"objective {obj!r} is not an int"
    net = {}
    for k, x in sol.items():
        if not (isinstance(k, tuple) and len(k) == 2):
            return f"solution key {k!r} is not an arc"
        if isinstance(x, bool) or not isinstance(x, int):
            return f"flow {x!r} on {k} is not an int"
        if k not in cap:
            return f"flow {x} on {k} which is not an input arc"
        if x <= 0:
            return f"non-positive entry {x} on {k} in the returned dictionary"
        if x > cap[k]:
            return f"flow {x} on {k} exceeds the pooled capacity {cap[k]}"
        net[k[1]] = net.get(k[1], 0) + x
        net[k[0]] = net.get(k[0], 0) - x
    for n in nodes:
        if n != s and n != t and net.get(n, 0) != 0:
            return f"conservation violated at {n!r}: net inflow {net[n]}"
    if net.get(t, 0) != obj:
        return f"net flow into the sink {net.get(t, 0)} != objective {obj}"
    if "expected" in case:
        if obj != case["expected"]:
            return f"objective {obj} != maximum flow {case['expected']} known by construction ({case.get('big')})"
    else:
        mc = min_cut(case)
        if obj != mc:
            return f"objective {obj} != minimum cut capacity {mc}"
    return None


def shrink(case, still_bad, budget=400):
    """drop arcs / empty adjacency lists while the case still fails (at most `budget` re-runs)"""
    cur = json.loads(json.dumps(case))
    if "expected" in case:      # the by-construction answer does not survive dropping arcs
        return cur
    calls = [0]
    inner = still_bad

    def still_bad(c):  # noqa: F811
        calls[0] += 1
        return calls[0] <= budget and inner(c)

    changed = True
    while changed:
        changed = False
        for i in range(len(cur["graph"])):
            for j in range(len(cur["graph"][i][1])):
                cand = json.loads(json.dumps(cur))
                del cand["graph"][i][1][j]
                if still_bad(cand):
                    cur, changed = cand, True
                    break
            if changed:
                break
        if changed:
            continue
        for i in range(len(cur["graph"])):
            if not cur["graph"][i][1]:
                cand = json.loads(json.dumps(cur))
                del cand["graph"][i]
                if still_bad(cand):
                    cur, changed = cand, True
                    break
    return cur


# instrumented reference port (harness/props/maxflow_events.py): used for the evidence histograms and for the
# event-directed search, never as an oracle; its agreement with the implementation is checked on every case
def trace_ref(case, fixed=True):
    r = EV.ref_run(case, fixed)
    return r["total"], r["cancels"], r["its"]


# ---------------------------------------------------------------- Coq terms
def numbering(case):
    idx = {}

    def num(x):
        if x not in idx:
            idx[x] = len(idx)
        return idx[x]

    for u, adj in case["graph"]:
        num(u)
        for e in adj:
            num(e[0])
    num(case["source"])
    num(case["sink"])
    return idx


def coq_graph(case, idx):
    return clist(case["graph"], lambda ua: f"({cnat(idx[ua[0]])}, {clist(ua[1], lambda e: f'({cnat(idx[e[0]])}, {cz(e[1])})')})")


def coq_wgraph(case, idx):
    arcs = [(idx[u], idx[e[0]], e[1]) for u, adj in case["graph"] for e in adj]
    return clist(arcs, lambda a: f"({cnat(a[0])}, {cnat(a[1])}, {cz(a[2])})")


def coq_sol(sol, idx):
    items = sorted((idx[u], idx[v], x) for (u, v), x in sol.items())
    return clist(items, lambda a: f"({cnat(a[0])}, {cnat(a[1])}, {cz(a[2])})")


def sol_ok_for_coq(out, idx):
    if out[0] != "ok":
        return False
    _, sol, obj, its = out[:4]
    if isinstance(obj, bool) or not isinstance(obj, int) or not isinstance(its, int):
        return False
    for k, x in sol.items():
        if not (isinstance(k, tuple) and len(k) == 2 and k[0] in idx and k[1] in idx):
            return False
        if isinstance(x, bool) or not isinstance(x, int):
            return False
    return True


def corr_case(case, out, idx):
    if sol_ok_for_coq(out, idx):
        _, sol, obj, its = out[:4]
        o = f"(Some ({coq_sol(sol, idx)}, {cz(obj)}, {cnat(its)}))"
    else:
        o = "None"
    return f"({coq_graph(case, idx)}, {cnat(idx[case['source']])}, {cnat(idx[case['sink']])}, {o})"


def spec_case(case, out, idx):
    _, sol, obj, _its = out[:4]
    return f"({coq_wgraph(case, idx)}, {cnat(idx[case['source']])}, {cnat(idx[case['sink']])}, {coq_sol(sol, idx)}, {cz(obj)})"


CORR_TYPE = "graph * nat * nat * option (list (nat * nat * Z) * Z * nat)"
CORR_CHK = "fun c => match c with (g, s, t, o) => obs_eqb (max_flow g s t) o end"
SPEC_TYPE = "wgraph * nat * nat * list (nat * nat * Z) * Z"
SPEC_CHK = "fun c => match c with (g, s, t, sol, obj) => spec_check g s t sol obj end"


def canon(case):
    if "big" in case:
        return json.dumps([case["big"], len(case["graph"]), sum(len(a) for _, a in case["graph"]), case["expected"], case.get("variant")], sort_keys=True)
    return json.dumps(case, sort_keys=True)


def source_capacity(case):
    return sum(e[1] for u, adj in case["graph"] if u == case["source"] for e in adj)


def coq_size_ok(case):
    return len(case["graph"]) <= 40 and sum(len(a) for _, a in case["graph"]) <= 150


def coq_corr_ok(case):
    # the model's outer fuel is a unary nat (source capacity + 1): huge capacities are checked by spec_check only
    return coq_size_ok(case) and source_capacity(case) <= 3000


def _corpus():
    out = []
    d = VERIF / "corpus" / "C08"
    if d.exists():
        for f in sorted(d.glob("*.json")):
            o = json.loads(f.read_text())
            out.append({k: o[k] for k in ("graph", "source", "sink", "variant", "expected", "big") if k in o})
    return out


def judge(case, timeout=1.5):
    out = run_impl(case, timeout=timeout)
    return out, oracle(case, out)


def run(ctx: Ctx):
    ctx.rule = ("capacitated digraphs <= 9 nodes, integer capacities 0..4: layered networks s->L1->L2(->L3)->t (half of them unit "
                "capacities), adversarial bipartite networks whose adjacency order makes BFS take the wrong partner first, random digraphs with parallel / anti-parallel arcs, self loops, arcs into the source / out of "
                "the sink, unreachable parts, zero capacities, empty adjacency lists, str/int/mixed labels, shuffled insertion order; "
                "zig-zag gadgets (k routes re-routing one another through one middle arc), anti-parallel pairs with capacities 1..3 under a "
                "larger bottleneck, plus an EVENT-DIRECTED search (generate + hill-climb by mutations, <= 12 nodes) for rare histories "
                "e1 exhausted->restored->reused arc, e2 partial cancellation on an anti-parallel input pair, e3 e2 with the remainder "
                "needed to respect the capacity, e4 a node pair crossed by >= 3 augmentations, e5 BFS ends after a reverse-only arc was used "
                "(corpus/C08/e*_*.json replayed first, fresh search from ctx.rng every run); "
                "HARDENING classes: L half of all generated cases + a dedicated family are called through a label map (None, False/0/0.0, '', (), "
                "b'', frozenset(), inf, user objects, equal-but-not-identical fresh tuples / strings / ints >= 257); I adjacency list/tuple, entries "
                "tuple/list, graph dict/OrderedDict/defaultdict/read-only proxy; S large instances with the answer known by construction (chains "
                "to 4097, 65537 parallel arcs, fans, complete and hidden matchings, disjoint paths, cycles); M capacities 2^31..10^18, 2^53+-1, "
                "huge+tiny, scaling by 2^k (objective scales); A caller's graph unchanged after every call, every 4th case called again after "
                "another call, every 8th one graph object through (s,t),(t,s),(s,t); A2 in-place edits of the caller's graph between calls (replace / append / "
                "delete an arc, new key, swap capacities; min_cost_flow or max_flow(t,s) on the same object in between) compared with a fresh copy; "
                "W work volume: spine/hub unit networks with 130..10^4 (thorough 4*10^4) augmentations, fans, 10^4-node paths, 10^5-neighbour stars "
                "(coverage.work_volume_max, histogram work_crossed); O no options; X floats are outside the quantifier (integer capacities); H events as above; "
                "non-trivial = maximum flow >= 1 reached with >= 2 augmentations or any event e1-e5; distinct = canonical JSON of the case. "
                "Histogram `event` counts cases per event, reverse_arc_used cases where an augmentation cancelled flow (reference port).")
    ctx.proof_step(["C08"])
    ctx.notes.append("valid_input = source <> sink and capacities >= 0; max_flow(g, s, s) does not return (path_flow stays inf): "
                     "outside the quantifier, one such call is run with a 1 s limit and must correspond to the model's None")
    ctx.notes.append("the returned dictionary is compared as a finite map (Python dict equality); the order of its keys is not modelled")
    ctx.notes.append("oracle: minimum cut by enumeration of all source-side subsets (<= 12 nodes); large instances: value known by construction")
    ctx.notes.append("Coq correspondence covers cases with <= 40 adjacency keys, <= 150 arcs and source capacity <= 3000 (the model's outer fuel is "
                     "a unary nat); huge capacities are judged by the oracle and by the Coq spec_check (Z), large sizes by the oracle only")
    ctx.notes.append("events e1-e5 are detected by an instrumented Python port of the algorithm (maxflow_events.ref_run); it only steers "
                     "generation and fills histograms; histogram reference_port_agrees shows it reproduces the implementation's result")
    n_lay = ctx.budget(240, 2500)
    n_adv = ctx.budget(240, 2500)
    n_rnd = ctx.budget(200, 2500)
    n_gad = ctx.budget(120, 1800)          # per gadget family
    n_search = ctx.budget(20000, 150000)   # reference runs spent on the event-directed search

    # open known findings (none at the time of writing): replay their structured witnesses first
    for f in ctx.open_findings():
        for w in f.get("witness_cases", []):
            wc = {"graph": w["graph"], "source": w["source"], "sink": w["sink"]}
            wout, wbad = judge(wc, timeout=5.0)
            ctx.evaluations += 1
            if wbad:
                ctx.known_hit(f["id"], f"witness still reproduces: {wbad}")

    thorough = ctx.tier == "thorough"
    n_lab = ctx.budget(80, 1000)           # L: forced special label schemes
    n_mag = ctx.budget(160, 1800)          # M: huge / mixed / scaled capacities
    n_big = ctx.budget(16, 70)            # S: large instances, answer known by construction
    rng = ctx.rng
    cases, kinds = [], []

    def add(kind, cs):
        for c in cs:
            cases.append(c)
            kinds.append(kind)

    base = _corpus() + fixed_cases()
    add("fixed", base)
    add("layered", [gen_layered(rng) for _ in range(n_lay)])
    add("adversarial", [gen_adversarial(rng) for _ in range(n_adv)])
    add("random", [gen_random(rng) for _ in range(n_rnd)])
    for fam in (EV.gen_zigzag, EV.gen_antiparallel):
        k = 0
        while k < n_gad:
            c = fam(rng)
            if EV.n_nodes(c) <= MAX_NODES:
                add("gadget", [c])
                k += 1
    seeds = [c for c in base if "big" not in c and EV.ref_run(c)["events"]]
    add("event_search", [c for c, _ in EV.event_search(rng, n_search, seeds=seeds)])
    # I + L on everything generated: half of the generated cases are called through a random label map / container types
    for i in range(len(base), len(cases)):
        if rng.random() < 0.5:
            cases[i]["variant"] = SH.random_variant(rng, cases[i])
    small = [c for c in cases if "big" not in c]
    # L: special label pools (None, False / 0 / 0.0, "", (), inf, user objects, fresh equal objects) on small cases incl. the corpus
    schemes = list(SH.SCHEMES)
    for k in range(n_lab):
        c = json.loads(json.dumps(rng.choice(small)))
        c["variant"] = SH.random_variant(rng, c, force_labels=schemes[k % len(schemes)])
        add("labels", [c])
    # M: magnitudes
    for _ in range(n_mag):
        c = SH.magnify(rng, rng.choice(small))
        if rng.random() < 0.3:
            c["variant"] = SH.random_variant(rng, c)
        add("magnitude", [c])
    # S: sizes
    for i in range(n_big):
        sd = rng.getrandbits(48)
        c = SH.gen_big(random.Random(sd), thorough, SH.BIG_KINDS[i % len(SH.BIG_KINDS)])
        c["gen"] = ["gen_big", thorough, SH.BIG_KINDS[i % len(SH.BIG_KINDS)], sd]
        if rng.random() < 0.4:
            c["variant"] = SH.random_variant(rng, c)
        add("big", [c])

    # W: work volume - many iterations of one internal loop at moderate size, answer by construction.  Quick crosses 2^7, 2^10,
    # 2^11, 2^12 and 10^4 augmentations, 10^4 pops / path length and 10^5 pops / neighbours of one node; thorough goes to 4*10^4
    # augmentations (10^5 costs ~3 min on an idle machine with this BFS: every augmentation re-scans spine + hub) and 2^20 neighbours
    work = [("augmentations", 130), ("augmentations", 1030), ("augmentations", 2060), ("augmentations", 4100), ("augmentations", 10010),
            ("augmentations_fan", 1100), ("bfs_pops_path", 10000), ("bfs_pops_star", 100000)]
    if thorough:
        work += [("augmentations", 30000), ("augmentations", 40000), ("augmentations_fan", 2049), ("augmentations_fan", 4097), ("bfs_pops_path", 20000),
                 ("bfs_pops_star", 2 ** 20 + 2)]
    for loop, target in work:
        sd = rng.getrandbits(48)
        c = SH.gen_work(random.Random(sd), loop, target)
        c["gen"] = ["gen_work", loop, target, sd]
        if target <= 5000 and rng.random() < 0.5:
            c["variant"] = SH.random_variant(rng, c)
        add("work", [c])
    n_edit = ctx.budget(90, 800)         # A2: in-place edits between calls

    work_max = {}
    corr, spec, metas, spec_metas = [], [], [], []
    prev = None
    for k, case in enumerate(cases):
        if len(ctx.violations) >= 3:
            ctx.notes.append(f"stopped after 3 violations: {len(cases) - k} generated cases not run")
            break
        kind = kinds[k]
        out = run_impl(case, timeout=1200.0 if "expected" in case else 5.0)   # large instances: generous guard, the machine may be loaded
        ctx.evaluations += 1
        bad = oracle(case, out)
        var = case.get("variant") or {}
        ctx.count("kind", kind)
        nn = len(SH.first_occurrence(case))
        ctx.count("nodes", nn if nn <= 12 else "13-64" if nn <= 64 else "65-1024" if nn <= 1024 else "1025+")
        ctx.count("arcs", min(20, sum(len(a) for _, a in case["graph"])))
        ctx.count("labels", var.get("labels") or "plain")
        ctx.count("mapping", var.get("mapping", "dict"))
        ctx.count("containers", f"{var.get('adj', 'list')}/{var.get('entry', 'tuple')}")
        if "big" in case:
            ctx.count("big", case["big"])
        if "magnitude" in case:
            ctx.count("magnitude", case["magnitude"])
        # A: same input again (after another call in between) gives the same answer
        if not bad and k % 4 == 0 and kind != "work":
            if prev is not None:
                run_impl(prev[0])
            again = run_impl(case, timeout=1200.0 if "expected" in case else 5.0)
            ctx.evaluations += 1
            if again[:4] != out[:4]:
                bad = f"the same input gave a different answer on a second call: {repr(again[1:4])[:400]} (first: {repr(out[1:4])[:400]})"
            ctx.count("repeat_call", "same" if again[:4] == out[:4] else "different")
        if not bad and k % 8 == 3 and "expected" not in case:
            bad = run_sequence(case)
            ctx.evaluations += 3
            ctx.count("call_sequence", "ok" if bad is None else "bad")
        # M: scaling all capacities by 2^k scales the value
        if not bad and "scaled_from" in case and out[0] == "ok":
            bout = run_impl(case["scaled_from"])
            if bout[0] == "ok" and oracle(case["scaled_from"], bout) is None and out[2] != bout[2] * case["scale"]:
                bad = f"capacities scaled by {case['scale']}: objective {out[2]} != {case['scale']} * {bout[2]}"
        prev = (case, out) if "expected" not in case else prev
        if out[0] == "ok" and isinstance(out[3], int):
            wv = dict(case.get("work") or {})
            wv["augmentations"] = out[3]                  # measured: Result.iterations (the rest is by construction)
            for loop, n in wv.items():
                work_max[loop] = max(work_max.get(loop, 0), n)
                if kind == "work":
                    for thr in (2 ** 7, 2 ** 10, 2 ** 11, 2 ** 12, 10 ** 4, 10 ** 5, 2 ** 20):
                        if n >= thr:
                            ctx.count("work_crossed", f"{loop}>={thr}")
        if bad:
            still = (lambda c: judge(c)[1] is not None)
            if "expected" in case or not oracle(case, out):
                small_case, sout, sbad = case, out, bad       # by-construction / sequence verdicts: report the case as run
            else:
                small_case = shrink(case, still, budget=25 if out[0] == "hang" else 400)
                sout, sbad = judge(small_case)
            g_, s_, t_, _ = SH.materialize(small_case)
            n_arcs = sum(len(a) for _, a in small_case["graph"])
            payload = small_case if n_arcs <= 60000 else {k2: v for k2, v in small_case.items() if k2 != "graph"}
            ctx.violation(f"max_flow output violates the property: {sbad or bad}",
                          {"kind": "maxflow", **payload, "call": f"max_flow({g_!r}, {s_!r}, {t_!r})"[:3000],
                           "impl_out": repr(sout)[:3000], "original": case if n_arcs <= 200 else None, "original_verdict": bad})
        if out[0] == "ok":
            obj, its = out[2], out[3]
            ctx.count("objective", obj if isinstance(obj, int) and obj < 8 else "8+")
            ctx.count("iterations", its if its < 6 else "6+")
            if kind == "work":
                continue
            ref = EV.ref_run(case, True)
            tot, cancels = ref["total"], ref["cancels"]
            ctx.count("reference_port_agrees", (ref["flow"], tot, ref["its"]) == (out[1], obj, its))
            ctx.count("reverse_arc_used", cancels > 0)
            for ev in sorted(ref["events"]):
                ctx.count("event", ev)
            if not ref["events"]:
                ctx.count("event", "none")
            if cancels > 0 and "big" not in case:
                ptot, _, _ = trace_ref(case, False)
                ctx.count("pinned_code_would_return_less", ptot < tot)
            if (isinstance(obj, int) and obj >= 1 and its >= 2) or ref["events"]:
                ctx.nontriv(canon(case))
            if "big" not in case:
                ctx.sample({"case": case, "solution": sorted((repr(k), v) for k, v in out[1].items()), "objective": obj, "iterations": its}, 3)
        else:
            ctx.count("impl_outcome", out[0])
        if not coq_size_ok(case):
            continue
        idx = numbering(case)
        if coq_corr_ok(case):
            corr.append(corr_case(case, out, idx))
            metas.append((case, out))
        if sol_ok_for_coq(out, idx):
            spec.append(spec_case(case, out, idx))
            spec_metas.append((case, out))

    ctx.extra["work_volume_max"] = work_max
    # A2: in-place edits between calls on small cases
    pool = [c for c, kd in zip(cases, kinds) if "expected" not in c and "scaled_from" not in c]
    for _ in range(n_edit):
        if len(ctx.violations) >= 3:
            break
        base_case = rng.choice(pool)
        bad, edited = run_edits(base_case, rng)
        ctx.evaluations += 7
        ctx.count("in_place_edits", "ok" if bad is None else "bad")
        if bad:
            g_, s_, t_, _ = SH.materialize(edited)
            ctx.violation(f"max_flow: {bad}"[:1500], {"kind": "maxflow", **edited, "edited_from": base_case,
                                                      "call_on_fresh_copy": f"max_flow({g_!r}, {s_!r}, {t_!r})"[:3000]})

    # X (POLICY_X): float / non-finite capacities are outside the quantifier (non-negative INTEGER capacities): observation only -
    # the call may return anything, raise or be cut by the guard; nothing here is a violation
    ctx.notes.append("observation_only: capacities that are floats (33.0, -0.0), inf, nan or 1e308 are outside the property (integer capacities); "
                     "a few such calls are made and their outcomes counted, never judged")
    for i in range(ctx.budget(10, 60)):
        mode = ("integral_float", "neg_zero", "inf", "nan", "1e308")[i % 5]
        oc = json.loads(json.dumps({k2: v2 for k2, v2 in rng.choice(pool).items() if k2 in ("graph", "source", "sink")}))
        arcs_ = [e for _, adj in oc["graph"] for e in adj]
        if not arcs_:
            continue
        if mode == "integral_float":
            for e in arcs_:
                e[1] = float(e[1])
        else:
            rng.choice(arcs_)[1] = {"neg_zero": -0.0, "inf": float("inf"), "nan": float("nan"), "1e308": 1e308}[mode]
        oout = run_impl(oc, timeout=2.0)
        tag = oout[0]
        if mode == "integral_float" and oout[0] == "ok":
            iout = run_impl({**oc, "graph": [[u, [[e[0], int(e[1])] + e[2:] for e in adj]] for u, adj in oc["graph"]]})
            tag = "equals_int_run" if iout[:4] == oout[:4] else "differs_from_int_run"
        ctx.count("observation_only", f"{mode}:{tag}")

    # source == sink: the code does not return; the model says None (fuel) - keep the correspondence honest
    deg = {"graph": [["s", [["a", 1]]], ["a", [["s", 1]]]], "source": "s", "sink": "s"}
    dout = run_impl(deg, timeout=1.0)
    ctx.count("degenerate_source_eq_sink", dout[0])
    didx = numbering(deg)
    corr.append(corr_case(deg, dout, didx))
    metas.append((deg, dout))

    failing = ctx.coq_check("corr", IMPORTS, CORR_TYPE, CORR_CHK, corr)
    ctx.traces_validated += len(corr) - len(failing)
    failing_spec = ctx.coq_check("spec", IMPORTS, SPEC_TYPE, SPEC_CHK, spec)
    disagree = [metas[i] for i in failing]
    spec_bad = [spec_metas[i] for i in failing_spec]

    for case, out in spec_bad[:3]:
        if oracle(case, out) is None:
            # Coq's spec checker rejects an output the Python oracle accepts: one of the two is wrong
            ctx.violation("Coq spec_check rejects an implementation output that the Python oracle accepts",
                          {"kind": "maxflow", **case, "impl_out": repr(out), "lemma": "Cases/C08/spec_*.v corr"}, no_input=True)

    if (disagree or ctx.broken) and not [v for v in ctx.violations if not v["no_input"]]:
        found = False
        seeds = [c for c, _ in disagree]
        for it in range(40000):
            if seeds and it % 4 == 0:
                case = json.loads(json.dumps(ctx.rng.choice(seeds)))
                for ua in case["graph"]:
                    for e in ua[1]:
                        if ctx.rng.random() < 0.3:
                            e[1] = _cap(ctx.rng)
            else:
                case = ctx.rng.choice([gen_layered, gen_adversarial, gen_random, EV.gen_zigzag, EV.gen_antiparallel, EV.gen_layers])(ctx.rng)
                if EV.n_nodes(case) > MAX_NODES:
                    continue
            out, bad = judge(case)
            ctx.evaluations += 1
            if bad:
                small = shrink(case, lambda c: judge(c)[1] is not None)
                sout, sbad = judge(small)
                ctx.violation(f"max_flow output violates the property: {sbad}",
                              {"kind": "maxflow", **small, "impl_out": repr(sout), "original": case})
                found = True
                break
        if not found:
            for case, out in disagree[:1]:
                idx = numbering(case)
                model = ctx.coq_eval("corr_show", IMPORTS, f"max_flow {coq_graph(case, idx)} {cnat(idx[case['source']])} {cnat(idx[case['sink']])}")
                ctx.violation("correspondence lemma corr: model SV.C08.MaxFlow.max_flow and implementation differ "
                              "(observable: flow dictionary, objective, iterations)",
                              {"kind": "maxflow", **case, "impl_out": repr(out), "numbering": {repr(k): v for k, v in idx.items()},
                               "model_out": model, "lemma": "Cases/C08/corr_*.v corr"}, no_input=True)


def replay(obj):
    if "graph" not in obj and obj.get("gen"):      # very large generated instance: rebuilt from its own seed
        gen = obj["gen"]
        built = (SH.gen_big(random.Random(gen[3]), gen[1], gen[2]) if gen[0] == "gen_big" else SH.gen_work(random.Random(gen[3]), gen[1], gen[2]))
        obj = {**obj, "graph": built["graph"]}
    if "graph" not in obj:
        print("replay has no input graph:", obj.get("unchecked") or obj.get("what"))
        return 1
    case = {k: obj[k] for k in ("graph", "source", "sink", "variant", "expected", "big") if k in obj}
    out = run_impl(case, timeout=1200.0 if "expected" in case else 5.0)
    bad = oracle(case, out)
    g, s, t, _ = SH.materialize(case)
    print(("call: max_flow(%r, %r, %r)" % (g, s, t))[:4000])
    print("implementation output (labels of the replay file):", repr(out)[:4000])
    if "expected" in case:
        print("maximum flow known by construction:", case["expected"])
    elif len(pooled(case)[1]) <= 16:
        print("minimum cut (enumeration):", min_cut(case))
    print("oracle verdict:", bad or "ok")
    return 1 if bad else 0
