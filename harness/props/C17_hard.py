"""C17 - round-2 hardening families (see /verif/HARDENING.md).  Part of harness/props/C17.py (same owner).

`extra_cases(ctx)` returns ordinary C17 case dicts (optionally with 'form' = how the arguments are presented to the
implementation, 'opt_known' = optimum known by construction, 'no_coq' = too big for the model) that flow through C17.run's
whole pipeline: exact oracle / by-construction oracle, kernel-checked correspondence, proved gate, proved dual certificate.
`run_part(ctx)` adds what does not fit a single call: call sequences on shared argument objects (aliasing, dependence on
earlier calls), options the model does not have (eps, gap_tol, progress call-backs), and an event-directed search over
rare internal events of solve_bp (witness corpus: corpus/C17/hard_events.json).

Classes:  L labels/objects (fresh equal tuples and ints >= 257 from the pricing call-back and in the arguments, duplicate
columns in initial_columns, integer-valued float sizes)  I iterables (tuple / range / tuple of lists)  S sizes (17..65
piece types, width up to 1025, 17..40 rows in custom mode; optimum by construction)  M magnitudes (demands up to 2^53-1;
perfect-packing constructions whose optimum is the area bound)  O option sweeps (max_iter 0..40, max_nodes 0..12,
default+-1; eps, gap_tol, call-backs)  A aliasing / call sequences  H rare histories (events).
"""
from __future__ import annotations

import copy
import json

from harness.core import VERIF, Ctx, guarded, pmap

MAGS = [257, 1000, 65537, 10 ** 6, 2 ** 31, 10 ** 9, 10 ** 9 + 7, 2 ** 44 + 1, 10 ** 12, 10 ** 15, 2 ** 53 - 1]
DEMAND_FORMS = ["list", "tuple", "range"]
JUDGED_MAGS = [257, 300, 1000, 4097, 65537, 10 ** 5, 2 ** 18, 3 * 10 ** 5]


# ---------------------------------------------------------------------------------- L / A: duplicate columns
def gen_dup_dominant(rng):
    """Custom mode, one column dominates and is listed two or three times in initial_columns; the demands make its LP value
    fractional, so branch-and-price branches on a duplicated column and the twin takes over the rest."""
    m = rng.choice([1, 2, 2, 3])
    c = tuple(rng.randint(1, 3) for _ in range(m))
    if max(c) == 1:
        c = tuple(2 if i == 0 else a for i, a in enumerate(c))
    while True:
        demands = [rng.randint(0, 6) for _ in range(m)]
        if any(d % a for d, a in zip(demands, c) if d):
            break
    weak = []
    for _ in range(rng.randint(1, 4)):
        w = tuple(rng.randint(0, a) for a in c)
        if any(w) and w != c:
            weak.append(w)
    for i in range(m):        # the restricted master stays feasible without the dominant column
        weak.append(tuple(rng.choice([1, 1, 2]) if k == i else 0 for k in range(m)))
    init = [c] * rng.choice([2, 2, 3]) + weak
    if rng.random() < 0.3:
        init.append(rng.choice(weak))
    rng.shuffle(init)
    cols = []
    for x in init:
        if x not in cols:
            cols.append(x)
    if rng.random() < 0.5:   # pricing may know more columns than the initial ones
        extra = tuple(rng.randint(0, 3) for _ in range(m))
        if any(extra) and extra not in cols:
            cols.append(extra)
    solver = rng.choice(["bp", "bp", "bp", "cg"])
    case = {"kind": "custom", "solver": solver, "columns": [list(x) for x in cols], "init": [list(x) for x in init], "demands": demands,
            "max_iter": rng.choice([0, 2, 30, 30, None]) if solver == "cg" else rng.choice([0, 2, 30, 30]), "family": "dup_dominant"}
    if solver == "bp":
        case["max_nodes"] = rng.choice([None, None, 200, 20, 3])
    return case


def gen_dup_random(rng, gen_custom):
    case = gen_custom(rng)
    init = [list(c) for c in case["init"]]
    for _ in range(rng.choice([1, 1, 2])):
        init.insert(rng.randrange(len(init) + 1), list(rng.choice(init)))
    case["init"] = init
    case["family"] = "dup_random"
    return case


# ---------------------------------------------------------------------------------- L / I: argument forms
def with_form(rng, case):
    form = {"demands": rng.choice(DEMAND_FORMS + ["float"]), "fresh": rng.random() < 0.5}
    if case["kind"] == "cs":
        form["sizes"] = rng.choice(["list", "tuple", "float"])
    else:
        form["init"] = rng.choice(["tuples", "lists", "tuple_of_lists"])
        if rng.random() < 0.3:
            form["entries"] = "float"
    case["form"] = form
    case["family"] = "forms"
    return case


# ---------------------------------------------------------------------------------- M / S: optimum known by construction
def _zero_waste_patterns(rng, sizes, width, tries=200):
    """Patterns with sum(size * a) == width exactly."""
    n = len(sizes)
    out = []
    for _ in range(tries):
        a = [0] * n
        rem = width
        order = list(range(n))
        rng.shuffle(order)
        for i in order:
            k = rng.randint(0, rem // sizes[i])
            a[i] = k
            rem -= k * sizes[i]
        if rem:
            fit = [i for i in range(n) if rem % sizes[i] == 0]
            if not fit:
                continue
            i = rng.choice(fit)
            a[i] += rem // sizes[i]
        if tuple(a) not in out:
            out.append(tuple(a))
    return out


def gen_perfect_cs(rng, n=None, width=None, mags=None, family="magnitude"):
    """Demands = sum_j c_j * p_j for zero-waste patterns p_j: the area bound sum(size*demand)/width = sum c_j is attained, so the
    optimum is sum c_j whatever the magnitudes."""
    while True:
        n_ = n or rng.choice([1, 2, 3, 4])
        width_ = width or rng.choice([6, 8, 9, 10, 12, 12, 15, 20])
        sizes = [rng.randint(1, max(1, width_ // 2 + 1)) for _ in range(n_)]
        pats = _zero_waste_patterns(rng, sizes, width_, 60)
        if pats:
            break
    k = rng.randint(1, min(3, len(pats)))
    chosen = rng.sample(pats, k)
    mults = [rng.choice(mags or MAGS) + rng.choice([0, 0, 1, -1]) for _ in chosen]
    demands = [sum(c * p[i] for c, p in zip(mults, chosen)) for i in range(n_)]
    dmax = 2 * 10 ** 6 if mags is JUDGED_MAGS else 2 ** 53 - 1   # floats: beyond 2^53 demands are not even representable
    if max(demands) > dmax:
        scale = max(demands) // dmax + 1
        mults = [max(1, c // scale) for c in mults]
        demands = [sum(c * p[i] for c, p in zip(mults, chosen)) for i in range(n_)]
    solver = rng.choice(["cg", "bp"])
    case = {"kind": "cs", "solver": solver, "sizes": sizes, "width": width_, "demands": demands, "max_iter": 30,
            "opt_known": sum(mults), "family": family, "form": {"fresh": True, "demands": rng.choice(["list", "tuple"])}}
    if solver == "bp":
        case["max_nodes"] = rng.choice([20, 200])
        case["max_iter"] = 30
    return case


def gen_single_type(rng, mags):
    width = rng.choice([3, 7, 10, 12, 100])
    size = rng.randint(1, width)
    d = rng.choice(mags) + rng.choice([0, 1, -1])
    k = width // size
    solver = rng.choice(["cg", "bp"])
    case = {"kind": "cs", "solver": solver, "sizes": [size], "width": width, "demands": [d], "max_iter": rng.choice([0, 1, 30, None]),
            "opt_known": -(-d // k), "family": "magnitude", "form": {"fresh": True}}
    if solver == "bp":
        case["max_nodes"] = rng.choice([0, 20, None])
        if case["max_iter"] is None:
            case["max_iter"] = 30
    return case


def gen_perfect_custom(rng, m=None, mags=None, family="magnitude"):
    """Custom mode: every column has entry sum T, demands = sum_j c_j * col_j, so sum(demands)/T = sum c_j is a lower bound that
    the construction attains."""
    m_ = m or rng.choice([2, 3])
    T = rng.choice([2, 3, 4])
    cols = []
    for _ in range(200):
        cuts = sorted(rng.randint(0, T) for _ in range(m_ - 1))
        c = tuple(b - a for a, b in zip([0] + cuts, cuts + [T]))
        if c not in cols:
            cols.append(c)
        if len(cols) >= min(8, m_ + 4):
            break
    k = rng.randint(1, min(3, len(cols)))
    chosen = rng.sample(cols, k)
    mults = [rng.choice(mags or MAGS[:9]) + rng.choice([0, 1, -1]) for _ in chosen]
    demands = [sum(c * p[i] for c, p in zip(mults, chosen)) for i in range(m_)]
    if mags is JUDGED_MAGS and max(demands) > 2 * 10 ** 6:
        scale = max(demands) // (2 * 10 ** 6) + 1
        mults = [max(1, c // scale) for c in mults]
        demands = [sum(c * p[i] for c, p in zip(mults, chosen)) for i in range(m_)]
    # initial columns: T * unit vectors keep the restricted master feasible (they have entry sum T as well)
    init = [tuple(T if j == i else 0 for j in range(m_)) for i in range(m_)]
    for c in init:
        if c not in cols:
            cols.append(c)
    solver = rng.choice(["cg", "bp"])
    case = {"kind": "custom", "solver": solver, "columns": [list(c) for c in cols], "init": [list(c) for c in init], "demands": demands,
            "max_iter": 30, "opt_known": sum(mults), "init_opt_known": sum(-(-d // T) for d in demands), "family": family,
            "form": {"fresh": True, "init": rng.choice(["tuples", "lists"])}}
    if solver == "bp":
        case["max_nodes"] = rng.choice([20, 200])
    return case


def gen_big_pieces(rng, n, width):
    """n piece types, each longer than half the roll: no two pieces share a roll, the optimum is the number of pieces."""
    sizes = [rng.randint(width // 2 + 1, width) for _ in range(n)]
    demands = [rng.randint(0, 3) for _ in range(n)]
    demands[rng.randrange(n)] += 1
    solver = rng.choice(["cg", "bp"])
    case = {"kind": "cs", "solver": solver, "sizes": sizes, "width": width, "demands": demands, "max_iter": 30,
            "opt_known": sum(demands), "family": "size", "no_coq": True}
    if solver == "bp":
        case["max_nodes"] = 20
    return case


def gen_pairs(rng, npairs, width):
    """Complementary pairs (a, width - a) with equal demands: the pair patterns have no waste, optimum = sum of pair demands."""
    sizes, demands = [], []
    used = set()
    while len(sizes) < 2 * npairs:
        a = rng.randint(width // 3 + 1, width // 2 - 1)
        if a in used:
            continue
        used.add(a)
        d = rng.randint(1, 4)
        sizes += [a, width - a]
        demands += [d, d]
    solver = rng.choice(["cg", "bp"])
    case = {"kind": "cs", "solver": solver, "sizes": sizes, "width": width, "demands": demands, "max_iter": None if solver == "cg" else 60,
            "opt_known": sum(demands) // 2, "family": "size", "no_coq": True}
    if solver == "bp":
        case["max_nodes"] = 20
    return case


def gen_unit_capacity(rng, width):
    """Unit-size pieces on a wide roll (the knapsack table has 100*width cells and width passes)."""
    d = rng.randint(width, 5 * width)
    return {"kind": "cs", "solver": rng.choice(["cg", "bp"]), "sizes": [1], "width": width, "demands": [d], "max_iter": 30, "max_nodes": 20,
            "opt_known": -(-d // width), "family": "size", "no_coq": True}


def gen_rows_custom(rng, m):
    """Many rows in custom mode: columns of entry sum 2 (pairs of rows), demands built from chosen columns."""
    T = 2
    cols = []
    for _ in range(3 * m):
        i, j = rng.randrange(m), rng.randrange(m)
        c = [0] * m
        c[i] += 1
        c[j] += 1
        if tuple(c) not in cols:
            cols.append(tuple(c))
    chosen = rng.sample(cols, min(len(cols), m))
    mults = [rng.randint(1, 3) for _ in chosen]
    demands = [sum(c * p[i] for c, p in zip(mults, chosen)) for i in range(m)]
    init = [tuple(T if j == i else 0 for j in range(m)) for i in range(m)]
    for c in init:
        if c not in cols:
            cols.append(c)
    return {"kind": "custom", "solver": rng.choice(["cg", "bp"]), "columns": [list(c) for c in cols], "init": [list(c) for c in init],
            "demands": demands, "max_iter": 200, "max_nodes": 20, "opt_known": sum(mults),
            "init_opt_known": sum(-(-d // T) for d in demands), "family": "size", "no_coq": True}


# ---------------------------------------------------------------------------------- W: work volume (round 3)
def gen_wide_roll(rng, width):
    """Roll widths beyond 2^12 / 10^4 / 2^14: the knapsack table has 100 * width cells.  Zero-waste constructions (pairs a + (W - a),
    a + a + (W - 2a), triples a + b + (W - a - b)) so the optimum is the area bound."""
    # zero-waste patterns with several pieces are the ones any coarsening of the DP grid loses first
    style = rng.choice(["pair", "double", "double", "triple", "3+1", "3+1", "2+1+1", "2+1+1"])
    if style == "pair":
        a = rng.randint(width // 3 + 1, width // 2 - 1)
        sizes, pat = [a, width - a], (1, 1)
    elif style == "double":
        a = rng.randint(width // 4 + 1, width // 3 - 1)
        sizes, pat = [a, width - 2 * a], (2, 1)
    elif style == "3+1":
        a = rng.randint(width // 5 + 1, width // 4 - 1)
        sizes, pat = [a, width - 3 * a], (3, 1)
    elif style == "2+1+1":
        a = rng.randint(width // 5 + 1, width // 4 - 1)
        b = rng.randint(width // 5 + 1, width // 4 - 1)
        sizes, pat = [a, b, width - 2 * a - b], (2, 1, 1)
    else:
        a = rng.randint(width // 4 + 1, width // 3 - 1)
        b = rng.randint(width // 4 + 1, width // 3 - 1)
        sizes, pat = [a, b, width - a - b], (1, 1, 1)
    c = rng.randint(1, 3)
    demands = [c * k for k in pat]
    solver = rng.choice(["cg", "cg", "cg", "bp"])
    return {"kind": "cs", "solver": solver, "sizes": sizes, "width": width, "demands": demands, "max_iter": 30, "max_nodes": 20,
            "opt_known": c, "family": "work_wide_roll", "no_coq": True, "work": True, "timeout": 300}


def gen_lazy_cg(rng, K, max_iter, rows=1):
    """Custom mode with a lazy (first improving) pricing call-back over the columns k * e_i, k = 1..K: column generation adds them one
    by one, about rows * (K - 1) iterations; optimum sum_i ceil(d_i / K).  With max_iter below that the run is cut short (FEASIBLE)."""
    cols = [tuple(k if j == i else 0 for j in range(rows)) for k in range(1, K + 1) for i in range(rows)]
    demands = [rng.randint(K, 3 * K) for _ in range(rows)]
    init = [tuple(1 if j == i else 0 for j in range(rows)) for i in range(rows)]
    solver = rng.choice(["cg", "bp"])
    return {"kind": "custom", "solver": solver, "columns": [list(c) for c in cols], "init": [list(c) for c in init], "demands": demands,
            "max_iter": max_iter, "max_nodes": 20, "opt_known": sum(-(-d // K) for d in demands), "init_opt_known": sum(demands),
            "form": {"pricing": "lazy"}, "family": "work_cg_iterations", "no_coq": True, "work": True, "timeout": 300}


DEEP_TREES = [   # found by search: branch-and-price trees of thousands of nodes on tiny inputs (pricing ignores the branching rows)
    {"sizes": [2, 1, 1, 2], "width": 5, "demands": [7, 2, 4, 8], "max_iter": 2},
    {"sizes": [1, 3, 1, 3], "width": 7, "demands": [10, 13, 8, 15], "max_iter": 1},
    {"sizes": [2, 1, 1, 1], "width": 5, "demands": [11, 11, 2, 7], "max_iter": 30},
    {"sizes": [1, 2, 1, 2], "width": 5, "demands": [7, 15, 8, 8], "max_iter": 2},
]


def gen_deep_tree(rng, base, max_nodes):
    return {"kind": "cs", "solver": "bp", **copy.deepcopy(base), "max_nodes": max_nodes, "family": "work_bb_nodes", "no_coq": True,
            "work": True, "timeout": 150}


def gen_bland_chain(rng, K, solver):
    """One row, initial columns (1), (2), ..., (K): Bland's rule enters them one after the other - K - 1 pivots in ONE simplex_phase call
    on a 2-row tableau.  Optimum ceil(d / K)."""
    cols = [[k] for k in range(1, K + 1)]
    d = rng.randint(K, 3 * K)
    return {"kind": "custom", "solver": solver, "columns": cols, "init": cols, "demands": [d], "max_iter": 2, "max_nodes": 5,
            "opt_known": -(-d // K), "init_opt_known": -(-d // K), "family": "work_pivots", "no_coq": True, "work": True, "timeout": 300}


def gen_pair_million(rng):
    """M: two piece types of the same size s on rolls of width 2s, both with the same ODD demand d in (10^6, 2^20): two pieces per roll, so the
    minimum is exactly d (area bound), the LP optimum is fractional (d/2 rolls of each pure pattern) and rounding gives d + 1.  With more than
    1/gap_tol = 10^6 rolls the relative gap of that plan is below gap_tol: it must not be labelled OPTIMAL (fix b06cee9)."""
    s_ = rng.choice([2, 3, 5, 7])
    d = rng.randrange(10**6 + 1, 2**20 - 1, 2)
    return {"kind": "cs", "solver": "bp", "sizes": [s_, s_], "width": 2 * s_, "demands": [d, d], "max_iter": None, "max_nodes": rng.choice([None, 5, 50]),
            "opt_known": d, "family": "magnitude_million_rolls", "no_coq": True, "timeout": 60}


def gen_many_pivots(rng, m):
    """m rows in custom mode: phase 1 has to drive m artificials out, > m pivots in one simplex_phase call."""
    c = gen_rows_custom(rng, m)
    c.update(solver="cg", max_iter=rng.choice([1, 2]), family="work_pivots", work=True, timeout=150)
    return c


# ---------------------------------------------------------------------------------- O: option sweeps
def sweeps(rng, gen_cs, gen_custom, n_base):
    out = []
    for b in range(n_base):
        base = (gen_cs if b % 2 == 0 else gen_custom)(rng)
        base = {k: v for k, v in base.items() if k not in ("max_nodes",)}
        for mi in list(range(0, 41)) + [999, 1000, 1001]:
            out.append({**base, "solver": "cg", "max_iter": mi, "family": "sweep_max_iter"})
        for mi in list(range(0, 41, 2)) + [1, 3]:
            out.append({**base, "solver": "bp", "max_iter": mi, "max_nodes": rng.choice([None, 50]), "family": "sweep_max_iter"})
        for mn in list(range(0, 13)) + [9999, 10000, 10001]:
            out.append({**base, "solver": "bp", "max_iter": 30, "max_nodes": mn, "family": "sweep_max_nodes"})
    return out


def gen_options(rng, gen_cs, gen_custom):
    """Options the model does not have: eps, gap_tol, progress call-backs (judged by the exact oracle only)."""
    case = (gen_cs if rng.random() < 0.6 else gen_custom)(rng)
    form = {}
    r = rng.random()
    if r < 0.25:
        form["eps"] = rng.choice([1e-12, 1e-6, 1e-7])
    elif r < 0.5 and case["solver"] == "bp":
        form["gap_tol"] = rng.choice([0.0, 1e-9, 1e-3, 1e-12])
    else:
        form["cb"] = rng.choice(["never", 1, 2, 3, 5])
        form["interval"] = rng.choice([1, 1, 2, 7])
    case["form"] = form
    case["family"] = "options"
    case["no_coq"] = True
    return case


def _mark(case):
    """Judged magnitudes: optimum <= 2^20 and demands <= 2*10^6 (also replayed in the exact-arithmetic model).  Anything larger is
    observation-only (the code's tolerances are absolute, eps = 1e-9, on a float tableau): run and classified, never judged."""
    if max(case["demands"], default=0) > 2 * 10 ** 6 or case.get("opt_known", 0) > 2 ** 20:
        case["no_coq"] = True
        case["observe_only"] = True
        case["family"] = "magnitude_observed"
    return case


def extra_cases(ctx: Ctx):
    from harness.props.C17 import gen_cs, gen_custom

    rng = ctx.rng
    thorough = ctx.tier == "thorough"
    k = 4 if thorough else 1
    cases = []
    cases += [gen_dup_dominant(rng) for _ in range(80 * k)]
    cases += [gen_dup_random(rng, gen_custom) for _ in range(50 * k)]
    cases += [with_form(rng, gen_cs(rng)) for _ in range(50 * k)] + [with_form(rng, gen_custom(rng)) for _ in range(50 * k)]
    cases += [_mark(gen_single_type(rng, JUDGED_MAGS + [10 ** 6])) for _ in range(40 * k)]
    cases += [_mark(gen_perfect_cs(rng, mags=JUDGED_MAGS)) for _ in range(60 * k)]
    cases += [_mark(gen_perfect_custom(rng, mags=JUDGED_MAGS)) for _ in range(50 * k)]
    # observation only: demands up to 2^53 - 1
    cases += [_mark(gen_single_type(rng, MAGS[5:])) for _ in range(15 * k)] + [_mark(gen_perfect_cs(rng, mags=MAGS[5:])) for _ in range(25 * k)]
    cases += [_mark(gen_perfect_custom(rng, mags=MAGS[5:9])) for _ in range(20 * k)]
    cases += [gen_options(rng, gen_cs, gen_custom) for _ in range(120 * k)]
    cases += sweeps(rng, gen_cs, gen_custom, 2 * k)
    # S: a few large structured instances (oracle by construction; not replayed in the model)
    for n, w in [(17, 40), (33, 60), (17, 257), (5, 1025), (3, 2049)] + ([(65, 101)] if thorough else []):
        cases.append(gen_big_pieces(rng, n, w))
    for npairs, w in [(9, 101)] + ([(17, 257)] if thorough else []):
        cases.append(gen_pairs(rng, npairs, w))
    cases.append(gen_unit_capacity(rng, rng.choice([65, 129])))
    for m in [17, 33] + ([40] if thorough else []):
        cases.append(gen_rows_custom(rng, m))
    cases.append(gen_perfect_cs(rng, n=rng.choice([17, 24]), width=rng.choice([60, 101]), mags=[3, 10, 257], family="size") | {"no_coq": True})
    # W (round 3): every loop pushed past 2^7 / 2^10 / 2^12 / 10^4 iterations where affordable
    heavy = []
    widths = [4097, rng.randint(4098, 8192), rng.randint(8193, 10000)] + [rng.randint(10001, 20001) for _ in range(9)]
    widths += [rng.choice([16000, 16385, 12345, 10001]), rng.randint(10001, 12000), rng.randint(16385, 20001)]
    if thorough:
        widths += [rng.randint(20001, 33000), 32771] + [rng.randint(10001, 20001) for _ in range(12)]
    for w in widths:
        heavy.append(gen_wide_roll(rng, w))
    heavy.append(gen_unit_capacity(rng, 257) | {"work": True, "family": "work_knapsack_passes", "timeout": 120})
    heavy.append(gen_lazy_cg(rng, 140, 129, rows=2))              # cut short at 2^7 + 1 iterations
    heavy.append({**gen_lazy_cg(rng, rng.randint(450, 600), 5000), "solver": "cg"})   # > 2^8 iterations, converges (each iteration re-solves the
    #                                                                 master from scratch with K Bland pivots: O(K^3), so 2^10 is thorough only)
    heavy.append({**gen_lazy_cg(rng, rng.randint(150, 260), 1000), "solver": "bp"})
    if thorough:
        heavy.append({**gen_lazy_cg(rng, 1100, None), "solver": "cg", "timeout": 600})   # crosses 2^10 and the default max_iter = 1000
    heavy.append(gen_bland_chain(rng, 1100, "cg"))                # > 2^10 pivots in one simplex_phase call
    heavy.append(gen_bland_chain(rng, 2100, "bp"))                # > 2^11
    heavy.append(gen_bland_chain(rng, 4200, "cg"))                # > 2^12
    if thorough:
        heavy.append(gen_bland_chain(rng, 10100, "cg"))           # > 10^4
    heavy.append(gen_deep_tree(rng, DEEP_TREES[0], 4200))         # > 2^12 nodes explored, stopped by max_nodes
    heavy.append(gen_deep_tree(rng, DEEP_TREES[2], None))         # ~1000 nodes, tree exhausted
    heavy.append(gen_deep_tree(rng, DEEP_TREES[3], 2100))
    if thorough:
        heavy.append(gen_deep_tree(rng, DEEP_TREES[0], None))     # default max_nodes = 10000 reached
        heavy.append(gen_deep_tree(rng, DEEP_TREES[1], None))
    heavy.append(gen_many_pivots(rng, 130))
    for _ in range(8 if thorough else 3):
        heavy.append(gen_pair_million(rng))
    if thorough:
        heavy.append(gen_many_pivots(rng, 260))
    for i, c in enumerate(heavy):      # spread over the list: pmap hands out chunks of 8 consecutive cases
        cases.insert((i * len(cases)) // len(heavy), c)
    return cases


# ---------------------------------------------------------------------------------- A: call sequences on shared argument objects
def _summary(r):
    from harness.props.C17 import _canon_num, _canon_plan

    return (r.status.name, _canon_num(r.objective), json.dumps(_canon_plan(r.solution)))


def _seq_work(item):
    """Calls solve_cg / solve_bp alternately on the SAME argument objects and compares every answer with the answer of an
    isolated call on fresh copies; the shared objects must come out unchanged."""
    from harness.core import use_repo

    use_repo()
    from harness.props.C17 import TIMEOUT, judge, make_pricing, with_opt
    import solvor.bp as bp
    import solvor.cg as cg

    case, order = item
    case = with_opt(dict(case))
    demands = list(case["demands"])
    if case["kind"] == "cs":
        shared = {"roll_width": case["width"], "piece_sizes": list(case["sizes"])}
    else:
        shared = {"pricing_fn": make_pricing(case["columns"]), "initial_columns": [tuple(c) for c in case["init"]]}
    before = copy.deepcopy((demands, {k: v for k, v in shared.items() if k != "pricing_fn"}))

    def call(solver, dem, args):
        kw = dict(args)
        if case["max_iter"] is not None:
            kw["max_iter"] = case["max_iter"]
        if solver == "bp" and case.get("max_nodes") is not None:
            kw["max_nodes"] = case["max_nodes"]
        return guarded(bp.solve_bp if solver == "bp" else cg.solve_cg, dem, timeout=TIMEOUT, **kw)

    problems = []
    for k, solver in enumerate(order):
        got = call(solver, demands, shared)
        fresh_args = copy.deepcopy({k2: v for k2, v in shared.items() if k2 != "pricing_fn"})
        if case["kind"] == "custom":
            fresh_args["pricing_fn"] = make_pricing(case["columns"])
        ref = call(solver, list(case["demands"]), fresh_args)
        if got[0] != ref[0]:
            problems.append(f"call {k} (solve_{solver}) on shared arguments ended {got[0]}, an isolated call {ref[0]}")
        elif got[0] == "ok" and _summary(got[1]) != _summary(ref[1]):
            problems.append(f"call {k} (solve_{solver}) on arguments shared with earlier calls answered {_summary(got[1])}, an isolated call {_summary(ref[1])}")
        now = (demands, {k2: v for k2, v in shared.items() if k2 != "pricing_fn"})
        if now != before:
            problems.append(f"call {k} (solve_{solver}) modified its arguments: {before} -> {now}")
            break
    return case, order, problems


# ---------------------------------------------------------------------------------- A2: in-place edits between calls (round 3)
def _edit_work(item):
    """f(x); mutate the caller's objects IN PLACE (same list objects, same pricing function object with a changed column list behind it);
    f(x) and the other solver again; every answer must equal that of a fresh call on a deep copy of the current input and obey C17."""
    from harness.core import use_repo

    use_repo()
    from harness.props.C17 import TIMEOUT, judge, with_opt, _canon_num, _canon_plan
    import solvor.bp as bp
    import solvor.cg as cg

    case, edits = item
    cur = copy.deepcopy({k: v for k, v in case.items() if k not in ("opt", "init_opt")})
    demands = list(cur["demands"])
    if cur["kind"] == "cs":
        sizes = list(cur["sizes"])
        live = None
    else:
        live = [tuple(c) for c in cur["columns"]]      # the column list behind the ONE pricing function object
        init = [tuple(c) for c in cur["init"]]

        def pricing(duals, _live=live):
            best, best_rc = None, None
            for c in _live:
                rc = 1.0 - sum(y * a for y, a in zip(duals, c))
                if best is None or rc < best_rc - 1e-9:
                    best, best_rc = c, rc
            return (best, best_rc) if best is not None else (None, 0.0)

    def args_shared():
        return ({"roll_width": cur["width"], "piece_sizes": sizes} if cur["kind"] == "cs" else {"pricing_fn": pricing, "initial_columns": init})

    def args_fresh():
        if cur["kind"] == "cs":
            return {"roll_width": cur["width"], "piece_sizes": list(sizes)}
        from harness.props.C17 import make_pricing
        return {"pricing_fn": make_pricing(list(live)), "initial_columns": list(init)}

    def call(solver, dem, args):
        kw = dict(args, max_iter=cur["max_iter"] if cur["max_iter"] is not None else 30)
        if solver == "bp":
            kw["max_nodes"] = 50
        return guarded(bp.solve_bp if solver == "bp" else cg.solve_cg, dem, timeout=TIMEOUT, **kw)

    def summ(res):
        if res[0] != "ok":
            return res[:2]
        r = res[1]
        return ("ok", r.status.name, _canon_num(r.objective), json.dumps(_canon_plan(r.solution)))

    problems = []
    history = []
    for step, edit in enumerate([None] + edits):
        if edit is not None:      # ---- the in-place edit
            kind, i, v = edit
            m = len(demands)
            if kind == "demand":
                demands[i % m] = v
            elif kind == "size" and cur["kind"] == "cs":
                sizes[i % m] = max(1, min(cur["width"], v))
            elif kind == "append_type" and cur["kind"] == "cs" and m < 5:
                sizes.append(max(1, min(cur["width"], v)))
                demands.append(1 + v % 3)
            elif kind == "append_column" and cur["kind"] == "custom":
                col = tuple((v >> (2 * k)) % 4 for k in range(m))
                if any(col) and col not in live:
                    live.append(col)
            elif kind == "dup_init" and cur["kind"] == "custom":
                init.insert(i % (len(init) + 1), init[i % len(init)])
            elif kind == "replace_init" and cur["kind"] == "custom":
                init[i % len(init)] = live[v % len(live)]
            else:
                continue
            history.append(edit)
            if not any(demands):
                demands[0] = 1
        snap = {"kind": cur["kind"], "demands": list(demands), "max_iter": cur["max_iter"]}
        if cur["kind"] == "cs":
            snap.update(sizes=list(sizes), width=cur["width"])
        else:
            snap.update(columns=[list(c) for c in live], init=[list(c) for c in init])
        for solver in (("cg", "bp") if step % 2 == 0 else ("bp", "cg")):
            got = call(solver, demands, args_shared())
            ref = call(solver, list(demands), args_fresh())
            if summ(got) != summ(ref):
                problems.append(f"after in-place edits {history} solve_{solver} on the edited objects answered {summ(got)}, a fresh call on a copy {summ(ref)}")
            if got[0] == "ok":
                c2 = with_opt({**snap, "solver": solver})
                out = {"status": got[1].status.name, "objective": _canon_num(got[1].objective), "plan": _canon_plan(got[1].solution)}
                bad = judge(c2, out)
                if bad:
                    problems.append(f"after in-place edits {history} solve_{solver}: {bad} (input now {snap})")
        if problems:
            break
    return case, history, problems


def gen_edits(rng):
    out = []
    for _ in range(rng.choice([1, 2, 2, 3])):
        out.append((rng.choice(["demand", "demand", "size", "append_type", "append_column", "dup_init", "replace_init"]),
                    rng.randrange(8), rng.randint(0, 6) if rng.random() < 0.7 else rng.randint(0, 255)))
    return out


# ---------------------------------------------------------------------------------- X: non-finite arguments (observed, outside the quantifier)
def _nonfinite_probes():
    from harness.core import use_repo

    use_repo()
    from solvor import solve_bp, solve_cg

    nan, inf = float("nan"), float("inf")
    probes = [("demand nan", dict(demands=[nan, 2], roll_width=7, piece_sizes=[3, 2])), ("demand inf", dict(demands=[inf, 1], roll_width=7, piece_sizes=[3, 2])),
              ("width inf", dict(demands=[2, 2], roll_width=inf, piece_sizes=[3, 2])), ("width nan", dict(demands=[2, 2], roll_width=nan, piece_sizes=[3, 2])),
              ("size nan", dict(demands=[2, 2], roll_width=7, piece_sizes=[nan, 2])), ("size inf", dict(demands=[2, 2], roll_width=7, piece_sizes=[inf, 2]))]
    out = []
    for name, kw in probes:
        for f in (solve_cg, solve_bp):
            d = kw["demands"]
            r = guarded(f, list(d), timeout=5, **{k: v for k, v in kw.items() if k != "demands"})
            out.append((f"{f.__name__} {name}", r[1].status.name if r[0] == "ok" else (r[0] + " " + str(r[1]) if len(r) > 1 else r[0])))
    return out


# ---------------------------------------------------------------------------------- H: rare internal events of solve_bp
EVENTS = ["tree_improved", "tree_optimal", "driveout_pivot", "node_infeasible", "covers_rejected", "dup_both_positive", "lower_bound_row",
          "max_nodes_hit", "deep_tree", "root_integral_uncovered", "pool_grew_in_tree"]


def _event_work(case):
    """Runs solve_bp with internal functions wrapped; returns (case, outcome, verdict, set of events)."""
    from harness.core import use_repo

    use_repo()
    from harness.props import C17
    import solvor.bp as bp
    import solvor.utils.pricing as pr

    ev = set()
    st = {"in_drive": False, "root_round": None, "first_node": True, "root_pool": None}
    o_master, o_drive, o_pivot, o_covers, o_round, o_node = (bp._solve_bounded_master_lp, bp.drive_out_artificials, pr._pivot, bp._covers,
                                                             bp._round_solution, bp._solve_node_lp)

    def master(columns, demands, col_bounds, eps):
        r = o_master(columns, demands, col_bounds, eps)
        x, _, obj = r
        if col_bounds and obj == float("inf"):
            ev.add("node_infeasible")
        if any(lo > eps for lo, _ in col_bounds.values()):
            ev.add("lower_bound_row")
        pos = [tuple(c) for c, v in zip(columns, x) if v > 1e-9]
        if len(pos) != len(set(pos)):
            ev.add("dup_both_positive")
        return r

    def drive(tab, basis, n_orig, n_rows, eps):
        st["in_drive"] = True
        try:
            return o_drive(tab, basis, n_orig, n_rows, eps)
        finally:
            st["in_drive"] = False

    def pivot(*a):
        if st["in_drive"]:
            ev.add("driveout_pivot")
        return o_pivot(*a)

    def covers(solution, demands):
        r = o_covers(solution, demands)
        if not r:
            ev.add("covers_rejected")
            if st["root_pool"] is None:
                ev.add("root_integral_uncovered")
        return r

    def rnd(x_vals, columns, demands, eps):
        r = o_round(x_vals, columns, demands, eps)
        if st["root_round"] is None:
            st["root_round"] = (r[1] if r is not None else float("inf"),)
            st["root_pool"] = len(columns)
        return r

    def node(columns, *a):
        r = o_node(columns, *a)
        if st["root_pool"] is not None and len(columns) > st["root_pool"]:
            ev.add("pool_grew_in_tree")
        return r

    bp._solve_bounded_master_lp, bp.drive_out_artificials, pr._pivot, bp._covers, bp._round_solution, bp._solve_node_lp = master, drive, pivot, covers, rnd, node
    try:
        c, out, bad = C17._work(case)
    finally:
        bp._solve_bounded_master_lp, bp.drive_out_artificials, pr._pivot, bp._covers, bp._round_solution, bp._solve_node_lp = o_master, o_drive, o_pivot, o_covers, o_round, o_node
    if "status" in out:
        it = out.get("iterations", 0)
        if it >= 1 and out["status"] == "OPTIMAL":
            ev.add("tree_optimal")
        if st["root_round"] is not None and isinstance(out["objective"], int) and it >= 1 and out["objective"] < st["root_round"][0]:
            ev.add("tree_improved")
        if c.get("max_nodes") is not None and c["max_nodes"] > 0 and it == c["max_nodes"]:
            ev.add("max_nodes_hit")
        if it >= 10:
            ev.add("deep_tree")
    return c, out, bad, sorted(ev)


def mutate(rng, case):
    c = copy.deepcopy({k: v for k, v in case.items() if k not in ("opt", "init_opt", "opt_known", "init_opt_known")})
    c["solver"] = "bp"
    c.setdefault("max_nodes", None)
    r = rng.random()
    m = len(c["demands"])
    if r < 0.3:
        i = rng.randrange(m)
        c["demands"][i] = max(0, min(6, c["demands"][i] + rng.choice([-2, -1, 1, 2])))
        if not any(c["demands"]):
            c["demands"][i] = 1
    elif r < 0.45:
        c["max_nodes"] = rng.choice([None, 1, 2, 3, 5, 10, 50, 200])
    elif r < 0.55:
        c["max_iter"] = rng.choice([0, 1, 2, 5, 30])
    elif c["kind"] == "cs":
        i = rng.randrange(m)
        if r < 0.8:
            c["sizes"][i] = max(1, min(c["width"], c["sizes"][i] + rng.choice([-2, -1, 1, 2])))
        else:
            c["width"] = max(max(c["sizes"]), min(12, c["width"] + rng.choice([-1, 1])))
    else:
        if r < 0.7 and c["init"]:
            c["init"].insert(rng.randrange(len(c["init"]) + 1), list(rng.choice(c["init"])))     # duplicate a column
        elif r < 0.85:
            j = rng.randrange(len(c["columns"]))
            old = list(c["columns"][j])
            new = list(old)
            new[rng.randrange(m)] = rng.randint(0, 3)
            if any(new) and new not in c["columns"]:
                c["columns"][j] = new
                c["init"] = [new if x == old else x for x in c["init"]]
        elif len(c["init"]) > 1:
            c["init"].pop(rng.randrange(len(c["init"])))
    c["family"] = "events"
    return c


def run_part(ctx: Ctx):
    from harness.props.C17 import _strip_case, gen_cs, gen_custom
    from harness.props.C17_deep import gen_tree_cs

    rng = ctx.rng
    thorough = ctx.tier == "thorough"
    # ---- A: call sequences
    items = []
    for _ in range(60 * (4 if thorough else 1)):
        base = rng.choice([gen_cs, gen_custom, lambda r: gen_dup_random(r, gen_custom), gen_dup_dominant, gen_tree_cs])(rng)
        if base.get("max_iter") is None:
            base["max_iter"] = 30
        order = rng.choice([["cg", "bp", "cg", "bp"], ["bp", "cg", "bp", "cg"], ["bp", "bp", "cg", "cg"], ["cg", "cg", "bp"]])
        items.append((base, order))
    for case, order, problems in pmap(_seq_work, items):
        ctx.evaluations += 2 * len(order)
        ctx.count("hard_family", "call_sequence")
        if problems:
            ctx.violation(f"solve_cg/solve_bp called in sequence {order} on shared argument objects: {problems[0]}",
                          {"case": _strip_case(case), "sequence": order, "problems": problems})

    # ---- A2: in-place edits between calls
    items = []
    for _ in range(60 * (4 if thorough else 1)):
        base = rng.choice([gen_cs, gen_custom, gen_custom, lambda r: gen_dup_random(r, gen_custom)])(rng)
        items.append((base, gen_edits(rng)))
    for case, history, problems in pmap(_edit_work, items):
        ctx.evaluations += 4 * (1 + len(history))
        ctx.count("hard_family", "in_place_edits")
        for e in history:
            ctx.count("in_place_edit", e[0])
        if problems:
            ctx.violation(f"solve_cg/solve_bp after in-place edits of the caller's arguments: {problems[0]}",
                          {"case": _strip_case(case), "edits": history, "problems": problems})
    # ---- X: non-finite arguments are outside C17's quantifier (integers): observed only
    for name, res in _nonfinite_probes():
        ctx.count("nonfinite_probe", f"{name}: {res}")
        ctx.count("observation_only", "NaN / inf argument")
    ctx.notes.append("observation-only classes (outside C17's quantifier of finite integer data, POLICY_X): NaN / inf arguments; demands whose optimum "
                     "exceeds 2^20 on the float tableau - run, classified in histograms, never judged")

    # ---- H: event-directed search over solve_bp's internals (hill climb from the seeds towards events not seen yet)
    seeds = [gen_tree_cs(rng) for _ in range(60)] + [gen_dup_dominant(rng) for _ in range(2500 * (3 if thorough else 1))]
    seeds += [{**gen_custom(rng), "solver": "bp", "max_nodes": None} for _ in range(40)]
    seeds += [{**gen_dup_random(rng, gen_custom), "solver": "bp", "max_nodes": None} for _ in range(200)]
    for c in seeds:
        c["solver"] = "bp"
        c.setdefault("max_nodes", None)
        if c.get("max_iter") is None:
            c["max_iter"] = 30
    seen: dict[str, dict] = {}
    pool = []
    conj_cases = []

    def absorb(results):
        for c, out, bad, ev in results:
            ctx.evaluations += 1
            for e in ev:
                ctx.count("bp_event", e)
                if e not in seen:
                    seen[e] = _strip_case(c)
            if bad:
                if len(ctx.violations) < 3:
                    from harness.props.C17 import _work, shrink
                    c2, o2, b2 = _work(shrink(c))
                    if b2:
                        c, out, bad = c2, o2, b2
                ctx.violation(f"solve_bp (event search, events {ev}): {bad}", {"case": _strip_case(c), "impl": out, "exact_minimum": c.get("opt")})
            if ev:
                # histories in which bookkeeping keyed by column matters: equal columns both positive in a node LP of a run whose
                # tree search changes the incumbent
                conj = 4 if ("dup_both_positive" in ev and "tree_improved" in ev) else 0
                if conj:
                    ctx.count("bp_event", "dup_both_positive&tree_improved")
                    conj_cases.append(_strip_case(c))
                pool.append((len(ev) + conj, _strip_case(c)))

    absorb(pmap(_event_work, seeds))
    rounds = 6 if thorough else 3
    for _ in range(rounds):
        hot = [c for sc, c in pool if sc >= 6]
        rng.shuffle(hot)
        pool.sort(key=lambda t: -t[0])
        del pool[2000:]
        parents = (hot[:300] + [c for _, c in pool[:100]]) or seeds
        absorb(pmap(_event_work, [mutate(rng, rng.choice(parents)) for _ in range(500)]))
    for e in EVENTS:
        ctx.count("bp_event_reached", e, 1 if e in seen else 0)
    ctx.extra["bp_event_witnesses"] = {e: seen[e] for e in sorted(seen)}
    ctx.extra["bp_conj_witnesses"] = conj_cases[:12]
    ctx.notes.append("event-directed search (solve_bp internals wrapped): events reached this run = "
                     + ", ".join(e for e in EVENTS if e in seen) + "; not reached = " + (", ".join(e for e in EVENTS if e not in seen) or "none"))
