"""Instrumented reference ports of min_cost_flow and network_simplex (class H of HARDENING.md).

They are NOT oracles: they re-implement the algorithms of solvor/flow.py and solvor/network_simplex.py (as of the fixed /repo)
only to report rare internal events of a run, so that the generators of C09 can steer towards inputs whose histories random
sampling almost never produces.  Their agreement with the implementation (status, objective, iterations) is counted on
every case; judging is done by the independent oracle and the Coq model in C09.py.

Events, min_cost_flow (index form: n, arcs [(u, v, cap, cost)] in adjacency order, s, t, demand):
  m_reverse      an augmenting path uses a reverse residual edge (flow is cancelled)
  m_bound        the last allowed Bellman-Ford sweep (number n-1) still updated a distance, n >= 6
  m_sweeps4/6/8  the last sweep that updated a distance was number >= 4 / 6 / 8 (order-adverse propagation)
  m_reparent     a node's parent edge was replaced after it had been set (within one run)
  m_hamilton     an augmenting path visits every node (n >= 4)
  m_long7        an augmenting path with >= 7 edges
  m_parallel     two parallel arcs of one (u, v) pair both carry flow at the end
  m_antiparallel an augmenting path uses an input arc (u, v) whose anti-parallel input arc (v, u) exists
  m_demandcap    the bottleneck of an augmentation is the remaining demand, below every residual on the path
  m_augment4     >= 4 augmentations
  m_negpath      an augmenting path contains an input arc of negative cost
  m_infeas_part  INFEASIBLE after at least one augmentation
Events, network_simplex (n, arcs, supplies, max_iter):
  n_flip0        degenerate flip: delta == 0 and the entering arc leaves again
  n_flip         the entering arc goes from bound to bound with delta > 0
  n_upper_enter  an arc enters from its upper bound (state -1)
  n_second       the leaving arc lies on the second -> join part of the cycle
  n_deep_leave   the leaving arc is not the tree arc of the entering arc's endpoint (path reversal of length >= 2)
  n_rehang3      the re-hang traversal moved >= 3 nodes
  n_degenerate   basis change with delta == 0
  n_ratio_tie    a tie in the ratio test
  n_price_tie    a tie in the pricing
  n_leave_upper  the leaving arc leaves at its upper bound
  n_art_enter    an artificial arc re-enters the basis
  n_join_low     the cycle closes below the root
  n_iter12       >= 12 iterations
  n_infeas_piv   INFEASIBLE after >= 3 iterations
  n_maxiter_feas MAX_ITER with a feasible flow returned
"""

INF = float("inf")

MCF_EVENTS = ["m_reverse", "m_bound", "m_sweeps4", "m_sweeps6", "m_sweeps8", "m_reparent", "m_hamilton", "m_long7", "m_parallel", "m_antiparallel",
              "m_demandcap", "m_augment4", "m_negpath", "m_infeas_part"]
NS_EVENTS = ["n_flip0", "n_flip", "n_upper_enter", "n_second", "n_deep_leave", "n_rehang3", "n_degenerate", "n_ratio_tie", "n_price_tie",
             "n_leave_upper", "n_art_enter", "n_join_low", "n_iter12", "n_infeas_piv", "n_maxiter_feas"]


def mcf_ref(n, arcs, s, t, demand, limit=200):
    ev = set()
    work = {"mcf_bf_sweeps": 0, "mcf_augmentations": 0, "mcf_path_edges": 0, "mcf_edge_relaxations_per_run": 0}
    tails, heads, res, cost = [], [], [], []
    for u, v, cap, c in arcs:
        tails += [u, v]
        heads += [v, u]
        res += [cap, 0]
        cost += [c, -c]
    pairs = {(u, v) for u, v, _, _ in arcs}
    total_cost = total_flow = its = 0
    score = 0  # hill-climbing objective: the latest sweep number that still updated a distance, relative to the bound
    while total_flow < demand:
        its += 1
        if its > limit:
            return {"status": "HANG", "events": ev, "work": work}
        dist = [INF] * n
        par = [None] * n
        dist[s] = 0
        rounds = last = 0
        updated = False
        for _ in range(n - 1):
            rounds += 1
            updated = False
            for e in range(len(tails)):
                u, v = tails[e], heads[e]
                if res[e] > 0 and dist[u] + cost[e] < dist[v]:
                    if par[v] is not None:
                        ev.add("m_reparent")
                    dist[v] = dist[u] + cost[e]
                    par[v] = e
                    updated = True
                    last = rounds
            if not updated:
                break
        score = max(score, last * 10 + (5 if n >= 6 and last == n - 1 else 0))
        work["mcf_bf_sweeps"] = max(work["mcf_bf_sweeps"], rounds)
        work["mcf_edge_relaxations_per_run"] = max(work["mcf_edge_relaxations_per_run"], rounds * len(tails))
        for k in (4, 6, 8):
            if last >= k:
                ev.add(f"m_sweeps{k}")
        if n >= 6 and last == n - 1:
            ev.add("m_bound")
        if dist[t] == INF:
            if its > 1:
                ev.add("m_infeas_part")
            return {"status": "INFEASIBLE", "objective": None, "iterations": its, "events": ev, "score": score, "work": work}
        path, node, steps = [], t, 0
        while par[node] is not None:
            path.append(par[node])
            node = tails[par[node]]
            steps += 1
            if steps > n + 1:
                return {"status": "HANG", "events": ev}
        path.reverse()
        work["mcf_path_edges"] = max(work["mcf_path_edges"], len(path))
        work["mcf_augmentations"] = its
        if any(e & 1 for e in path):
            ev.add("m_reverse")
        if n >= 4 and len(path) == n - 1:
            ev.add("m_hamilton")
        if len(path) >= 7:
            ev.add("m_long7")
        if any(not e & 1 and cost[e] < 0 for e in path):
            ev.add("m_negpath")
        if any(not e & 1 and (heads[e], tails[e]) in pairs for e in path):
            ev.add("m_antiparallel")
        pf = demand - total_flow
        if path and pf < min(res[e] for e in path):
            ev.add("m_demandcap")
        for e in path:
            pf = min(pf, res[e])
        for e in path:
            res[e] -= pf
            res[e ^ 1] += pf
            total_cost += cost[e] * pf
        total_flow += pf
    if its >= 4:
        ev.add("m_augment4")
    used = {}
    for k, (u, v, _, _) in enumerate(arcs):
        if res[2 * k + 1] > 0:
            used[(u, v)] = used.get((u, v), 0) + 1
    if any(c >= 2 for c in used.values()):
        ev.add("m_parallel")
    return {"status": "OPTIMAL", "objective": total_cost, "iterations": its, "events": ev, "score": score, "work": work}


def ns_ref(n, arcs, supplies, max_iter=1_000_000, limit=400):
    ev = set()
    work = {"ns_pivots": 0, "ns_tree_walk_steps": 0, "ns_rehang_nodes": 0, "ns_priced_arcs_per_pivot": 0}
    if abs(sum(supplies)) > 1e-9:
        return {"status": "INFEASIBLE", "objective": None, "iterations": 0, "events": ev, "work": work}
    if not arcs:
        ok = all(abs(x) < 1e-9 for x in supplies)
        return {"status": "OPTIMAL" if ok else "INFEASIBLE", "objective": 0 if ok else None, "iterations": 0, "events": ev, "work": work}
    m = len(arcs)
    T = m + n
    src, tgt, cap, cost, flow = [0] * T, [0] * T, [0] * T, [0] * T, [0] * T
    for i, (u, v, c, w) in enumerate(arcs):
        src[i], tgt[i], cap[i], cost[i] = u, v, c, w
    big = sum(abs(cost[i]) for i in range(m)) * n + 1
    for i in range(n):
        a = m + i
        if supplies[i] >= 0:
            src[a], tgt[a], cap[a], flow[a] = i, n, int(supplies[i]) + 1, int(supplies[i])
        else:
            src[a], tgt[a], cap[a], flow[a] = n, i, int(-supplies[i]) + 1, int(-supplies[i])
        cost[a] = big
    root = n
    parent = [root] * (n + 1)
    parent[root] = -1
    pred = list(range(m, m + n)) + [-1]
    depth = [1] * (n + 1)
    depth[root] = 0
    adj = [{m + i} for i in range(n)] + [set(range(m, m + n))]
    pi = [0] * (n + 1)
    for i in range(n):
        pi[i] = cost[m + i] if src[m + i] == i else -cost[m + i]
    state = [1] * m + [0] * n
    its = 0
    status = "MAX_ITER"
    while its < max_iter:
        its += 1
        if its > limit:
            return {"status": "HANG", "events": ev}
        entering, best = -1, 0
        for a in range(T):
            if state[a] == 0:
                continue
            rc = cost[a] - pi[src[a]] + pi[tgt[a]]
            val = rc if state[a] == 1 else -rc
            if val < best:
                best, entering = val, a
            elif val == best and best < 0:
                ev.add("n_price_tie")
        if entering == -1:
            status = "OPTIMAL"
            break
        if entering >= m:
            ev.add("n_art_enter")
        u, v = src[entering], tgt[entering]
        rc = cost[entering] - pi[u] + pi[v]
        if rc < 0:
            delta, first, second = cap[entering] - flow[entering], u, v
        else:
            ev.add("n_upper_enter")
            delta, first, second = flow[entering], v, u
        a, b = first, second
        guard = 0
        work["ns_pivots"] = its
        work["ns_priced_arcs_per_pivot"] = T
        while a != b:
            guard += 1
            if guard > 4 * n + 8:
                return {"status": "HANG", "events": ev, "work": work}
            if depth[a] > depth[b]:
                a = parent[a]
            else:
                b = parent[b]
        join = a
        work["ns_tree_walk_steps"] = max(work["ns_tree_walk_steps"], guard)
        if join != root:
            ev.add("n_join_low")
        leaving, lfirst, lnode = entering, True, None
        node = first
        while node != join:
            arc = pred[node]
            d = flow[arc] if src[arc] == node else cap[arc] - flow[arc]
            if d == delta:
                ev.add("n_ratio_tie")
            if d < delta:
                delta, leaving, lfirst, lnode = d, arc, True, node
            node = parent[node]
        node = second
        while node != join:
            arc = pred[node]
            d = flow[arc] if src[arc] == parent[node] else cap[arc] - flow[arc]
            if d == delta:
                ev.add("n_ratio_tie")
            if d < delta:
                delta, leaving, lfirst, lnode = d, arc, False, node
            node = parent[node]
        if delta == 0 and leaving == entering:
            ev.add("n_flip0")
            state[entering] = -state[entering]
            continue
        flow[entering] += delta if rc < 0 else -delta
        node = first
        while node != join:
            arc = pred[node]
            flow[arc] += -delta if src[arc] == node else delta
            node = parent[node]
        node = second
        while node != join:
            arc = pred[node]
            flow[arc] += delta if src[arc] == node else -delta
            node = parent[node]
        if leaving == entering:
            ev.add("n_flip")
            state[entering] = -state[entering]
            continue
        if delta == 0:
            ev.add("n_degenerate")
        if not lfirst:
            ev.add("n_second")
        if lnode != (first if lfirst else second):
            ev.add("n_deep_leave")
        state[entering] = 0
        state[leaving] = 1 if flow[leaving] == 0 else -1
        if state[leaving] == -1:
            ev.add("n_leave_upper")
        adj[src[leaving]].discard(leaving)
        adj[tgt[leaving]].discard(leaving)
        adj[src[entering]].add(entering)
        adj[tgt[entering]].add(entering)
        sub, newp = (first, second) if lfirst else (second, first)
        parent[sub], pred[sub] = newp, entering
        stack, moved = [sub], 0
        while stack:
            node = stack.pop()
            moved += 1
            if moved > n + 2:
                return {"status": "HANG", "events": ev}
            arc = pred[node]
            depth[node] = depth[parent[node]] + 1
            pi[node] = pi[parent[node]] + cost[arc] if src[arc] == node else pi[parent[node]] - cost[arc]
            for ca in adj[node]:
                if ca != arc:
                    ch = tgt[ca] if src[ca] == node else src[ca]
                    parent[ch], pred[ch] = node, ca
                    stack.append(ch)
        work["ns_rehang_nodes"] = max(work["ns_rehang_nodes"], moved)
        if moved >= 3:
            ev.add("n_rehang3")
    if its >= 12:
        ev.add("n_iter12")
    if any(flow[a] > 0 for a in range(m, T)):
        if status == "OPTIMAL":
            status = "INFEASIBLE"
            if its >= 4:
                ev.add("n_infeas_piv")
        return {"status": status, "objective": None, "iterations": its, "events": ev, "work": work}
    if status == "MAX_ITER":
        ev.add("n_maxiter_feas")
    return {"status": status, "objective": sum(flow[i] * cost[i] for i in range(m)), "iterations": its, "events": ev, "work": work}


def canon_mcf(n, arcs, s, t, d):
    """The instance as min_cost_flow sees it when the adjacency dict lists the tails in order of first appearance: arcs of one
    tail contiguous, nodes numbered source, sink, then by first occurrence (nodes in no arc other than s, t disappear)."""
    keys = []
    for a in arcs:
        if a[0] not in keys:
            keys.append(a[0])
    grouped = [a for k in keys for a in arcs if a[0] == k]
    num = {}
    for x in [s, t] + [y for a in grouped for y in (a[0],)] :
        num.setdefault(x, len(num))
    num = {}
    num.setdefault(s, len(num))
    num.setdefault(t, len(num))
    for k in keys:
        num.setdefault(k, len(num))
        for a in grouped:
            if a[0] == k:
                num.setdefault(a[1], len(num))
    return len(num), [(num[u], num[v], c, w) for u, v, c, w in grouped], num[s], num[t], d


def has_neg_cycle(n, arcs):
    dist = [0] * n
    for _ in range(n + 1):
        upd = False
        for u, v, _, w in arcs:
            if dist[u] + w < dist[v]:
                dist[v] = dist[u] + w
                upd = True
        if not upd:
            return False
    return True


# ---------------------------------------------------------------- mutation of index-form instances
def mutate_arcs(rng, n, arcs, cost_of):
    arcs = [tuple(a) for a in arcs]
    r = rng.random()
    if arcs and r < 0.25:
        k = rng.randrange(len(arcs))
        u, v, c, w = arcs[k]
        arcs[k] = (u, v, max(0, c + rng.choice([-1, 1, 1, 2])), w)
    elif arcs and r < 0.45:
        k = rng.randrange(len(arcs))
        u, v, c, w = arcs[k]
        arcs[k] = (u, v, c, w + rng.choice([0, 1, 1, 2]))  # raising a cost never creates a negative cycle
    elif r < 0.7 or not arcs:
        u, v = rng.randrange(n), rng.randrange(n)
        if u != v:
            arcs.insert(rng.randrange(len(arcs) + 1), (u, v, rng.choice([1, 1, 2, 3]), cost_of(u, v)))
    elif r < 0.8 and len(arcs) > 1:
        arcs.pop(rng.randrange(len(arcs)))
    elif r < 0.9 and len(arcs) > 1:
        i, j = rng.randrange(len(arcs)), rng.randrange(len(arcs))
        arcs[i], arcs[j] = arcs[j], arcs[i]
    else:
        k = rng.randrange(len(arcs))
        u, v, c, w = arcs[k]
        arcs.insert(rng.randrange(len(arcs) + 1), (v, u, rng.choice([1, 2]), max(0, -w) + rng.choice([0, 1, 3])))  # anti-parallel, cycle cost >= 0
    return arcs


def search(rng, budget, new_mcf, new_ns, want=4, seeds_mcf=(), seeds_ns=()):
    """Event-directed search.  new_mcf(rng) -> (n, arcs, s, t, d), new_ns(rng) -> (n, arcs, supplies, max_iter): fresh random
    instances (negative-cycle free).  Keeps, per event, up to `want` instances showing it (preferring small ones), and mutates kept
    instances of the events still under-represented.  Returns ({event: [mcf instance]}, {event: [ns instance]})."""
    got_m = {e: [] for e in MCF_EVENTS}
    got_n = {e: [] for e in NS_EVENTS}

    def note(got, inst, evs):
        hit = False
        for e in evs:
            if len(got[e]) < want:
                got[e].append(inst)
                hit = True
        return hit

    pool_m, pool_n = list(seeds_mcf), list(seeds_ns)
    best = (-1, None)  # hill climb on mcf_ref's score (late Bellman-Ford sweeps are out of reach of blind sampling)
    pool_m = [canon_mcf(*x) for x in pool_m]
    for inst in pool_m:
        note(got_m, inst, mcf_ref(*inst)["events"])
    for inst in pool_n:
        note(got_n, inst, ns_ref(*inst)["events"])
    for step in range(budget):
        if step % 2 == 0:
            climb = best[1] is not None and rng.random() < 0.5
            if climb or (pool_m and rng.random() < 0.6):
                n, arcs, s, t, d = best[1] if climb else rng.choice(pool_m)
                pot = [rng.randint(0, 2) for _ in range(n)]
                arcs = mutate_arcs(rng, n, arcs, lambda u, v: max(0, pot[v] - pot[u]) + rng.choice([0, 1, 2]))
                if rng.random() < 0.2:
                    d = max(0, d + rng.choice([-1, 1, 2]))
                inst = (n, arcs, s, t, d)
                if has_neg_cycle(n, arcs):
                    continue
            else:
                inst = new_mcf(rng)
            if inst[2] == inst[3]:
                continue
            inst = canon_mcf(*inst)
            r = mcf_ref(*inst)
            if r["status"] == "HANG":
                continue
            if r["score"] >= best[0] and (r["score"] > best[0] or len(inst[1]) <= len(best[1][1]) + 1):
                best = (r["score"], inst)
            if note(got_m, inst, r["events"]):
                pool_m.append(inst)
        else:
            if pool_n and rng.random() < 0.6:
                n, arcs, sup, mi = rng.choice(pool_n)
                arcs = mutate_arcs(rng, n, arcs, lambda u, v: rng.choice([0, 1, 2, 3]))
                sup = list(sup)
                if n >= 2 and rng.random() < 0.3:
                    a, b = rng.sample(range(n), 2)
                    sup[a] += 1
                    sup[b] -= 1
                inst = (n, arcs, sup, mi)
                if has_neg_cycle(n, arcs):
                    continue
            else:
                inst = new_ns(rng)
            r = ns_ref(*inst)
            if r["status"] != "HANG" and note(got_n, inst, r["events"]):
                pool_n.append(inst)
    return got_m, got_n
