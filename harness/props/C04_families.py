"""Round-2 generator families for C04 (see /verif/HARDENING.md).  Imported by C04.py; everything derives from the rng passed in.

H  event-directed search: the exact replica of the model (C04_port) reports rare internal events of a B&B run (incumbent equal to
   minus the open bound, incumbent and bound of opposite signs, bound equal to the incumbent at a prune test, early exit on the gap
   with open nodes, integer LP value at a fractional vertex, ... and - by running the same pivots in doubles - an integer LP value
   that carries round-off noise up/down); instances are drawn from a tiny-instance distribution, neighbours of rare hits are tried
   (hill climb), a quota per event is kept.  corpus/C04/events/*.json holds minimised witnesses per event found offline.
M  magnitudes: objective / single coefficient / row scaled by 2^k, 10^k (exact in doubles), dyadic rows, templates with boxes up to
   2^40 whose optimum is known by construction.
S  sizes: structured instances (17..130 variables, up to 130 rows) with answers known by construction or by a metamorphic relation.
O  option sweeps.   I  container forms.   (A, aliasing, is done in C04._work.)
"""
from __future__ import annotations

import json
from fractions import Fraction as F

from harness.core import VERIF
from harness.props import C04_port as PORT

RARE = {
    "incumbent_equals_minus_bound_max", "incumbent_equals_minus_bound_min",
    "incumbent_equals_minus_bound_max_then_improved", "incumbent_equals_minus_bound_min_then_improved",
    "incumbent_equals_bound_open_nodes", "incumbent_equals_bound_open_nodes_then_improved",
    "frac_node_int_value_noise_up_max", "frac_node_int_value_noise_up_min", "frac_node_int_value_noise_down_max",
    "frac_node_int_value_noise_down_min", "frac_node_int_value_noise_up_max_attained", "frac_node_int_value_noise_up_min_attained",
    "frac_node_int_value_noise_down_max_attained", "frac_node_int_value_noise_down_min_attained",
    "incumbent_and_bound_opposite_signs_max", "incumbent_and_bound_opposite_signs_min",
    "int_lp_value_float_noise_up_max", "int_lp_value_float_noise_up_min",
    "int_lp_value_float_noise_down_max", "int_lp_value_float_noise_down_min",
    "prune1_bound_equals_incumbent", "prune2_bound_equals_incumbent", "gap_exit_open_nodes", "incumbent_or_bound_zero",
    "node_all_fixed", "node_box_empty", "node_lp_infeasible", "incumbent_improved", "branch_value_above_1",
    "int_lp_value_fractional_point_nondyadic", "int_lp_value_fractional_point", "lower_bound_row", "tighten_binary",
}


# ---------------------------------------------------------------------------------- H: event-directed search
def gen_tiny(rng):
    """2-3 variables, mostly pure integer, coefficients -4..7 (3s and 6s give thirds), boxes 2..6, mixed-sign objective"""
    n = rng.choice([2, 2, 2, 3, 3])
    if rng.random() < 0.7:
        ints = list(range(n))
    else:
        ints = sorted(rng.sample(range(n), rng.randint(1, n)))
    m = rng.choice([1, 1, 2, 2, 3])
    A = [[rng.choice([-4, -3, -2, -1, -1, 0, 1, 1, 2, 2, 3, 3, 4, 5, 6, 7]) for _ in range(n)] for _ in range(m)]
    u = [rng.randint(2, 6) for _ in range(n)]
    x0 = [rng.randint(0, u[j]) for j in range(n)]
    if rng.random() < 0.7:
        b = [sum(a * x for a, x in zip(row, x0)) + rng.choice([0, 0, 1, 1, 2, 3]) for row in A]
    else:
        b = [rng.randint(-3, 12) for _ in range(m)]
    c = [rng.choice([-3, -2, -1, -1, 1, 1, 2, 3, 4, 5]) for _ in range(n)]
    rows = list(zip(A, b)) + [([1 if t == j else 0 for t in range(n)], u[j]) for j in range(n)]
    if rng.random() < 0.3:
        rng.shuffle(rows)
    return {"c": c, "A": [list(r[0]) for r in rows], "b": [r[1] for r in rows], "ints": ints, "minimize": rng.random() < 0.5,
            "family": "tiny", "x0": x0}


def mutate(rng, inst):
    t = json.loads(json.dumps(inst))
    r = rng.random()
    if r < 0.35:
        j = rng.randrange(len(t["c"]))
        t["c"][j] += rng.choice([-1, 1])
    elif r < 0.75:
        i = rng.randrange(len(t["b"]))
        j = rng.randrange(len(t["c"]))
        if sum(1 for v in t["A"][i] if v) != 1 or t["A"][i][j] == 0:       # keep the box rows intact
            t["A"][i][j] += rng.choice([-1, 1])
    elif r < 0.9:
        i = rng.randrange(len(t["b"]))
        t["b"][i] += rng.choice([-1, 1])
    else:
        t["minimize"] = not t["minimize"]
    return t


def events_of(inst):
    """events of the exact replica's run with heuristics off and on (module-level: used through pmap)"""
    out = set()
    for heur in (False, True):
        try:
            _, fr = PORT.solve_milp(inst["c"], inst["A"], inst["b"], inst["ints"], minimize=inst["minimize"], heuristics=heur,
                                    max_nodes=300, track_float=True)
        except Exception:  # noqa: BLE001
            continue
        out |= set(fr.events)
        if fr.events.get("incumbent_improved", 0) < 2:
            out.discard("incumbent_improved")
    return sorted(out)


def event_search(rng, pmap, draws, quota_rare, quota_common, rounds=2, seeds=()):
    """-> list of (inst, events it was kept for), histogram of events seen.  `seeds`: instances whose neighbours join the first pool"""
    pool = [gen_tiny(rng) for _ in range(draws)]
    for s0 in seeds:
        pool += [mutate(rng, mutate(rng, s0)) if rng.random() < 0.5 else mutate(rng, s0) for _ in range(8)]
    kept, have, seen = [], {}, {}
    for rnd in range(rounds):
        evs = pmap(events_of, pool, chunksize=16)
        nxt = []
        for inst, ev in zip(pool, evs):
            for e in ev:
                seen[e] = seen.get(e, 0) + 1
            want = [e for e in ev if have.get(e, 0) < (quota_rare if e in RARE else quota_common)]
            rare_hit = [e for e in ev if e in RARE and seen.get(e, 0) * 200 < draws]          # seen in < 0.5 % of the draws
            if want:
                for e in want:
                    have[e] = have.get(e, 0) + 1
                i2 = dict(inst)
                i2["family"] = "event:" + (sorted(want, key=lambda e: seen.get(e, 0))[0])
                kept.append((i2, want))
            if rare_hit and rnd + 1 < rounds:
                nxt += [mutate(rng, inst) for _ in range(6)]
        pool = nxt[: draws // 2]
        if not pool:
            break
    return kept, seen


def event_corpus(limit_per_event):
    out = []
    d = VERIF / "corpus" / "C04" / "events"
    if d.exists():
        for f in sorted(d.glob("*.json")):
            o = json.loads(f.read_text())
            for inst in o["instances"][:limit_per_event]:
                i2 = {k: inst[k] for k in ("c", "A", "b", "ints", "minimize")}
                i2["family"] = "event-corpus:" + o["event"]
                i2["x0"] = [0] * len(i2["c"])
                out.append(i2)
    return out


# ---------------------------------------------------------------------------------- M: magnitudes
SCALES = [2**10, 2**20, 2**31, 10**6, 10**9, 2**40]


def magnitude_variants(rng, inst):
    """transforms of a small instance that keep the exact enumeration oracle applicable (the box does not change); all numbers stay
    exactly representable in doubles (objective values < 2^53)"""
    out = []
    n = len(inst["c"])
    umax = 6
    cap = 2**52 // max(1, sum(abs(v) for v in inst["c"]) * umax)
    ks = [k for k in SCALES if k <= cap] or [2**10]
    t = dict(inst)
    k = rng.choice(ks)
    t["c"] = [v * k for v in inst["c"]]
    t["family"] = "magnitude:objective"
    out.append(t)
    t = dict(inst)
    j = rng.randrange(n)
    nz = [abs(v) for v in inst["c"] if v] or [1]
    # judged: cost ratios max|c| / min nonzero |c| <= 1e6 (a float simplex with absolute tolerances is only claimed for well-scaled
    # cost vectors: coordinator's decision on commit 39737f0, which scales the objective row)
    ks = [k for k in [2**4, 2**10, 10**4, 2**16] if max(max(nz), abs(inst["c"][j]) * k + 1) <= 10**6 * min(nz)] or [1]
    k = rng.choice(ks)
    t["c"] = list(inst["c"])
    t["c"][j] = t["c"][j] * k + rng.choice([0, 1, -1])
    t["family"] = "magnitude:one-coefficient"
    out.append(t)
    # observation only (never a VIOLATION): huge and tiny costs in one vector (ratio 2^40..2^44), see corpus/C04/observations
    t = dict(inst)
    k = rng.choice([2**31, 2**40, 2**44])
    t["c"] = list(inst["c"])
    t["c"][j] = t["c"][j] * k + rng.choice([0, 1, -1])
    t["family"] = "observation:cost-ratio"
    out.append(t)
    t = dict(inst)
    i = rng.randrange(len(inst["b"]))
    # row magnitudes up to the library's own "large coefficients" warning threshold 1e10 (solve_lp equilibrates rows since 96ecc58)
    amax = max([abs(v) for v in inst["A"][i]] + [1])
    k = rng.choice([k for k in [2**10, 2**20, 10**6, 10**8, 2**28, 2**31] if amax * k < 10**10] or [2**10])
    t["A"] = [list(r) for r in inst["A"]]
    t["b"] = list(inst["b"])
    t["A"][i] = [v * k for v in t["A"][i]]
    t["b"][i] = t["b"][i] * k
    t["family"] = "magnitude:row"
    out.append(t)
    t = dict(inst)
    i = rng.randrange(len(inst["b"]))
    q = rng.choice([0.5, 0.25, 0.125])
    t["A"] = [list(r) for r in inst["A"]]
    t["b"] = list(inst["b"])
    t["A"][i] = [v * q for v in t["A"][i]]
    t["b"][i] = t["b"][i] * q
    t["family"] = "magnitude:dyadic-row"
    out.append(t)
    return out


def big_box_templates(rng):
    """general integers with huge boxes; optimum known by construction -> inst['known'] = ('OPT', value, point)"""
    out = []
    for U in [257, 65537, 10**5, 10**6 + 1, 2**31, 2**40 + 1]:
        c1 = rng.choice([1, 2, 3])
        out.append({"c": [c1], "A": [[2], [1]], "b": [2 * U + 1, 2 * U], "ints": [0], "minimize": False,
                    "known": ("OPT", c1 * U, [U]), "family": "magnitude:big-box", "x0": [0]})
        # x + y <= U + 1/2, x <= U - 1, y <= 5, max 3x + 2y  ->  x = U-1, y = 1
        out.append({"c": [3, 2], "A": [[2, 2], [1, 0], [0, 1]], "b": [2 * U + 1, U - 1, 5], "ints": [0, 1], "minimize": False,
                    "known": ("OPT", 3 * (U - 1) + 2, [U - 1, 1]), "family": "magnitude:big-box", "x0": [0, 0]})
        # min x with x >= U - 1/2 (lower bound row: phase 1), x <= 2U
        out.append({"c": [1, 0], "A": [[-2, 0], [1, 0], [0, 1]], "b": [-(2 * U - 1), 2 * U, 3], "ints": [0], "minimize": True,
                    "known": ("OPT", U, [U, 0]), "family": "magnitude:big-box", "x0": [0, 0]})
    return out


# ---------------------------------------------------------------------------------- S: sizes
def size_instances(rng, big=False):
    """structured larger instances, answers known by construction (no enumeration)"""
    out = []
    # unit-weight selection: LP relaxation integral, exercises n-dependent code paths (detect_binary over 130 rows, rounding loops)
    for n in [17, 65, 130]:
        k = rng.randint(2, n // 2)
        p = list(range(1, n + 1))
        rng.shuffle(p)
        A = [[1] * n] + [[1 if t == j else 0 for t in range(n)] for j in range(n)]
        out.append({"c": p, "A": A, "b": [k] + [1] * n, "ints": list(range(n)), "minimize": False,
                    "known": ("OPT", sum(sorted(p)[-k:]), None), "family": "size:select-k", "x0": [0] * n})
    # weight-2 knapsack with odd capacity: fractional root, a real tree (about 160 nodes for n = 17)
    for n in ([9, 17] + ([21] if big else [])):
        k = n // 2
        p = list(range(3, 3 + n))
        rng.shuffle(p)
        A = [[2] * n] + [[1 if t == j else 0 for t in range(n)] for j in range(n)]
        out.append({"c": p, "A": A, "b": [2 * k + 1] + [1] * n, "ints": list(range(n)), "minimize": False,
                    "known": ("OPT", sum(sorted(p)[-k:]), None), "family": "size:knapsack", "x0": [0] * n})
    # independent blocks  max 5x+4y, 6x+4y<=24, x+2y<=6 (optimum 20 each; LP 21 each): depth = number of blocks
    for nb in [4, 6]:
        n = 2 * nb
        c, A, b = [], [], []
        for i in range(nb):
            c += [5, 4]
            r1, r2 = [0] * n, [0] * n
            r1[2 * i], r1[2 * i + 1] = 6, 4
            r2[2 * i], r2[2 * i + 1] = 1, 2
            A += [r1, r2]
            b += [24, 6]
        for j in range(n):
            A.append([1 if t == j else 0 for t in range(n)])
            b.append(5)
        out.append({"c": c, "A": A, "b": b, "ints": list(range(n)), "minimize": False, "known": ("OPT", 20 * nb, None),
                    "family": "size:blocks", "x0": [0] * n})
    # many redundant rows (positive multiples and sums of the rows of a small instance): the optimum does not change
    base = {"c": [5, 4], "A": [[6, 4], [1, 2], [1, 0], [0, 1]], "b": [24, 6, 5, 5]}
    for m_extra in [66, 130]:
        A = [list(r) for r in base["A"]]
        b = list(base["b"])
        for _ in range(m_extra):
            i, k2 = rng.randrange(4), rng.randrange(4)
            f, g = rng.randint(1, 3), rng.randint(0, 2)
            A.append([f * base["A"][i][t] + g * base["A"][k2][t] for t in range(2)])
            b.append(f * base["b"][i] + g * base["b"][k2] + rng.choice([0, 0, 1]))
        out.append({"c": [5, 4], "A": A, "b": b, "ints": [0, 1], "minimize": False, "known": ("OPT", 20, None),
                    "family": "size:redundant-rows", "x0": [0, 0]})
    return out


# ---------------------------------------------------------------------------------- O: option sweeps
def option_sweeps(rng):
    vs = []
    for k in range(0, 13):
        vs.append({"max_iter": k, "heuristics": rng.random() < 0.5})
        vs.append({"max_nodes": k, "heuristics": rng.random() < 0.5, "warm_start": "x0" if rng.random() < 0.3 else None})
    for k in range(0, 6):
        vs.append({"solution_limit": k, "heuristics": rng.random() < 0.5, "warm_start": "x0" if rng.random() < 0.4 else None})
    for k in [1, 2, 4, 7]:
        vs.append({"lns_iterations": k, "heuristics": True, "seed": rng.choice([None, 0, 1, 7])})
    for frac in [0.0, 0.5, 1.0]:
        vs.append({"lns_iterations": 3, "heuristics": True, "lns_destroy_frac": frac})
    for g in [0.0, 1e-9, 1e-3, 0.1, 0.5, 1.0, 2.0]:
        vs.append({"gap_tol": g, "heuristics": rng.random() < 0.5})
    for e in [1e-9, 1e-7, 1e-6]:        # eps = 0.0 is not swept (not a defect, coordinator's decision): corpus/C04/observations/eps_zero.json
        vs.append({"eps": e, "heuristics": rng.random() < 0.5})
    vs.append({"max_iter": 10000 - 1})
    vs.append({"max_iter": 10000 + 1})
    vs.append({"max_nodes": 100000 - 1})
    vs.append({"max_nodes": 100000 + 1})
    return vs


# ---------------------------------------------------------------------------------- I: container forms
FORMS = ["list", "tuple", "float", "range_ints", "reversed_ints", "float_tuple", "gen_warm"]


def apply_form(form, c, A, b, ints, ws):
    """the same call with other container / number types"""
    if form in ("tuple", "float_tuple"):
        conv = (lambda v: float(v)) if form == "float_tuple" else (lambda v: v)
        c = tuple(conv(v) for v in c)
        A = tuple(tuple(conv(v) for v in r) for r in A)
        b = tuple(conv(v) for v in b)
        ints = tuple(ints)
        ws = None if ws is None else tuple(ws)
    elif form == "float":
        c = [float(v) for v in c]
        A = [[float(v) for v in r] for r in A]
        b = [float(v) for v in b]
    elif form == "range_ints":
        if ints and list(ints) == list(range(ints[0], ints[-1] + 1)):
            ints = range(ints[0], ints[-1] + 1)
    elif form == "reversed_ints":
        ints = list(reversed(ints))
    elif form == "gen_warm":
        ws = None if ws is None else (v for v in list(ws))      # warm_start is consumed once (tuple(warm_start)): a one-shot iterator is fine
    return c, A, b, ints, ws


# ---------------------------------------------------------------------------------- W: work volume (round 3)
def _permute(rng, inst):
    """random variable order and row order (the answer does not depend on them)"""
    n = len(inst["c"])
    perm = list(range(n))
    rng.shuffle(perm)                                    # new position k holds old variable perm[k]
    inv = {old: k for k, old in enumerate(perm)}
    rows = list(zip(inst["A"], inst["b"]))
    rng.shuffle(rows)
    t = dict(inst)
    t["c"] = [inst["c"][perm[k]] for k in range(n)]
    t["A"] = [[r[perm[k]] for k in range(n)] for r, _ in rows]
    t["b"] = [bb for _, bb in rows]
    t["ints"] = sorted(inv[j] for j in inst["ints"])
    if inst.get("known") and inst["known"][2] is not None:
        t["known"] = (inst["known"][0], inst["known"][1], [inst["known"][2][perm[k]] for k in range(n)])
    t["x0"] = [0] * n
    return t


def late_improvement_trap(rng, K, sense, flipped):
    """B&B work family: bulk variables x, y (cost 1 each) must cover 2x + 2y + z + w >= 2K+1 under 2x + 2y <= 2K+1 (parity: x, y alone
    never close it); z is an expensive filler (cost P, found at once), w a cheap one (cost 1) that needs y >= T, which best-first B&B
    reaches only after about 4T nodes: the incumbent of the first thousands of nodes is NOT optimal, the tree has about 4K nodes.
    Optimum by construction: x + y = K, w = 1, cost K + 1.
    sense: 'min' (positive objective) or 'max' (negated costs: NEGATIVE incumbent).  flipped: substitute x = K - x', y = K - y'
    (then maximising gives a POSITIVE and minimising a NEGATIVE objective, constant dropped)."""
    T = rng.randint(int(0.85 * K), int(0.95 * K))
    P = rng.choice([4, 7, 10, 15])
    zmax = rng.choice([1, 2, 3])
    cost = [1, 1, P, 1]
    A = [[-2, -2, -1, -1], [2, 2, 0, 0], [0, -1, 0, T], [0, 0, 1, 0], [0, 0, 0, 1]]
    b = [-(2 * K + 1), 2 * K + 1, 0, zmax, 1]
    opt = K + 1
    const = 0
    if flipped:
        # x = K - x', y = K - y':  a_x x = a_x K - a_x x'
        for i in range(len(A)):
            b[i] -= (A[i][0] + A[i][1]) * K
            A[i][0], A[i][1] = -A[i][0], -A[i][1]
        A += [[1, 0, 0, 0], [0, 1, 0, 0]]                 # x >= 0  <=>  x' <= K
        b += [K, K]
        const = 2 * K
        cost = [-1, -1, P, 1]                             # x + y = 2K - x' - y'
    value = opt - const
    if sense == "max":
        c = [-v for v in cost]
        value = -value
    else:
        c = cost
    inst = {"c": c, "A": A, "b": b, "ints": [0, 1, 2, 3], "minimize": sense == "min", "known": ("OPT", value, None),
            "family": f"work:trap-{sense}{'-flipped' if flipped else ''}", "x0": [0] * 4, "timeout": 240, "K": K}
    return _permute(rng, inst)


def parity_infeasible(rng, K):
    """2x + 2y = 2K + 1 inside a box: no integer point; the whole tree has to be explored to say INFEASIBLE"""
    A = [[2, 2], [-2, -2], [1, 0], [0, 1]]
    b = [2 * K + 1, -(2 * K + 1), K, K]
    c = [rng.choice([1, 2, -1]), rng.choice([1, 3, -2])]
    return _permute(rng, {"c": c, "A": A, "b": b, "ints": [0, 1], "minimize": rng.random() < 0.5, "known": ("INF", 0, None),
                          "family": "work:parity-infeasible", "x0": [0, 0], "timeout": 240, "K": K})


def klee_minty(rng, n, sense, phase1=False):
    """Klee-Minty cube: Bland's rule needs about 1.62^n pivots (1219 for n = 14, 3193 for 16, 8361 for 18, 13529 for 19).
    max sum 2^(n-1-j) x_j, 2 sum_{j<i} 2^(i-j) x_j + x_i <= 5^(i+1): optimum x = (0,..,0,5^n), value 5^n; all numbers < 2^53."""
    c = [2 ** (n - 1 - j) for j in range(n)]
    A = [[2 ** (i - j + 1) if j < i else (1 if j == i else 0) for j in range(n)] for i in range(n)]
    b = [5 ** (i + 1) for i in range(n)]
    if phase1:
        A.append([0] * (n - 1) + [-1])                    # x_n >= 1: negative rhs, phase 1 runs first; the optimum is unchanged
        b.append(-1)
    value = 5 ** n
    if sense == "min":
        c = [-v for v in c]
        value = -value
    ints = sorted(rng.sample(range(n), rng.choice([0, 1, n])))
    point = [0] * (n - 1) + [5 ** n]
    # NOT permuted: the pivot count of Bland's rule depends on the variable order, and this order is the bad one
    return {"c": c, "A": A, "b": b, "ints": ints, "minimize": sense == "min", "known": ("OPT", value, point),
            "family": "work:klee-minty" + ("-phase1" if phase1 else ""), "x0": [0] * n, "timeout": 240, "n_km": n}


def work_instances(rng, big=False):
    """(inst, variants): B&B trees of > 2^7, 2^10, 2^11, 2^12, 10^4 (thorough: 10^5) explored nodes and single LPs with > 2^10, 2^11,
    2^12, 10^4 (thorough: 10^5) pivots, answers known by construction"""
    out = []
    base = {"heuristics": True}
    combos = [("min", False), ("max", False), ("min", True), ("max", True)]
    sizes = [40, 300, 560, 1100, 2600, 5200] + ([26000] if big else [])
    for k_i, K in enumerate(sizes):
        picks = combos if K <= 2600 else [("max", False), ("min", False)]      # every sign/sense combination at every threshold
        if K >= 26000:
            picks = [rng.choice(combos)]
        for sense, flipped in picks:
            inst = late_improvement_trap(rng, K + rng.randint(0, K // 10), sense, flipped)
            big_nodes = {"max_nodes": 10 * 100000} if K >= 20000 else {}
            vs = [dict(base, **big_nodes)]
            if K <= 2600:
                vs.append(dict(heuristics=False, **big_nodes))
            if K <= 1100:
                vs.append(dict(heuristics=False, solution_limit=rng.choice([2, 50]), **big_nodes))
            out.append((inst, vs))
    for K in [40, 300, 1100] + ([2600] if big else []):
        out.append((parity_infeasible(rng, K), [dict(base), dict(heuristics=False)]))
    for n in [8, 14, 16, 17, 19] + ([24] if big else []):
        for sense in (["max", "min"] if n <= 17 else [rng.choice(["max", "min"])]):
            inst = klee_minty(rng, n, sense, phase1=rng.random() < 0.4)
            out.append((inst, [dict(base, max_iter=10**7), dict(heuristics=False, max_iter=10**7, form="float_tuple")]))
    # the documented iteration cap itself: default max_iter = 10000 < pivots needed -> the answer must be MAX_ITER, not a "solution"
    inst = klee_minty(rng, 19, "max")
    inst["known"] = ("CAP", 0, None)
    inst["family"] = "work:klee-minty-default-cap"
    out.append((inst, [dict(base)]))
    return out


# ---------------------------------------------------------------------------------- X: float forms and extremes (round 3)
def float_forms(rng, inst):
    """the same instance written with -0.0 for every zero and integral floats for every number (33.0 for 33): the verdict must be the
    one of the integer instance (exact oracle)"""
    t = dict(inst)
    f = lambda v: (-0.0 if v == 0 and rng.random() < 0.7 else float(v))  # noqa: E731
    t["c"] = [f(v) for v in inst["c"]]
    t["A"] = [[f(v) for v in r] for r in inst["A"]]
    t["b"] = [f(v) for v in inst["b"]]
    t["family"] = "float:negzero-integral"
    return t


def inf_rows(rng, inst):
    """extra rows with right-hand side +inf (no constraint at all): verdict of the instance without them"""
    t = dict(inst)
    n = len(inst["c"])
    t["A"] = [list(r) for r in inst["A"]]
    t["b"] = list(inst["b"])
    for _ in range(rng.choice([1, 2])):
        pos = rng.randrange(len(t["b"]) + 1)
        t["A"].insert(pos, [rng.randint(-3, 4) for _ in range(n)])
        t["b"].insert(pos, float("inf"))
    t["family"] = "observation:inf-rhs"         # POLICY_X (a): +-inf as data is outside the property
    t["reference"] = {k: inst[k] for k in ("c", "A", "b", "ints", "minimize")}
    return t


def extreme_observations(rng, inst):
    """observation only: NaN entry, costs near 1e308, 2^60 cancellation - outcome classes are counted, never judged as violations"""
    out = []
    n = len(inst["c"])
    t = dict(inst)
    t["A"] = [list(r) for r in inst["A"]]
    t["A"][rng.randrange(len(t["A"]))][rng.randrange(n)] = float("nan")
    t["family"] = "observation:nan-entry"
    out.append(t)
    t = dict(inst)
    t["c"] = [v * 1e307 for v in inst["c"]]
    t["family"] = "observation:cost-1e308"
    out.append(t)
    t = dict(inst)
    t["A"] = [list(r) for r in inst["A"]] + [[2.0**60, -(2.0**60)] + [1.0] * (n - 2)] if n >= 2 else [list(r) for r in inst["A"]]
    t["b"] = list(inst["b"]) + ([1.0] if n >= 2 else [])
    t["family"] = "observation:cancel-2^60"
    out.append(t)
    return out
