"""C07 - round-2 generator families (see /verif/HARDENING.md), used by harness/props/C07.py:run.

L  labels      column names / secondary entries that are None, falsy, fresh equal-but-not-identical objects, mixed types,
               integers that are NOT the column positions (1-based, shifted, permuted, sampled, huge)
I  containers  matrix / rows / columns / secondary as tuples, bytes, bytearrays, ranges, strings (all `Sequence`s)
S  sizes       structured instances whose covers are known by construction, crossing 17 / 65 / 257 / 801 / 1025 / 2049 /
               65536 / 65537 / 10^5 / 2^20+1 (2^21+1 thorough) rows, cover depth 17 .. 2049 (5000 thorough), search trees > 10^5 nodes
M  magnitudes  truthy entries and numeric options at 2^31, 2^53+1, 10^18, 2^64, negative huge, default+-1
O  options     sweeps of max_iter over 0..N+2 (N = iterations of the uncut run) and of max_solutions over -2..k+2
A  aliasing    one set of argument objects passed to consecutive calls with different options, in both orders; rows that
               are one shared list; `secondary` being the very object passed as `columns`
W  work        (round 3) every internal loop driven past 2^7 .. 2^20 iterations at moderate input size, counts known by
               construction: search() calls (infeasible parity gadget behind k binary blocks: exactly 6*2^k-1 calls and covers),
               solutions recorded (2^13, 10164, 70520, 2^17), MRV scan / row ring / header rings over 4097 .. 100001 columns, column
               rings over 2^20+1 rows, recursion depth 4097
A2 in-place    (round 3) call, edit the caller's objects IN PLACE (cell, row, names, secondary), call
               again on the same objects, compare with a fresh call on a deep copy
X  floats      (round 3) entries / names / limits that are floats: 0.0, -0.0, 5e-324, 33.0 vs 33, 2.5 (judged); nan, inf, 1e308 and
               duplicate column names are generated too but only observed (POLICY_X)
H  histories   an instrumented reference port of Algorithm X reports rare internal events; missing events are searched for
               by mutation; minimised witnesses per event live in corpus/C07/ev_*.json
"""
import copy
import json

from harness.core import guarded

BIG = [2**31, 2**53 + 1, 10**18, 2**64, 2**44 + 1, 10**9]


def _base(rng, gen_matrix, min_rows=2, min_cols=2):
    while True:
        m, nc = gen_matrix(rng, False)
        if len(m) >= min_rows and nc >= min_cols and all(len(r) == nc for r in m):
            return m, nc


def _case(m, columns=None, secondary=None, find_all=True, max_solutions=None, max_iter=None, dress=None, family=None):
    c = {"matrix": m, "columns": columns, "secondary": secondary, "find_all": find_all,
         "max_solutions": max_solutions, "max_iter": max_iter}
    if dress:
        c["dress"] = dress
    if family:
        c["family"] = family
    return c


# ---------------------------------------------------------------- L: labels
def _name_scheme(rng, n):
    k = rng.randrange(12)
    if k == 0:
        return "one_based", list(range(1, n + 1))
    if k == 1:
        a = rng.choice([2, 5, -3, 255, 256, 1000])
        return "shifted", list(range(a, a + n))
    if k == 2:
        p = list(range(n))
        rng.shuffle(p)
        return "permuted", p
    if k == 3:
        return "sampled", rng.sample(range(n + 3), n)
    if k == 4:
        b = rng.choice(BIG)
        return "huge_int", [b + i for i in range(n)]
    if k == 5:
        pool = [None, 0, "", [], {"fs": []}, "x", 7, [0], 0.5, [None]]
        rng.shuffle(pool)
        return "falsy", pool[:n]
    if k == 6:
        pool = [False, 0.0, None, "", True, 2, "0", [False]]  # False == 0.0, True == 1: equal names are allowed
        rng.shuffle(pool)
        return "falsy_bool_float", pool[:n]
    if k == 7:
        return "fresh_tuples", [[i, "c"] for i in range(n)]
    if k == 8:
        return "fresh_strings", ["col%d" % (300 + i) for i in range(n)]
    if k == 9:
        return "fresh_frozensets", [{"fs": [i, i + 300]} for i in range(n)]
    if k == 10:
        pool = [1, "1", [1], {"fs": [1]}, 1.5, None, "a", 300, -1, [1, 2]]
        rng.shuffle(pool)
        return "mixed", pool[:n]
    return "reversed_positions", list(range(n - 1, -1, -1))


def _dup_names(rng, n):
    """Two or three columns carry the SAME name (identical, or equal across types: 1 / True / 1.0, 0 / False / -0.0)."""
    groups = [[1, True, 1.0], [0, False, 0.0, -0.0], ["a", "a"], [[1, 2], [1, 2]], [None, None], [300, 300], [2.0**60, 2**60]]
    names = ["u%d" % i for i in range(n)]
    g = rng.choice(groups)
    pos = rng.sample(range(n), min(n, rng.choice([2, 2, 3])))
    for k, p in enumerate(pos):
        names[p] = g[k % len(g)]
    return names, g[0]


def gen_labels(rng, gen_matrix):
    m, nc = _base(rng, gen_matrix, 1, 2)
    nc = min(nc, 8)
    m = [r[:nc] for r in m]
    if rng.random() < 0.12:  # default names (positions); secondary entries equal to positions but of another type
        pool = [True, False, 0.0, 1.0, 2.0, float(nc - 1), "1", None, -1, nc, 2**64, [0]]
        sec = [x for x in pool if rng.random() < 0.3]
        rng.shuffle(sec)
        return _case(m, rng.choice([None, []]), sec or None, find_all=rng.random() < 0.8, family="L:default_names_eq_types")
    r = rng.random()
    if r < 0.15:
        names, shared = _dup_names(rng, nc)
        sec = [x for x in names if isinstance(x, str) and rng.random() < 0.3]
        if rng.random() < 0.7:
            sec.append(shared)  # names ALL the columns that carry an equal name
        rng.shuffle(sec)
        return _case(m, names, sec or None, find_all=rng.random() < 0.85, family="L:duplicate_names")
    if r < 0.25:
        pool = [1.0, 0.0, 33.0, 0.5, -1e-300, 5e-324, 2.5, -7.0, 1e299, 1e-12]
        if rng.random() < 0.2:  # observation-only names
            pool += [float("nan"), float("inf"), 1e308, float("-inf")]
        rng.shuffle(pool)
        names = pool[:nc]
        sec = [x for x in names if rng.random() < 0.4] + [x for x in (1, 0, 33, -7, 10**299) if rng.random() < 0.3]
        rng.shuffle(sec)
        return _case(m, names, sec or None, find_all=rng.random() < 0.85, family="X:float_names")
    scheme, names = _name_scheme(rng, nc)
    p = rng.choice([0.2, 0.4, 0.7])
    sec = [x for x in names if rng.random() < p]
    if rng.random() < 0.5:  # an int that is a valid POSITION (of another column) - it is a name or nothing
        sec.append(rng.randrange(nc))
    if rng.random() < 0.15:
        sec.append(rng.choice([None, "zz", -7, 10**6]))
    rng.shuffle(sec)
    return _case(m, names, sec or None, find_all=rng.random() < 0.8,
                 max_solutions=rng.choice([None, None, None, 2]), family="L:" + scheme)


def relabel_plain(case, number_names):
    """The same call with every name replaced by a plain string "n<id>" (equal names -> equal strings): a relabelling
    must not change anything in the result."""
    t, cols, sec = number_names(case)
    c = {k: case[k] for k in ("matrix", "find_all", "max_solutions", "max_iter")}
    c["columns"] = None if cols is None else ["n%d" % t[x] for x in cols]
    if cols:
        c["secondary"] = None if sec is None else ["n%d" % t[x] for x in sec]
    else:  # default names are the positions: keep ints that are positions, rename the rest out of range
        c["secondary"] = None if sec is None else [t[x] for x in sec]
    return c


# ---------------------------------------------------------------- I: containers (+ A: aliasing inside one call)
def gen_containers(rng, gen_matrix):
    r = rng.random()
    if r < 0.12:  # degenerate shapes in every container type
        m = rng.choice([[], [[]], [[], []]])
        return _case(m, None, rng.choice([None, []]), find_all=rng.random() < 0.6, max_solutions=rng.choice([None, 1]),
                     dress={"matrix": rng.choice(["tuple", "tuple_rows", "bytes_rows", "bytearray_rows", "range_rows"])},
                     family="I:degenerate")
    m, nc = _base(rng, gen_matrix, 1, 1)
    m = [[1 if v else 0 for v in row] for row in m]
    dress = {"matrix": rng.choice(["tuple", "tuple_rows", "bytes_rows", "bytearray_rows", "alias_rows", "list"])}
    k = rng.randrange(5)
    cols = sec = None
    if k == 0:  # default names, secondary a range / tuple of positions
        a = rng.randrange(nc)
        b = rng.randint(a, nc)
        sec = list(range(a, b)) or None
        dress["secondary"] = rng.choice(["range", "tuple"])
    elif k == 1:  # names = range(a, a+nc)
        a = rng.choice([0, 1, 3])
        cols = list(range(a, a + nc))
        dress["columns"] = "range"
        sec = [x for x in cols if rng.random() < 0.4] or None
        dress["secondary"] = rng.choice(["tuple", "list", "range"])
    elif k == 2:  # one-character names, secondary given as a string
        cols = list("abcdefghij"[:nc])
        rng.shuffle(cols)
        dress["columns"] = rng.choice(["tuple", "list"])
        sec = [x for x in cols if rng.random() < 0.4] or None
        dress["secondary"] = "str"
    elif k == 3:  # secondary IS the columns object: everything secondary
        cols = ["k%d" % i for i in range(nc)]
        sec = list(cols)
        dress["columns"] = rng.choice(["tuple", "list"])
        dress["secondary"] = "same_as_columns"
    else:
        cols = ["k%d" % i for i in range(nc)] if rng.random() < 0.5 else None
        dress["columns"] = "tuple"
        base = cols if cols else list(range(nc))
        sec = [x for x in base if rng.random() < 0.3] or None
        dress["secondary"] = "tuple"
    if nc == 2 and rng.random() < 0.2 and all(r == [0, 1] for r in m[:1]):
        dress["matrix"] = "range_rows"
    return _case(m, cols, sec, find_all=rng.random() < 0.7, max_solutions=rng.choice([None, None, 2]),
                 max_iter=rng.choice([None, None, None, 10]), dress=dress, family="I:" + dress["matrix"])


# ---------------------------------------------------------------- S (medium): deeper searches than 7 rows allow
def gen_medium(rng):
    """9..16 rows x 7..12 columns, rows of 1-3 columns built from a few planted partitions plus noise: covers of 4-8 rows,
    dead ends below the root, many solutions.  Judged by subset enumeration (<= 12 rows) or the branching reference."""
    nc = rng.randint(7, 12)
    nr = rng.randint(9, 16)
    m = []
    while len(m) < nr:
        cols = list(range(nc))
        rng.shuffle(cols)
        i = 0
        while i < nc and len(m) < nr:
            w = rng.choice([1, 1, 2, 2, 3])
            blk = cols[i:i + w]
            i += w
            if rng.random() < 0.12:
                blk = blk[:-1] or blk
            m.append([1 if c in blk else 0 for c in range(nc)])
        if rng.random() < 0.4 and len(m) < nr:
            m.append([1 if rng.random() < 0.25 else 0 for c in range(nc)])
    rng.shuffle(m)
    sec = [c for c in range(nc) if rng.random() < rng.choice([0.0, 0.15, 0.3])] or None
    return _case(m, None, sec, find_all=rng.random() < 0.75, max_solutions=rng.choice([None, None, None, 3, 20]),
                 max_iter=rng.choice([None, None, None, 30, 200]), family="S:medium")


# ---------------------------------------------------------------- M: magnitudes
def gen_magnitudes(rng, gen_matrix):
    m, nc = _base(rng, gen_matrix, 1, 1)
    vals = BIG + [-x for x in BIG] + [255, 256, 257, -1]
    m = [[(rng.choice(vals) if rng.random() < 0.6 else 1) if v else 0 for v in row] for row in m]
    r = rng.random()
    ms = mi = None
    if r < 0.4:
        mi = rng.choice(BIG + [-x for x in BIG] + [10_000_000 - 1, 10_000_000, 10_000_000 + 1])
    elif r < 0.8:
        ms = rng.choice(BIG + [-x for x in BIG] + [-2**63])
    else:
        mi, ms = rng.choice(BIG), rng.choice(BIG)
    sec = [c for c in range(nc) if rng.random() < 0.25] or None
    return _case(m, None, sec, find_all=rng.random() < 0.75, max_solutions=ms, max_iter=mi, family="M")


# ---------------------------------------------------------------- X: float extremes
NAN, INF = float("nan"), float("inf")


def gen_floats(rng, gen_matrix):
    """Float entries / limits / secondary positions.  85 % of the cases are finite and well scaled (judged); the rest carry NaN,
    +-inf or |v| >= 1e300 somewhere and are observation-only."""
    m, nc = _base(rng, gen_matrix, 1, 1)
    wild = rng.random() < 0.15
    truthy = [1.0, 33.0, 5e-324, -1e-300, 2.0**60, -2.0**60, 1e-12, 0.1 + 0.2 - 0.3, 1e299, -7.5]
    lim_i = [10.0, 3.0, 2.5, 0.0, -0.0, 0.5, -0.5, 1e-9, 25.0, 7.999999999, 1e15, -3.0, 1.0, 9.0]
    lim_s = [1.0, 2.0, 2.5, 0.0, -0.0, 0.5, -0.5, 5.0, 3.0, -1.0, 1e15]
    if wild:
        truthy += [NAN, INF, -INF, 1e308, -1e308]
        lim_i += [INF, -INF, NAN, 1e308] * 2
        lim_s += [INF, -INF, NAN, 1e308] * 2
    falsy = [0.0, -0.0, 0, False]
    m = [[(rng.choice(truthy) if rng.random() < 0.7 else 1) if v else rng.choice(falsy) for v in row] for row in m]
    r = rng.random()
    mi = rng.choice(lim_i) if r < 0.5 else None
    ms = rng.choice(lim_s) if r > 0.35 else None
    sec = [c for c in range(nc) if rng.random() < 0.25] or None
    if sec and rng.random() < 0.5:
        sec = [float(c) for c in sec]  # 1.0 names column 1
    return _case(m, None, sec, find_all=rng.random() < 0.8, max_solutions=ms, max_iter=mi, family="X:floats")


# ---------------------------------------------------------------- O: option sweeps
def sweep_cases(base, uncut_iters, n_covers, cap=45):
    """All max_iter in 0..N+2 (both find_all settings) and all max_solutions in -2..k+2 for one instance."""
    out = []
    for fa in (True, False):
        for mi in list(range(0, min(uncut_iters[fa] + 3, cap))) + [uncut_iters[fa] - 1, uncut_iters[fa], uncut_iters[fa] + 1]:
            c = copy.deepcopy(base)
            c.update(find_all=fa, max_solutions=None, max_iter=mi, family="O:max_iter")
            out.append(c)
    for ms in range(-2, min(n_covers + 3, 14)):
        for mi in (None, max(1, uncut_iters[True] // 2)):
            c = copy.deepcopy(base)
            c.update(find_all=True, max_solutions=ms, max_iter=mi, family="O:max_solutions")
            out.append(c)
    return out


def sweep_oracle(case, out, uncut_out):
    """Metamorphic: a limit that the uncut run never reaches changes nothing; a smaller max_iter is reported."""
    if out["kind"] != "done" or uncut_out["kind"] != "done":
        return None
    mi = case["max_iter"]
    n = uncut_out["iterations"]
    if case["max_solutions"] is None and mi is not None:
        if mi >= n and out != uncut_out:
            return f"max_iter={mi} >= {n} iterations of the unlimited run, but the result differs: {out} vs {uncut_out}"
        if mi < n and out["status"] != "MAX_ITER":
            return f"max_iter={mi} < {n} iterations of the unlimited run, status {out['status']}"
        if mi < n and out["sels"] != uncut_out["sels"][: len(out["sels"])]:
            return f"max_iter={mi}: selections {out['sels']} are not an initial segment of the unlimited answer"
    return None


# ---------------------------------------------------------------- A: call sequences on shared argument objects
def sequence_check(case, rng, materialize, call_args, canon_result, options):
    """One set of argument objects, several calls with different options (and back again); every answer must equal the
    answer of the same call on fresh objects.  Returns None or a description."""
    variants = []
    for fa, ms, mi in ((False, None, None), (True, None, None), (True, 1, None), (True, None, 3), (False, None, 2)):
        c = dict(case)
        c.update(find_all=fa, max_solutions=ms, max_iter=mi)
        variants.append(c)
    rng.shuffle(variants)
    order = variants + variants[::-1]
    fresh = [canon_result(guarded(call_args, materialize(v), options(v), timeout=5)) for v in order]
    shared = materialize(case)
    snap = copy.deepcopy(shared)
    for v, want in zip(order, fresh):
        got = canon_result(guarded(call_args, shared, options(v), timeout=5))
        if got != want:
            return (f"call sequence on shared argument objects: options {options(v)} gave {got}, the same call on fresh "
                    f"objects gives {want}")
    if shared != snap or repr(shared[0]) != repr(snap[0]):
        return "call sequence modified the shared argument objects"
    return None


# ---------------------------------------------------------------- A2: in-place edits between calls
def inplace_check(case, rng, mk_label, call_args, canon_result, options, run_impl, oracle, steps=6):
    """Call; edit the caller's matrix / columns / secondary objects in place; call again on the SAME objects; the answer must
    equal that of a fresh call on newly built equal objects (and obey the property).  Returns None or (description, case)."""
    cur = {k: copy.deepcopy(case[k]) for k in ("matrix", "columns", "secondary", "find_all", "max_solutions", "max_iter")}
    nc = len(cur["matrix"][0])
    M = [list(r) for r in cur["matrix"]]
    cols = None if cur["columns"] is None else [mk_label(d) for d in cur["columns"]]
    sec = None if cur["secondary"] is None else [mk_label(d) for d in cur["secondary"]]
    live = (M, cols, sec)
    for step in range(steps + 1):
        got = canon_result(guarded(call_args, live, options(cur), timeout=5))
        want, mut, nd = run_impl(cur)
        if got != want:
            return (f"after {step} in-place edit(s) of the caller's objects the call on the SAME objects gives {got}, a fresh "
                    f"call on equal new objects gives {want}", cur)
        bad = oracle(cur, want, mut, nd)
        if bad:
            return (f"after {step} in-place edit(s): {bad[1]}", cur)
        k = rng.randrange(9)
        nr = len(M)
        if k == 0 and nr:  # flip one cell (lengths unchanged)
            i, j = rng.randrange(nr), rng.randrange(nc)
            v = 0 if M[i][j] else 1
            M[i][j] = v
            cur["matrix"][i][j] = v
        elif k == 1 and nr:  # append a copy of a row / a random row
            row = list(M[rng.randrange(nr)]) if rng.random() < 0.5 else [1 if rng.random() < 0.4 else 0 for _ in range(nc)]
            M.append(list(row))
            cur["matrix"].append(list(row))
        elif k == 2 and nr > 1:  # delete a row
            i = rng.randrange(nr)
            del M[i]
            del cur["matrix"][i]
        elif k == 3 and nr:  # replace a row OBJECT (same length of the matrix)
            i = rng.randrange(nr)
            row = [1 if rng.random() < 0.4 else 0 for _ in range(nc)]
            M[i] = list(row)
            cur["matrix"][i] = list(row)
        elif k == 4 and nr > 1:  # swap two rows
            i, j = rng.randrange(nr), rng.randrange(nr)
            M[i], M[j] = M[j], M[i]
            cur["matrix"][i], cur["matrix"][j] = cur["matrix"][j], cur["matrix"][i]
        elif k == 5 and cols and nc > 1:  # rename a column in place (new distinct name; equal names are outside the property)
            i = rng.randrange(nc)
            d = "new%d" % step
            cur["columns"][i] = d
            cols[i] = mk_label(d)
        elif k == 6 and cols and nc > 1:  # swap two names
            i, j = rng.sample(range(nc), 2)
            cur["columns"][i], cur["columns"][j] = cur["columns"][j], cur["columns"][i]
            cols[i], cols[j] = cols[j], cols[i]
        elif k == 7 and sec is not None:  # one more secondary name
            d = rng.choice(cur["columns"]) if cur["columns"] else rng.randrange(nc)
            cur["secondary"].append(d)
            sec.append(mk_label(d))
        elif k == 8 and sec:  # one secondary name less
            i = rng.randrange(len(sec))
            del sec[i]
            del cur["secondary"][i]
    return None


# ---------------------------------------------------------------- S: sizes, answers known by construction
def _blocks(widths, dup):
    """Columns 0..n-1; column j has dup[j] identical rows covering exactly the block that contains j.  Blocks are
    consecutive column groups of the given widths.  Covers = one row per block: prod(dup) covers."""
    n = sum(widths)
    m, start, owners = [], 0, []
    for b, w in enumerate(widths):
        for _ in range(dup[b]):
            m.append([1 if start <= c < start + w else 0 for c in range(n)])
            owners.append(b)
        start += w
    return m, owners


def size_instances(tier):
    """(name, build() -> (matrix, kwargs), check(result_canon) -> None | str).  Not sent to vm_compute."""
    inst = []

    def tall(n, cols, sec, fa, ms):
        def build():
            row = [1] * cols
            return [list(row) for _ in range(n)] if n <= 3000 else [row] * n, {"secondary": sec, "find_all": fa, "max_solutions": ms}

        def check(o):
            # every single row is a cover (all rows identical and full)  -> n covers
            if o["kind"] != "done":
                return f"did not return: {o}"
            if not fa:
                return None if (o["status"], o["shape"], len(o["sels"][0]) if o["sels"] else -1) == ("OPTIMAL", "one", 1) else f"expected one single-row cover, got {o['status']} {o['sels'][:2]}"
            want = n if not ms else min(n, ms)
            rows = [s[0] for s in o["sels"] if len(s) == 1]
            if len(rows) != len(o["sels"]) or len(set(rows)) != len(rows) or len(rows) != want or any(not (0 <= r < n) for r in rows):
                return f"expected {want} distinct single-row covers, got {len(o['sels'])} selections, status {o['status']}"
            st = "FEASIBLE" if ms and n >= ms else "OPTIMAL"
            return None if o["status"] == st and o["objective"] == want else f"status {o['status']} objective {o['objective']}, expected {st} {want}"
        return (f"tall {n}x{cols} identical rows sec={sec} find_all={fa} max_solutions={ms}", build, check,
                {"column_ring_rows": n, "build_rows": n})

    for n in (17, 65, 257, 801, 1025, 2049):
        inst.append(tall(n, 3, [1], True, None))
    for n in (65535, 65536, 65537, 100003):
        inst.append(tall(n, 1, None, False, None))
        inst.append(tall(n, 2, [1], True, 3))
    inst.append(tall(65537, 1, None, True, None))
    inst.append(tall(131073, 2, None, False, None))
    inst.append(tall(2**20 + 1, 1, None, False, None))

    def two_cols(n):
        def build():
            a, b = [1, 0], [0, 1]
            return [a if i % 2 == 0 else b for i in range(2 * n)], {"find_all": False}

        def check(o):
            if o["kind"] != "done" or o["status"] != "OPTIMAL" or len(o["sels"]) != 1:
                return f"expected one cover (an even and an odd row), got {o.get('status', o)}"
            s = o["sels"][0]
            return None if len(s) == 2 and s[0] % 2 != s[1] % 2 and all(0 <= r < 2 * n for r in s) else f"not a cover: {s}"
        return (f"two primary columns with {n} rows each", build, check)

    inst.append(two_cols(66000))

    def blocks(widths, dup, fa=True, ms=None, name=None):
        def build():
            m, _ = _blocks(widths, dup)
            return m, {"find_all": fa, "max_solutions": ms}

        def check(o):
            if o["kind"] != "done":
                return f"did not return: {o}"
            m_owner = [b for b, d in enumerate(dup) for _ in range(d)]
            total = 1
            for d in dup:
                total *= d
            want = total if fa and not ms else (min(total, ms) if fa else 1)
            if len(o["sels"]) != want:
                return f"expected {want} covers of {total}, got {len(o['sels'])} (status {o['status']})"
            seen = set()
            for s in o["sels"]:
                if len(s) != len(widths) or sorted(m_owner[r] for r in s) != list(range(len(widths))):
                    return f"selection is not one row per block: {s[:10]}"
                seen.add(frozenset(s))
            if len(seen) != len(o["sels"]):
                return "a cover is listed twice"
            st = "OPTIMAL" if not (fa and ms and total >= ms) else "FEASIBLE"
            return None if o["status"] == st else f"status {o['status']}, expected {st}"
        return (name or f"{len(widths)} blocks, {dup[:4]}.. rows per block, find_all={fa} max_solutions={ms}", build, check,
                {"recursion_depth": len(widths) + 1, "build_columns": sum(widths)})

    for d in (17, 65, 257, 801, 900, 1025, 2049):  # cover depth d (recursion depth d+1; > 1000 needed a fix in /repo)
        inst.append(blocks([1] * d, [1] * d, name=f"identity {d}: one cover of {d} rows"))
        inst.append(blocks([1] * d, [2] + [1] * (d - 2) + [3], name=f"identity {d} with 2x3 duplicated rows: 6 covers"))
    inst.append(blocks([2, 1, 3] * 22, [1] * 66, fa=False, name="66 blocks of widths 2,1,3 (198 columns): one cover"))
    inst.append(blocks([1] * 17, [2] * 17, name="17 blocks x 2 rows: 2^17 covers (search tree > 10^5 nodes)"))
    inst.append(blocks([1] * 40, [2] * 40, fa=True, ms=1000, name="40 blocks x 2 rows, max_solutions=1000 of 2^40"))
    inst.append(blocks([1] * 3, [40, 41, 43], name="3 blocks with 40,41,43 rows: 70520 covers"))
    # ---- W: work volume of each internal loop (work[...] = the count reached, reported in the evidence)
    def parity(k, dup):
        """k binary blocks (2^k branches) in front of an infeasible gadget {ab, bc, ac} x dup: no cover; search() is called
        exactly (2*dup+2)*2^k - 1 times and _cover exactly as often."""
        def build():
            n = k + 3
            m = []
            for b in range(k):
                for _ in range(2):
                    m.append([1 if c == b else 0 for c in range(n)])
            for x, y in ((0, 1), (1, 2), (0, 2)):
                for _ in range(dup):
                    m.append([1 if c in (k + x, k + y) else 0 for c in range(n)])
            return m, {"find_all": True}

        want = (2 * dup + 2) * 2**k - 1

        def check(o):
            if o["kind"] != "done" or o["status"] != "INFEASIBLE" or o["sels"]:
                return f"no cover exists, got {o.get('status', o)} with {len(o.get('sels', []))} selections"
            if (o["iterations"], o["evaluations"]) != (want, want):
                return f"iterations/evaluations {o['iterations']}/{o['evaluations']}, by construction {want}/{want}"
            return None
        return (f"W parity gadget behind {k} binary blocks (dup {dup}): infeasible, {want} search calls", build, check,
                {"search_calls": want, "cover_calls": want})

    for k in (5, 8, 9, 10, 12, 15):
        inst.append(parity(k, 2))
    inst.append(parity(18, 2) if tier != "thorough" else parity(20, 2))

    def wide(n):
        """Row 0 covers all n columns, row 1 all but the last: the MRV scan walks n headers and ends on the last column, the
        row ring of row 0 has n nodes, selecting row 0 covers n columns; exactly one cover."""
        def build():
            return [[1] * n, [1] * (n - 1) + [0]], {"find_all": True}

        def check(o):
            if o["kind"] != "done" or o["status"] != "OPTIMAL" or o["sels"] != [[0]]:
                return f"expected the single cover [0], got {o.get('status', o)} {o.get('sels', [])[:3]}"
            return None if (o["iterations"], o["evaluations"]) == (2, n) else f"iterations/evaluations {o['iterations']}/{o['evaluations']}, by construction 2/{n}"
        return (f"W wide 2x{n}: MRV scan / row ring / header ring of {n}", build, check,
                {"mrv_scan_columns": n, "row_ring_nodes": n, "covers_per_row": n})

    for n in (129, 1025, 2049, 4097, 10001, 100001):
        inst.append(wide(n))

    def deep_bytes(d):
        def build():
            m = []
            for i in range(d):
                b = bytearray(d)
                b[i] = 1
                m.append(b)
            return m, {"find_all": True}

        def check(o):
            ok = o["kind"] == "done" and o["status"] == "OPTIMAL" and len(o["sels"]) == 1 and sorted(o["sels"][0]) == list(range(d))
            return None if ok and o["iterations"] == d + 1 else f"identity {d}: expected the one cover and {d + 1} iterations, got {str(o)[:100]}"
        return (f"W identity {d} (bytearray rows): recursion depth {d + 1}", build, check, {"recursion_depth": d + 1})

    inst.append(deep_bytes(4097))
    inst.append(blocks([1] * 13, [2] * 13, name="W 13 blocks x 2 rows: 8192 covers recorded"))
    inst.append(blocks([1] * 3, [22, 22, 21], name="W 3 blocks with 22,22,21 rows: 10164 covers recorded"))
    if tier == "thorough":
        inst.append(wide(2**20 + 1))
        inst.append(deep_bytes(10001))
        inst.append(blocks([1] * 2, [1025, 1025], name="W 2 blocks of 1025 rows: 1050625 covers recorded (> 2^20)"))
        inst.append(tall(262145, 1, None, True, 2))
        inst.append(tall(2**21 + 1, 1, None, False, None))
        inst.append(blocks([1] * 5000, [1] * 5000, fa=False, name="identity 5000: one cover of 5000 rows"))
    return inst


# ---------------------------------------------------------------- H: instrumented reference port, events
EVENTS = ["dead_end_depth2", "solution_after_dead_end", "tie_min_3", "min_not_first", "secondary_conflict",
          "secondary_only_row_active", "row_covers_3", "depth_4", "solutions_8", "dup_rows_both_used", "empty_row_with_cover",
          "cut_depth2", "count_after_cut_3", "limit_exact", "limit_minus_1", "ms_exact", "ms_minus_1", "stop_from_depth3",
          "all_secondary", "phantom_empty_primary"]


def port(case, reading):
    """Pointer-free Algorithm X following the code's choices (first column of minimum size, rows ascending, counters and
    cut-offs as in search()), instrumented.  Returns (events, iterations, sels) or None for malformed / degenerate calls."""
    rd = reading(case)
    m = case["matrix"]
    if rd is None or not m or not m[0]:
        return None
    cell, nr, prim, sec = rd
    allc = sorted(prim + sec)
    secset = set(sec)
    rows = [(r, tuple(c for c in allc if cell(r, c))) for r in range(nr)]
    fa, ms, mi = case["find_all"], case["max_solutions"], case["max_iter"]
    mi = 10_000_000 if mi is None else mi
    ev = set()
    st = {"it": 0, "sols": [], "dead": 0, "cut_at": None, "after_cut": 0}
    if not prim:
        ev.add("all_secondary")
    if any(not any(cell(r, c) for r in range(nr)) for c in prim):
        ev.add("phantom_empty_primary")

    def search(cols, act, cur):
        st["it"] += 1
        if st["it"] > mi:
            if st["cut_at"] is None:
                st["cut_at"] = len(cur)
                if len(cur) >= 2:
                    ev.add("cut_depth2")
            else:
                st["after_cut"] += 1
                if st["after_cut"] >= 3:
                    ev.add("count_after_cut_3")
            return False
        if not cols:
            st["sols"].append(list(cur))
            if st["dead"]:
                ev.add("solution_after_dead_end")
            if len(cur) >= 4:
                ev.add("depth_4")
            stop = (not fa) or bool(ms and len(st["sols"]) >= ms)
            if stop and len(cur) >= 3:
                ev.add("stop_from_depth3")
            return stop
        sizes = [sum(1 for _, cs in act if c in cs) for c in cols]
        mn = min(sizes)
        k = sizes.index(mn)
        if mn == 0:
            st["dead"] += 1
            if len(cur) >= 2:
                ev.add("dead_end_depth2")
            return False
        if sizes.count(mn) >= 3:
            ev.add("tie_min_3")
        if k > 0:
            ev.add("min_not_first")
        c = cols[k]
        if any(cs and all(x in secset for x in cs) for _, cs in act):
            ev.add("secondary_only_row_active")
        for r, cs in [rc for rc in act if c in rc[1]]:
            if len(cs) >= 3:
                ev.add("row_covers_3")
            keep = []
            for r2, cs2 in act:
                common = set(cs) & set(cs2)
                if not common:
                    keep.append((r2, cs2))
                elif r2 != r and common <= secset:
                    ev.add("secondary_conflict")
            cur.append(r)
            hit = search([x for x in cols if x not in cs], keep, cur)
            cur.pop()
            if hit:
                return True
        return False

    try:
        search(list(prim), rows, [])
    except RecursionError:
        return None
    sols = st["sols"]
    if len(sols) >= 8:
        ev.add("solutions_8")
    used = {r for s in sols for r in s}
    for a in range(nr):
        for b in range(a + 1, nr):
            if rows[a][1] and rows[a][1] == rows[b][1] and a in used and b in used:
                ev.add("dup_rows_both_used")
    if sols and any(not cs for _, cs in rows):
        ev.add("empty_row_with_cover")
    return ev, st["it"], sols


def option_events(case, reading):
    """Events that relate the limits to the unlimited run of the same call."""
    ev = set()
    if case["max_iter"] is not None:
        c = dict(case)
        c["max_iter"] = None
        p = port(c, reading)
        if p:
            if case["max_iter"] == p[1]:
                ev.add("limit_exact")
            if case["max_iter"] == p[1] - 1:
                ev.add("limit_minus_1")
    if case["find_all"] and case["max_solutions"]:
        c = dict(case)
        c["max_solutions"] = None
        c["max_iter"] = None
        p = port(c, reading)
        if p and len(p[2]) >= 2:
            if case["max_solutions"] == len(p[2]):
                ev.add("ms_exact")
            if case["max_solutions"] == len(p[2]) - 1:
                ev.add("ms_minus_1")
    return ev


def events_of(case, reading):
    p = port(case, reading)
    if p is None:
        return set()
    return p[0] | option_events(case, reading)


def directed(rng, event, reading, gen_case, mutate, budget=1500):
    """Search for a case showing `event`: limit events by construction from the unlimited run, the rest by mutation of
    random cases (accept a mutant when it shows the event)."""
    for _ in range(budget):
        c = gen_case(rng, False)
        c.pop("dress", None)
        if reading(c) is None:
            continue
        if event in ("limit_exact", "limit_minus_1", "cut_depth2", "count_after_cut_3"):
            c["max_iter"] = None
            p = port(c, reading)
            if not p or p[1] < 4:
                continue
            c["max_iter"] = {"limit_exact": p[1], "limit_minus_1": p[1] - 1}.get(event, rng.randint(2, p[1] - 1))
        elif event in ("ms_exact", "ms_minus_1"):
            c.update(find_all=True, max_solutions=None, max_iter=None)
            p = port(c, reading)
            if not p or len(p[2]) < 3:
                continue
            c["max_solutions"] = len(p[2]) - (1 if event == "ms_minus_1" else 0)
        for _ in range(4):
            if event in events_of(c, reading):
                c["family"] = "H:" + event
                return c
            c = mutate(rng, c)
            if event in ("depth_4", "solutions_8", "stop_from_depth3"):
                c["max_iter"] = None
    return None


def minimise_for_event(case, event, reading):
    cur = copy.deepcopy(case)
    changed = True
    while changed:
        changed = False
        for i in range(len(cur["matrix"])):
            c = copy.deepcopy(cur)
            del c["matrix"][i]
            if reading(c) is not None and event in events_of(c, reading):
                cur, changed = c, True
                break
    return cur


def dump_witness(path, case, event):
    o = {"note": f"round-2 hardening: minimised witness of the internal event '{event}' (reference port, C07_hard.py)"}
    o.update({k: case.get(k) for k in ("matrix", "columns", "secondary", "find_all", "max_solutions", "max_iter")})
    path.write_text(json.dumps(o) + "\n")
