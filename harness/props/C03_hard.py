"""C03 round-2 hardening families (see /verif/HARDENING.md).  Called from harness/props/C03.py: run_hard(ctx).

Classes covered for solve_lp / solve_lp_interior (L does not apply: the API has no labels):
  I  input container / number types: tuples, ranges, array('d'), ints, bools, floats - same answer as list-of-float input
  S  size thresholds: square LPs 17..24, 30..45, 60..70 (feasible / infeasible / unbounded BY CONSTRUCTION, optimum certified by an
     independently verified dual point), many rows x (n <= 3) up to 129 rows, many columns x (m <= 2) up to 257 columns (exact
     enumeration oracles that stay cheap there), one 513-row LP with known optimum; mid-size 9..13 instances also go through the
     Coq correspondence + proved certificate checker
  M  magnitudes: rows / objective scaled by 2^k, right-hand sides up to 10^6, 2^31, 2^44+1; decimal data (0.1, 0.2, 0.3 sums);
     data within 1e-12..1e-9 of the code's eps thresholds (probes, strict correspondence with the eps = 1e-10 model)
  O  option corners: max_iter sweeps (simplex 0..pivots+2, interior point 0..40 and around the break-down iteration), eps sweeps
  A  aliasing / call sequences: inputs unchanged, same answer twice, shared inputs across min/max and across both solvers
  H  rare histories: instrumented runs report internal events (degenerate pivot, ratio tie, Bland tie-break decided, artificial
     driven out / left basic, phase-1 limit, unbounded after phase 1, long runs; interior point: iterate break-down); a candidate pool
     is searched for them and the hits are judged by the full oracle + correspondence.
"""
from __future__ import annotations

import copy
import itertools
import json
import math
from array import array
from fractions import Fraction

from harness.core import cq, guarded, pmap


def _M():
    import harness.props.C03 as M

    return M


# =============================================================================== exact references for sizes beyond C(m+n, m)
def exact_simplex(c, A, b, minimize=True):
    """Independent exact two-phase simplex over Fraction (Bland).  -> ('OPTIMAL', opt) | ('INFEASIBLE',) | ('UNBOUNDED',).
    Used only as the arbiter when the cheap dual cross-check of a large instance does not close."""
    m, n = len(b), len(c)
    w = [Fraction(v) if minimize else -Fraction(v) for v in c]
    neg = [i for i in range(m) if b[i] < 0]
    N = n + m + len(neg)
    T, basis = [], []
    for i in range(m):
        row = [Fraction(v) for v in A[i]] + [Fraction(0)] * (m + len(neg)) + [Fraction(b[i])]
        row[n + i] = Fraction(1)
        if b[i] < 0:
            row = [-v for v in row]
            row[n + m + neg.index(i)] = Fraction(1)
            basis.append(n + m + neg.index(i))
        else:
            basis.append(n + i)
        T.append(row)

    def run(cost, ncols):
        z = list(cost) + [Fraction(0)]
        for i in range(m):
            cb = cost[basis[i]]
            if cb:
                z = [a - cb * t for a, t in zip(z, T[i])]
        while True:
            inb = set(basis)
            enter = next((j for j in range(ncols) if j not in inb and z[j] < 0), -1)
            if enter < 0:
                return -z[N]
            leave, best = -1, None
            for i in range(m):
                if T[i][enter] > 0:
                    r = T[i][N] / T[i][enter]
                    if best is None or r < best or (r == best and basis[i] < basis[leave]):
                        best, leave = r, i
            if leave < 0:
                return None
            p = T[leave][enter]
            T[leave] = [v / p for v in T[leave]]
            for i in range(m):
                f = T[i][enter]
                if i != leave and f:
                    T[i] = [a - f * t for a, t in zip(T[i], T[leave])]
            f = z[enter]
            z = [a - f * t for a, t in zip(z, T[leave])]
            basis[leave] = enter

    if neg:
        if run([Fraction(0)] * (n + m) + [Fraction(1)] * len(neg), N) > 0:
            return ("INFEASIBLE",)
        for i in range(m):
            if basis[i] >= n + m:
                j = next((j for j in range(n + m) if j not in basis and T[i][j] != 0), None)
                if j is None:
                    continue
                p = T[i][j]
                T[i] = [v / p for v in T[i]]
                for k in range(m):
                    f = T[k][j]
                    if k != i and f:
                        T[k] = [a - f * t for a, t in zip(T[k], T[i])]
                basis[i] = j
    val = run(w + [Fraction(0)] * (m + len(neg)), n + m)
    if val is None:
        return ("UNBOUNDED",)
    return ("OPTIMAL", val if minimize else -val)


def _solve_sq(M, rhs):
    k = len(M)
    a = [list(map(Fraction, M[i])) + [Fraction(rhs[i])] for i in range(k)]
    for col in range(k):
        p = next((r for r in range(col, k) if a[r][col] != 0), None)
        if p is None:
            return None
        a[col], a[p] = a[p], a[col]
        inv = 1 / a[col][col]
        a[col] = [v * inv for v in a[col]]
        for r in range(k):
            if r != col and a[r][col] != 0:
                f = a[r][col]
                a[r] = [v - f * w for v, w in zip(a[r], a[col])]
    return [a[i][k] for i in range(k)]


def _vertices(rows, rhs, n):
    """vertices of {rows . x <= rhs} (x >= 0 must be among the rows): choose n tight constraints"""
    for S in itertools.combinations(range(len(rows)), n):
        x = _solve_sq([rows[i] for i in S], [rhs[i] for i in S])
        if x is None:
            continue
        if all(sum(Fraction(a) * v for a, v in zip(rows[i], x)) <= rhs[i] for i in range(len(rows))):
            yield x


def oracle_small_n(c, A, b, minimize):
    """Exact verdict for few variables and many rows: the polyhedron {Ax<=b, x>=0} is pointed, so it is non-empty iff it has a vertex;
    the optimum is finite iff no vertex of the normalised recession cone {Ad<=0, d>=0, sum d = 1} improves the objective."""
    n = len(c)
    w = [Fraction(v) if minimize else -Fraction(v) for v in c]
    rows = [list(r) for r in A] + [[-1 if j == k else 0 for j in range(n)] for k in range(n)]
    rhs = [Fraction(v) for v in b] + [Fraction(0)] * n
    best = None
    for x in _vertices(rows, rhs, n):
        val = sum(a * v for a, v in zip(w, x))
        if best is None or val < best:
            best = val
    if best is None:
        return ("INFEASIBLE",)
    crow = rows + [[1] * n, [-1] * n]
    crhs = [Fraction(0)] * len(rows) + [Fraction(1), Fraction(-1)]
    for d in _vertices(crow, crhs, n):
        if sum(a * v for a, v in zip(w, d)) < 0:
            return ("UNBOUNDED",)
    return ("OPTIMAL", best if minimize else -best)


# =============================================================================== S: sizes
def gen_square(rng, lo, hi):
    """Well-scaled integer LP (entries -9..9) of size lo..hi built around an integer point x0 >= 0 (so it is feasible and needs
    phase 1), bounded by a row sum(x) <= const; variants: infeasible (a row and its negation with a gap), unbounded (a
    non-positive column with improving cost)."""
    n, m = rng.randint(lo, hi), rng.randint(lo, hi)
    x0 = [rng.randint(0, 5) for _ in range(n)]
    dens = rng.choice([0.2, 0.33, 0.33, 0.5, 1.0])
    A = [[rng.randint(-9, 9) if rng.random() < dens else 0 for _ in range(n)] for _ in range(m)]
    b = [sum(a * x for a, x in zip(r, x0)) + rng.randint(0, 3) for r in A]
    c = [rng.randint(-9, 9) for _ in range(n)]
    minimize = rng.random() < 0.6
    kind = rng.choice(["OPTIMAL"] * 8 + ["INFEASIBLE", "UNBOUNDED"])
    if kind == "UNBOUNDED":
        j = rng.randrange(n)
        for r in A:
            r[j] = -abs(r[j])
        b = [sum(a * x for a, x in zip(r, x0)) + rng.randint(0, 3) for r in A]
        c[j] = -rng.randint(1, 9) if minimize else rng.randint(1, 9)
    else:
        A.append([1] * n)
        b.append(sum(x0) + 10)
    if kind == "INFEASIBLE":
        r = [rng.randint(-9, 9) for _ in range(n)]
        t = rng.randint(-20, 40)
        k = rng.randrange(len(A) + 1)
        A.insert(k, r); b.insert(k, t)
        k = rng.randrange(len(A) + 1)
        A.insert(k, [-a for a in r]); b.insert(k, -t - rng.randint(1, 3))
    else:
        assert all(sum(a * x for a, x in zip(r, x0)) <= bi for r, bi in zip(A, b))
    return {"c": c, "A": A, "b": b, "minimize": minimize, "max_iter": None, "expect": kind, "family": f"square{lo}-{hi}", "timeout": 120}


def gen_known_tall(rows=513):
    """x + y <= 10 + i (i = 0..rows-3), x <= 7, y <= 6: max x + y = 10."""
    A = [[1, 1] for _ in range(rows - 2)] + [[1, 0], [0, 1]]
    b = [10 + i for i in range(rows - 2)] + [7, 6]
    return {"c": [1, 1], "A": A, "b": b, "minimize": False, "max_iter": None, "expect": "OPTIMAL", "expect_obj": 10, "family": f"tall{rows}", "timeout": 120}


def _feasible_float(A, b, x, tol=1e-7):
    if any(not math.isfinite(v) for v in x):
        return "non-finite point"
    if any(v < -tol for v in x):
        return f"negative component {min(x)}"
    for i, row in enumerate(A):
        lhs = math.fsum(a * v for a, v in zip(row, x))
        if lhs > b[i] + tol * (1 + abs(b[i]) + math.fsum(abs(a * v) for a, v in zip(row, x))):
            return f"row {i} violated: {lhs} > {b[i]}"
    return None


def judge_construct(case, out):
    """Verdict known by construction; an OPTIMAL answer is certified by weak duality with a dual point obtained from solve_lp on the
    dual LP and verified here (any dual-feasible y bounds the optimum, however it was found); if that does not close, the exact
    rational simplex arbitrates."""
    M = _M()
    if "fail" in out:
        return f"solve_lp did not return: {out['fail']}"
    st = out["status"]
    if st == "MAX_ITER":
        return "MAX_ITER with the default limit of 100000" if case["max_iter"] is None else None
    if st != case["expect"]:
        return f"status {st} but the LP is {case['expect']} by construction"
    if st != "OPTIMAL":
        return None
    c, A, b = case["c"], case["A"], case["b"]
    x = out["solution"]
    bad = _feasible_float(A, b, x)
    if bad:
        return "OPTIMAL point infeasible: " + bad
    cx = math.fsum(a * v for a, v in zip(c, x))
    if abs(cx - out["objective"]) > 1e-7 * (1 + abs(cx)):
        return f"objective {out['objective']} != c.x = {cx}"
    if "expect_obj" in case:
        if abs(out["objective"] - case["expect_obj"]) > 1e-7 * (1 + abs(case["expect_obj"])):
            return f"objective {out['objective']} but the optimum is {case['expect_obj']}"
        return None
    # dual of  min w.x, Ax<=b, x>=0 :  max -b.y  s.t.  -A^T y <= w, y >= 0
    w = [v if case["minimize"] else -v for v in c]
    p = cx if case["minimize"] else -cx
    n, m = len(c), len(b)
    dual = {"c": [-v for v in b], "A": [[-A[i][j] for i in range(m)] for j in range(n)], "b": list(w), "minimize": False, "max_iter": None, "timeout": 120}
    dout = M.run_simplex(dual)
    ok = False
    if dout.get("status") == "OPTIMAL":
        y = dout["solution"]
        if _feasible_float(dual["A"], dual["b"], y) is None:
            d = -math.fsum(bi * yi for bi, yi in zip(b, y))
            if d <= p + 1e-6 * (1 + abs(p)) and p - d <= 1e-6 * (1 + abs(p)):
                ok = True
    if ok:
        return None
    if max(n, m) > 48:
        return f"optimality of the answer could not be certified: dual run gave {dout.get('status')} {dout.get('objective')} vs primal {p}"
    ex = exact_simplex(c, A, b, case["minimize"])
    if ex[0] != "OPTIMAL":
        return f"status OPTIMAL but the exact rational simplex says {ex[0]}"
    if abs(out["objective"] - float(ex[1])) > 1e-6 * (1 + abs(float(ex[1]))):
        return f"objective {out['objective']} but the exact optimum is {ex[1]}"
    return f"the DUAL LP (c={dual['c']}, A=..., b={dual['b']}, maximize) was answered {dout.get('status')} {dout.get('objective')} but its optimum is {p}"


def _work_construct(case):
    M = _M()
    out = M.run_simplex(case)
    return out, judge_construct(case, out)


def gen_tall(rng, rows):
    """many rows, n <= 3: random rows through/around a point x0, duplicates and parallels, a few negative rhs"""
    n = rng.choice([2, 2, 3]) if rows <= 33 else 2
    x0 = [rng.randint(0, 6) for _ in range(n)]
    A, b = [], []
    feas = rng.random() < 0.8
    for i in range(rows):
        if A and rng.random() < 0.15:
            k = rng.randrange(len(A)); f = rng.choice([1, 2, 3])
            A.append([f * a for a in A[k]]); b.append(f * b[k] + rng.choice([0, 0, 1]))
            continue
        r = [rng.randint(-9, 9) for _ in range(n)]
        A.append(r); b.append(sum(a * x for a, x in zip(r, x0)) + rng.choice([0, 0, 1, 2, 5]))
    if rng.random() < 0.7:
        A.append([1] * n); b.append(sum(x0) + rng.randint(0, 6))
    if not feas:
        k = rng.randrange(len(A))
        A.append([-a for a in A[k]]); b.append(-b[k] - rng.randint(1, 2))
    c = [rng.randint(-5, 5) for _ in range(n)]
    return {"c": c, "A": A, "b": b, "minimize": rng.random() < 0.5, "max_iter": None, "oracle": "small_n", "family": f"tall{rows}"}


def gen_wide(rng, cols):
    """many columns, m <= 2"""
    m = rng.choice([1, 2, 2])
    A = [[rng.randint(-9, 9) if rng.random() < 0.8 else 0 for _ in range(cols)] for _ in range(m)]
    if rng.random() < 0.6:
        A[0] = [abs(a) + (1 if rng.random() < 0.5 else 0) for a in A[0]]       # bounded direction
    b = [rng.choice([rng.randint(0, 30), rng.randint(-10, 30)]) for _ in range(m)]
    c = [rng.randint(-9, 9) for _ in range(cols)]
    return {"c": c, "A": A, "b": b, "minimize": rng.random() < 0.5, "max_iter": None, "oracle": "exact_simplex", "family": f"wide{cols}"}


def _work_small_n(case):
    M = _M()
    out = M.run_simplex(case)
    orc = oracle_small_n(case["c"], case["A"], case["b"], case["minimize"])
    return out, orc, M.judge_simplex(case, out, orc)


# =============================================================================== M: magnitudes (small LPs, enumeration oracle + Coq)
def gen_scaled(rng):
    """small LP with its rows / objective / right-hand sides moved to other magnitudes: per-row factors 2^k (k up to 31, also negative
    powers), mixed scales inside one LP, decimal factors 10^k, huge right-hand sides.  The exact verdict is computed on the scaled data."""
    M = _M()
    base = M.gen_lp(rng) if rng.random() < 0.6 else M.gen_lp_inexact(rng)
    A = [list(r) for r in base["A"]]; b = list(base["b"]); c = list(base["c"])
    how = rng.choice(["rows", "rows", "all", "obj", "rhs", "huge-rhs", "mixed", "mixed", "one-row", "decimal-rows"])
    if how in ("rows", "mixed"):
        for i in range(len(A)):
            k = rng.choice([rng.randint(-10, 31), rng.randint(14, 31), 0])
            f = Fraction(2) ** k
            A[i] = [float(a * f) for a in A[i]]; b[i] = float(b[i] * f)
    if how == "one-row":
        i = rng.randrange(len(A))
        f = rng.choice([2 ** 31, 2 ** 20, 10 ** 9, 2 ** 17, 3 * 2 ** 18])
        A[i] = [a * f for a in A[i]]; b[i] = b[i] * f
    if how == "decimal-rows":
        for i in range(len(A)):
            f = 10 ** rng.randint(0, 9)
            A[i] = [a * f for a in A[i]]; b[i] = b[i] * f
    if how == "all":
        f = Fraction(2) ** rng.randint(-10, 31)
        A = [[float(a * f) for a in r] for r in A]; b = [float(v * f) for v in b]
    if how in ("obj", "mixed"):
        f = rng.choice([2 ** rng.randint(-6, 31), 10 ** rng.randint(1, 9)])
        c = [float(Fraction(v) * f) for v in c]
    if how == "rhs":
        f = 10 ** rng.randint(1, 6)
        b = [v * f for v in b]
    if how == "huge-rhs":
        big = rng.choice([2 ** 31, 10 ** 9, 2 ** 44 + 1, 2 ** 31 - 1, 10 ** 6 + 1])
        b = [(big if v > 0 else (-big if v < 0 else 0)) + v for v in b]
    for i in range(len(A)):      # stay below the library's own "large coefficient" warning threshold (1e10)
        while max([abs(a) for a in A[i]] + [0]) > 9e9:
            A[i] = [a / 16 for a in A[i]]; b[i] = b[i] / 16
    return {"c": c, "A": A, "b": b, "minimize": base["minimize"], "max_iter": None, "family": "scaled-" + how}


# feasible one-row LPs  a*s x >= b*s  of magnitude 1e5..1e7: answered INFEASIBLE before commit b6b6dd1 (absolute phase-1 tolerance)
MAGNITUDE_FIXED = [
    {"c": [0], "A": [[-500000]], "b": [-800000], "minimize": True},
    {"c": [0], "A": [[-900000]], "b": [-700000], "minimize": True},
    {"c": [0], "A": [[-9437184.0]], "b": [-7340032.0], "minimize": True},
    {"c": [1], "A": [[-5000000]], "b": [-1000000], "minimize": True},
    {"c": [1, 1], "A": [[-300000, -700000], [1, 0]], "b": [-1100000, 2], "minimize": True},
    # rows of magnitude 2^17..2^31 next to unit rows: wrong points / verdicts before commit 96ecc58 (row equilibration)
    {"c": [-2, 1], "A": [[1179648.0, 917504.0], [-1179648.0, -917504.0]], "b": [1835008.0, -1835008.0], "minimize": True},
    {"c": [128.0, -128.0], "A": [[14.0, -20.0], [-7340032.0, 10485760.0]], "b": [0.0, 0.0], "minimize": False},
    {"c": [0, 3, 2, 3], "A": [[0, 0, -5, -8], [-5, -2, 0, 0], [1, 0, 0, 0], [0, 1, 0, 0], [0, 0, 2147483648, 0], [0, 0, 0, 1]],
     "b": [-17, -19, 5, 5, 4294967296, 4], "minimize": True},
    # objective of magnitude 1e6..1e8: UNBOUNDED before commit 39737f0 (objective row scaled)
    {"c": [1000000, -1000000], "A": [[-1, 1], [-9, 0], [-1, -9]], "b": [-1, -25, -17], "minimize": True},
    {"c": [50331648.0, -50331648.0], "A": [[-10.0, 10.0], [-1207959552.0, 0], [-512.0, -4608.0]], "b": [-10.0, -3355443200.0, -8704.0], "minimize": True},
    # objective cell vs c.x of the returned point (commit 0767acf)
    {"c": [5, 87960930222079, 5], "A": [[0, 1, 0], [1, 0, 0], [0, -6, -3]], "b": [1, 1, -8], "minimize": True},
]


def gen_magnitude_rows(rng):
    """a*s x >= b*s style rows (need phase 1) at scale s = 10^4 .. 10^7, one or two rows, optional bound"""
    s = rng.choice([10 ** rng.randint(4, 8), 2 ** rng.randint(14, 28)])
    n = rng.choice([1, 1, 2])
    A = [[-rng.randint(1, 19) * s for _ in range(n)]]
    b = [-rng.randint(1, 19) * s]
    if rng.random() < 0.5:
        A.append([rng.randint(0, 3) for _ in range(n)]); b.append(rng.randint(1, 40))
    c = [rng.randint(0, 5) for _ in range(n)]
    return {"c": c, "A": A, "b": b, "minimize": True, "max_iter": None, "family": "magnitude-rows"}


def gen_decimal(rng):
    """decimal data k/10 written as floats, sums evaluated in floating point at call time (0.1 + 0.2 != 0.3): the LP the floats denote
    exactly and the LP intended in decimals can differ in verdict by 1e-17 effects; both exact verdicts are computed and an answer is
    accepted if it obeys the property for either (the property's tolerance), strictly judged when they agree."""
    n = rng.choice([1, 2, 2, 3]); m = rng.choice([1, 2, 2, 3])
    tenths = lambda: rng.randint(-9, 9)
    Ai = [[tenths() for _ in range(n)] for _ in range(m)]
    bparts = [[rng.randint(-5, 9) for _ in range(rng.choice([1, 2, 3]))] for _ in range(m)]
    if m > 1 and rng.random() < 0.5:       # opposite rows meeting exactly in decimals
        Ai[1] = [-a for a in Ai[0]]
        bparts[1] = [-v for v in bparts[0][::-1]] if rng.random() < 0.5 else [-sum(bparts[0])]
    ci = [tenths() for _ in range(n)]
    A = [[a * 0.1 for a in r] for r in Ai]
    b = []
    for parts in bparts:
        s = 0.0
        for v in parts:
            s += v * 0.1
        b.append(s)
    c = [v * 0.1 for v in ci]
    alt = {"c": [Fraction(v, 10) for v in ci], "A": [[Fraction(a, 10) for a in r] for r in Ai], "b": [Fraction(sum(p), 10) for p in bparts]}
    return {"c": c, "A": A, "b": b, "minimize": rng.random() < 0.5, "max_iter": None, "alt": alt, "family": "decimal"}


# data within a factor 100 of the code's eps = 1e-10 threshold, placed where the threshold is applied to INPUT data directly (no
# rounding can blur the comparison): the eps = 1e-10 model is the strict reference (corr_check, not the robust-gated one)
EPS_PROBES = [
    {"c": [1], "A": [[1]], "b": [-3e-11], "minimize": True},          # rhs > -eps: no phase 1, x = 0
    {"c": [1], "A": [[1]], "b": [-5e-10], "minimize": True},          # rhs < -eps: phase 1, infeasible
    {"c": [1], "A": [[0]], "b": [-3e-11], "minimize": True},          # 0 <= -3e-11: feasible within eps
    {"c": [1], "A": [[0]], "b": [-5e-10], "minimize": True},          # infeasible beyond eps
    {"c": [1, 1], "A": [[-1, -1], [1, 0]], "b": [-3e-11, 2], "minimize": True},
    {"c": [1, 1], "A": [[-1, -1], [1, 0]], "b": [-2e-10, 2], "minimize": True},
    {"c": [-3e-11, 1], "A": [[1, 1]], "b": [4], "minimize": True},    # reduced cost > -eps: optimal at 0
    {"c": [-5e-10, 1], "A": [[1, 1]], "b": [4], "minimize": True},    # reduced cost < -eps: pivot
    {"c": [3e-11, -1], "A": [[1, 1]], "b": [4], "minimize": False},
    {"c": [-1], "A": [[3e-11]], "b": [1], "minimize": True},          # entering column has no entry > eps: unbounded
    {"c": [-1], "A": [[5e-10]], "b": [1], "minimize": True},          # entry > eps: pivot, x = 2e9
    {"c": [-1, 0], "A": [[3e-11, 1], [1, 0]], "b": [1, 5], "minimize": True},
    {"c": [1], "A": [[-1], [1]], "b": [-1, 1 - 3e-11], "minimize": True},   # infeasible by 3e-11
    {"c": [1], "A": [[-1], [1]], "b": [-1, 1 - 5e-9], "minimize": True},    # infeasible by 5e-9
]


# =============================================================================== I: containers and number types
def _variants(rng, case):
    c, A, b = case["c"], case["A"], case["b"]
    ints = all(isinstance(v, int) for v in c + b + [a for r in A for a in r])
    yield "tuple", (tuple(c), tuple(tuple(r) for r in A), tuple(b))
    yield "float", ([float(v) for v in c], [[float(a) for a in r] for r in A], [float(v) for v in b])
    yield "array", (array("d", c), [array("d", r) for r in A], array("d", b))
    yield "tuple-of-lists", (list(c), tuple(list(r) for r in A), list(b))
    if ints:
        yield "bool", ([(v == 1) if v in (0, 1) else v for v in c], [[(a == 1) if a in (0, 1) else a for a in r] for r in A],
                       [(v == 1) if v in (0, 1) else v for v in b])
        yield "fresh-ints", ([v + 1000 - 1000 for v in c], [[int(str(a)) for a in r] for r in A], [v * 3 // 3 for v in b])
    for i, r in enumerate(A):
        if len(r) >= 1 and ints and list(r) == list(range(r[0], r[0] + len(r))):
            A2 = [list(x) for x in A]; A2[i] = range(r[0], r[0] + len(r))
            yield "range-row", (list(c), A2, list(b))
            break


def _res_tuple(r):
    return (r.status.name, tuple(float(v) for v in r.solution), float(r.objective), int(r.iterations))


def check_types(item):
    """(case) -> list of problems: every container / number-type variant must give exactly the answer of the plain list call"""
    import random
    import warnings

    from solvor.interior_point import solve_lp_interior
    from solvor.simplex import solve_lp

    case = item
    rng = random.Random(json.dumps(case, sort_keys=True, default=str))
    probs = []
    with warnings.catch_warnings():
        warnings.simplefilter("ignore")
        for fn, kw in ((solve_lp, {}), (solve_lp_interior, {"max_iter": 12})):
            ref = guarded(fn, list(case["c"]), [list(r) for r in case["A"]], list(case["b"]), minimize=case["minimize"], timeout=10, **kw)
            for name, (c, A, b) in _variants(rng, case):
                got = guarded(fn, c, A, b, minimize=case["minimize"], timeout=10, **kw)
                if ref[0] != got[0] or (ref[0] == "ok" and not _same(_res_tuple(ref[1]), _res_tuple(got[1]))) or (ref[0] != "ok" and ref != got):
                    probs.append(f"{fn.__name__} with {name} inputs: {got if got[0] != 'ok' else _res_tuple(got[1])} but with lists "
                                 f"{ref if ref[0] != 'ok' else _res_tuple(ref[1])}")
    return probs


def _same(a, b):
    def eq(x, y):
        return x == y or (isinstance(x, float) and isinstance(y, float) and math.isnan(x) and math.isnan(y))
    return a[0] == b[0] and a[3] == b[3] and eq(a[2], b[2]) and len(a[1]) == len(b[1]) and all(eq(x, y) for x, y in zip(a[1], b[1]))


# =============================================================================== A: aliasing / call sequences
def check_alias(case):
    """inputs unchanged by the call; same input twice -> same answer; shared input objects across min/max and across the two solvers, in
    both orders, give the answers of fresh calls"""
    import warnings

    from solvor.interior_point import solve_lp_interior
    from solvor.simplex import solve_lp

    probs = []
    c, A, b = list(case["c"]), [list(r) for r in case["A"]], list(case["b"])
    snap = copy.deepcopy((c, A, b))

    def fresh(fn, mn, **kw):
        r = guarded(fn, *copy.deepcopy(snap), minimize=mn, timeout=10, **kw)
        return _res_tuple(r[1]) if r[0] == "ok" else r

    with warnings.catch_warnings():
        warnings.simplefilter("ignore")
        want = {(f.__name__, mn): fresh(f, mn, **kw) for f, kw in ((solve_lp, {}), (solve_lp_interior, {"max_iter": 15})) for mn in (True, False)}
        orders = [[(solve_lp, True), (solve_lp, False), (solve_lp_interior, True), (solve_lp, True), (solve_lp_interior, False), (solve_lp_interior, True)],
                  [(solve_lp_interior, False), (solve_lp, False), (solve_lp, False), (solve_lp_interior, True), (solve_lp, True)]]
        for order in orders:
            for fn, mn in order:
                kw = {} if fn is solve_lp else {"max_iter": 15}
                r = guarded(fn, c, A, b, minimize=mn, timeout=10, **kw)
                got = _res_tuple(r[1]) if r[0] == "ok" else r
                w = want[(fn.__name__, mn)]
                if (isinstance(got, tuple) and isinstance(w, tuple) and len(got) == 4 and len(w) == 4 and got[0] in ("OPTIMAL", "FEASIBLE", "MAX_ITER", "INFEASIBLE", "UNBOUNDED")):
                    if not _same(got, w):
                        probs.append(f"{fn.__name__}(minimize={mn}) on shared inputs after earlier calls gives {got}, a fresh call gives {w}")
                elif got != w:
                    probs.append(f"{fn.__name__}(minimize={mn}) on shared inputs: {got} vs fresh {w}")
                if (c, A, b) != snap:
                    probs.append(f"{fn.__name__}(minimize={mn}) modified its inputs: now c={c} A={A} b={b}")
                    c, A, b = copy.deepcopy(snap)
    return probs


# =============================================================================== H: instrumented runs (events)
_EV = {}


def _install_events():
    import solvor.simplex as S

    M = _M()
    M._install_trace()
    if getattr(S._phase2, "_c03_ev", False):
        return
    piv0, p2, p1 = S._pivot, S._phase2, S._phase1

    def pivot(matrix, m, row, col, eps):
        ev = _EV
        if ev.get("on"):
            if not ev.get("in_p2"):
                ev["driveout_pivot"] = ev.get("driveout_pivot", 0) + 1
            else:
                if abs(matrix[row][-1]) <= 1e-12:
                    ev["degenerate_pivot"] = ev.get("degenerate_pivot", 0) + 1
                ratios = [(matrix[i][-1] / matrix[i][col], i) for i in range(m) if matrix[i][col] > eps]
                if ratios:
                    mn = min(r for r, _ in ratios)
                    tied = [i for r, i in ratios if abs(r - mn) <= 1e-9 * (1 + abs(mn))]
                    if len(tied) > 1:
                        ev["ratio_tie"] = ev.get("ratio_tie", 0) + 1
                        if row != tied[0]:
                            ev["bland_tiebreak_decided"] = ev.get("bland_tiebreak_decided", 0) + 1
        return piv0(matrix, m, row, col, eps)

    def phase2(matrix, basis, basis_set, m, eps, max_iter):
        ev = _EV
        ev["in_p2"] = True
        try:
            r = p2(matrix, basis, basis_set, m, eps, max_iter)
        finally:
            ev["in_p2"] = False
        if ev.get("on"):
            ev.setdefault("p2_calls", []).append((r[0].name, r[1], ev.get("in_p1", False)))
        return r

    def phase1(matrix, basis, basis_set, m, n, eps, max_iter):
        ev = _EV
        ev["in_p1"] = True
        try:
            r = p1(matrix, basis, basis_set, m, n, eps, max_iter)
        finally:
            ev["in_p1"] = False
        if ev.get("on") and r[0].name == "OPTIMAL" and any(v >= n + m for v in r[3]):
            ev["art_left_basic"] = 1
        return r

    phase2._c03_ev = True
    pivot._c03_wrapped = True          # (so that C03._install_trace does not wrap the tracing _pivot a second time)
    S._pivot, S._phase2, S._phase1 = pivot, phase2, phase1


def events_of(case):
    """run solve_lp on the case with instrumentation; -> set of event names (empty on failure)"""
    M = _M()
    _install_events()
    _EV.clear(); _EV["on"] = True
    res = guarded(M._call_simplex, case, timeout=5)
    ev = dict(_EV); _EV.clear()
    if res[0] != "ok":
        return set()
    out = set(k for k in ("driveout_pivot", "degenerate_pivot", "ratio_tie", "bland_tiebreak_decided", "art_left_basic") if ev.get(k))
    calls = ev.get("p2_calls", [])
    inner = [c for c in calls if c[2]]
    final = [c for c in calls if not c[2]]
    if inner and inner[0][0] == "MAX_ITER":
        out.add("p1_limit_infeasible_yet" if res[1].status.name == "MAX_ITER" and not final else "p1_limit_but_feasible")
    if inner and inner[0][0] == "UNBOUNDED":
        out.add("p1_inner_unbounded")
    if inner and final and final[0][0] == "UNBOUNDED":
        out.add("unbounded_after_phase1")
    if inner and final and final[0][0] == "MAX_ITER" and final[0][1] > 0:
        out.add("p2_limit_after_phase1")
    if inner and inner[0][0] == "OPTIMAL" and inner[0][1] == 0:
        out.add("phase1_zero_pivots")
    if sum(c[1] for c in calls) >= 8:
        out.add("long_run")
    return out


EVENTS = ["driveout_pivot", "degenerate_pivot", "ratio_tie", "bland_tiebreak_decided", "art_left_basic", "p1_limit_infeasible_yet",
          "p1_limit_but_feasible", "p1_inner_unbounded", "unbounded_after_phase1", "p2_limit_after_phase1", "phase1_zero_pivots", "long_run"]


def gen_dependent_neg(rng):
    """two or three linearly dependent '>=' rows (negative rhs, both need an artificial), tight together: one artificial stays basic at
    level 0 after phase 1 and cannot be driven out"""
    n = rng.choice([1, 2, 2, 3])
    r = [rng.choice([1, 1, 2, 3, 5, 7]) for _ in range(n)]
    t = rng.randint(1, 6)
    A, b = [], []
    for f in rng.sample([1, 2, 3, 5], rng.choice([2, 2, 3])):
        A.append([-f * a for a in r]); b.append(-f * t)
    for _ in range(rng.choice([0, 1, 1, 2])):
        q = [rng.randint(-3, 5) for _ in range(n)]
        A.append(q); b.append(rng.randint(0, 9))
    if rng.random() < 0.5:
        order = list(range(len(A))); rng.shuffle(order)
        A = [A[i] for i in order]; b = [b[i] for i in order]
    return {"c": [rng.randint(-3, 5) for _ in range(n)], "A": A, "b": b, "minimize": rng.random() < 0.6, "max_iter": None}


def _ev_work(case):
    return sorted(events_of(case))


def event_search(ctx, pool_size, per_event):
    """sample a pool from the small generators (plus max_iter corners), keep up to `per_event` cases for each internal event"""
    M = _M()
    pool = []
    for _ in range(pool_size):
        u = ctx.rng.random()
        case = M.gen_lp(ctx.rng) if u < 0.45 else (M.gen_lp_inexact(ctx.rng) if u < 0.9 else gen_dependent_neg(ctx.rng))
        if ctx.rng.random() < 0.3:
            case["max_iter"] = ctx.rng.randint(1, 9)
        pool.append(case)
    evs = pmap(_ev_work, pool, chunksize=64)
    chosen, have = [], {e: 0 for e in EVENTS}
    for case, ev in zip(pool, evs):
        rare = [e for e in ev if have[e] < per_event]
        if rare:
            for e in ev:
                have[e] += 1
            chosen.append({**case, "family": "event:" + "+".join(ev)})
    for e in EVENTS:
        ctx.count("simplex_events_selected", e, have[e])
    return chosen


# ---- interior point: break-down of the iterate
_IPM_EV = {}


def _install_ipm_events():
    import solvor.interior_point as P

    if getattr(P._solve_newton, "_c03_ev", False):
        return
    orig = P._solve_newton

    def newton(A_aug, x, z, rb, rc, xz, m, n_total, eps):
        ev = _IPM_EV
        if ev.get("on"):
            ev["calls"] = ev.get("calls", 0) + 1
            if ev["calls"] % 2 == 1:        # predictor call = top of an iteration
                vals = list(x) + list(z)
                fin = all(math.isfinite(v) for v in vals) and all(math.isfinite(v) for v in rb)
                ev.setdefault("trace", []).append((max(abs(v) for v in vals) if fin else float("inf"), fin))
        return orig(A_aug, x, z, rb, rc, xz, m, n_total, eps)

    newton._c03_ev = True
    P._solve_newton = newton


def ipm_break_iter(case):
    """iterations (0-based, top of the loop) at which the iterate changes regime: first non-finite value, first magnitude > 1e100 /
    > 1e300, and every collapse (max |x|,|z| dropping by a factor > 1e20 from one iteration to the next, e.g. after an overflow all
    components are clamped to eps).  Empty list if the run is smooth."""
    import warnings

    from solvor.interior_point import solve_lp_interior

    _install_ipm_events()
    _IPM_EV.clear(); _IPM_EV["on"] = True
    with warnings.catch_warnings():
        warnings.simplefilter("ignore")
        guarded(solve_lp_interior, list(case["c"]), [list(r) for r in case["A"]], list(case["b"]), minimize=case["minimize"], max_iter=70, timeout=10)
    tr = _IPM_EV.get("trace", [])
    _IPM_EV.clear()
    ev = []
    for thr in (1e100, 1e300):
        k = next((i for i, (v, f) in enumerate(tr) if f and v > thr), None)
        if k is not None:
            ev.append(k)
    k = next((i for i, (v, f) in enumerate(tr) if not f), None)
    if k is not None:
        ev.append(k)
    for i in range(1, len(tr)):
        if tr[i - 1][0] > 1e20 * max(tr[i][0], 1e-300):
            ev.append(i)
    return sorted(set(ev))


def gen_ipm_unb(rng):
    """small LPs that tend to diverge: zero columns with improving cost, parallel rows, negative right-hand sides"""
    n = rng.choice([2, 2, 3, 3]); m = rng.choice([1, 1, 2, 2, 3])
    A = [[rng.randint(-3, 3) if rng.random() < 0.7 else 0 for _ in range(n)] for _ in range(m)]
    minimize = rng.random() < 0.5
    c = [rng.randint(-3, 3) for _ in range(n)]
    if rng.random() < 0.7:
        j = rng.randrange(n)
        for r in A:
            r[j] = 0 if rng.random() < 0.7 else -abs(r[j])
        c[j] = -rng.randint(1, 3) if minimize else rng.randint(1, 3)
    if m > 1 and rng.random() < 0.3:
        A[1] = [2 * a for a in A[0]]
    b = [rng.choice([rng.randint(-4, -1), rng.randint(-4, 6)]) for _ in range(m)]
    return {"c": c, "A": A, "b": b, "minimize": minimize}


def _ipm_sweep_items(case_kind):
    case, kind = case_kind
    ts = ipm_break_iter(case)
    its = set(range(0, 41)) if kind == "full" else set()
    near = set()
    for t in ts:
        near |= {k for k in range(t - 2, t + 3) if k >= 0}
    return [({**case, "max_iter": k}, f"sweep-{kind}" + ("-break" if k in near else "")) for k in sorted(its | near)], ts


# =============================================================================== driver
def run_hard(ctx):
    import time
    M = _M()
    _t = [time.time()]

    def lap(name):
        ctx.extra.setdefault("hard_timing_s", {})[name] = round(time.time() - _t[0], 1); _t[0] = time.time()

    thorough = ctx.tier == "thorough"
    ctx.notes += [
        "round-2 families (HARDENING.md): I container/number types, S sizes (by-construction verdicts, optimum certified by a verified dual point; "
        "small-n / small-m exact enumeration up to 129 rows / 257 columns), M magnitudes (2^k row/objective scaling, rhs up to 2^44+1, decimal "
        "data, eps-threshold probes), O max_iter / eps sweeps for both solvers, A aliasing and call sequences, H event-directed selection "
        "(histograms simplex_events_selected, ipm_break_iter); L (labels) does not apply to the LP API",
        "decimal family: the LP denoted exactly by the floats and the LP intended in decimals can differ in verdict by 1e-17 effects; an answer "
        "is accepted if it obeys the property for either exact LP (counted in 'decimal_ambiguous'), strictly judged when both agree",
        "eps-threshold probes: data placed within 100x of eps = 1e-10 where the code compares INPUT data with eps; the documented default is the "
        "reference (strict corr_check against the eps = 1e-10 model); the verdict oracle accepts the exact verdict of the LP with those "
        "data rounded to 0 as well (tolerance of the property)",
        "events 'art_left_basic' and 'p1_inner_unbounded' are unreachable in exact arithmetic (every row owns a slack column, so an artificial can "
        "always be driven out; the phase-1 objective is bounded below) - they are monitored because seeing one would expose a float anomaly",
        "interior point break-down sweep: an instrumented run locates regime changes of the iterate (first magnitude > 1e100 / 1e300, first "
        "non-finite value, collapse by > 1e20 after an overflow is clamped to eps); max_iter is swept +-2 around each of them (histogram ipm_break_iter)",
        "large instances (> 10 rows/columns) are not sent through the Coq model (vm_compute cost); they are judged by construction + verified dual",
    ]
    # ------------------------------------------------------------------ S: big, by construction
    big_cases = ([gen_square(ctx.rng, 17, 24) for _ in range(ctx.budget(24, 200))]
                 + [gen_square(ctx.rng, 30, 45) for _ in range(ctx.budget(70, 600))]
                 + [gen_square(ctx.rng, 60, 70) for _ in range(ctx.budget(5, 60))]
                 + [gen_known_tall(513)] + ([gen_known_tall(1025), gen_square(ctx.rng, 100, 110)] if thorough else []))
    big_cases.sort(key=lambda k: -len(k["b"]))          # long jobs first
    for case, (out, bad) in zip(big_cases, pmap(_work_construct, big_cases, chunksize=1)):
        ctx.evaluations += 1
        ctx.count("hard_family", case["family"])
        ctx.count("hard_big_status", f"{case['expect']}->{out.get('status', 'FAIL')}")
        if bad:
            ctx.violation(f"solve_lp ({len(case['b'])} rows x {len(case['c'])} variables, {case['family']}): {bad}",
                          {"kind": "simplex", **{k: case[k] for k in ("c", "A", "b", "minimize", "max_iter")}, "expect": case["expect"],
                           "impl": {k: out.get(k) for k in ("status", "objective", "iterations")}})
        elif out.get("pivots"):
            ctx.nontriv("big" + str(hash(json.dumps(case["A"]))))
    lap("big")
    # ------------------------------------------------------------------ S: tall (small n) with its own enumeration oracle
    tall = [gen_tall(ctx.rng, rows) for rows in ([17] * 5 + [33] * 4 + [65] * 2 + ([129] if thorough else [])) * (4 if thorough else 1)]
    for case, (out, orc, bad) in zip(tall, pmap(_work_small_n, tall, chunksize=1)):
        ctx.evaluations += 1
        ctx.count("hard_family", case["family"])
        ctx.count("hard_tall_status", out.get("status", "FAIL") + "/" + orc[0])
        if bad:
            ctx.violation(f"solve_lp ({len(case['b'])} rows x {len(case['c'])} variables): {bad}",
                          {"kind": "simplex", **{k: case[k] for k in ("c", "A", "b", "minimize", "max_iter")}, "impl": out, "exact_verdict": [str(v) for v in orc]})
    lap("tall")
    # ------------------------------------------------------------------ small-size families through oracle + Coq
    std = [gen_wide(ctx.rng, cols) for cols in ([17] * 5 + [33] * 4 + [65] * 3 + [129] * 2 + [257]) * (3 if thorough else 1)]
    std += [gen_scaled(ctx.rng) for _ in range(ctx.budget(140, 2500))]
    std += [{**k, "max_iter": None, "family": "magnitude-fixed"} for k in MAGNITUDE_FIXED]
    std += [gen_magnitude_rows(ctx.rng) for _ in range(ctx.budget(40, 400))]
    std += [gen_decimal(ctx.rng) for _ in range(ctx.budget(60, 800))]
    # O: max_iter sweep on runs with several pivots; eps sweep
    sweep_bases = []
    for _ in range(400):
        k = M.gen_lp_inexact(ctx.rng) if ctx.rng.random() < 0.5 else M.gen_lp(ctx.rng)
        k["max_iter"] = None
        o = M.run_simplex(k)
        if len(o.get("pivots", [])) >= 3:
            sweep_bases.append((k, len(o["pivots"])))
        if len(sweep_bases) >= ctx.budget(8, 60):
            break
    for k, npiv in sweep_bases:
        for mi in range(0, min(npiv + 3, 26)):
            std.append({**k, "max_iter": mi, "family": "maxiter-sweep"})
    for _ in range(ctx.budget(40, 400)):
        k = M.gen_lp(ctx.rng)
        k["eps"] = ctx.rng.choice([1e-12, 1e-9, 1e-8, 1e-7, 1e-6]); k["family"] = "eps-sweep"
        std.append(k)
    std += event_search(ctx, ctx.budget(2500, 20000), ctx.budget(8, 40))
    probes = [{**p, "max_iter": None, "family": "eps-probe", "probe": True} for p in EPS_PROBES]
    probes += [{**p, "minimize": not p["minimize"], "c": [-v for v in p["c"]], "max_iter": None, "family": "eps-probe", "probe": True} for p in EPS_PROBES]
    std += probes
    # mid-size by-construction instances also through the model and the proved certificate checker (no enumeration oracle there)
    mids = [{**gen_square(ctx.rng, 7, 10), 'mid': True} for _ in range(ctx.budget(10, 120))]
    lap("std-gen")
    results = pmap(M._work, std) + [(o, (k["expect"],), b) for k, (o, b) in zip(mids, pmap(_work_construct, mids, chunksize=2))]
    std += mids
    lap("std-work")
    groups = {}
    for case, (out, orc, bad) in zip(std, results):
        ctx.evaluations += 1
        ctx.count("hard_family", case.get("family", "?").split(":")[0])
        if case.get("family", "").startswith("event:"):
            for e in case["family"][6:].split("+"):
                ctx.count("simplex_events_judged", e)
        if bad and not case.get("alt") and not case.get("probe") and "expect" not in case and max([abs(v) for v in case["b"]] + [0]) >= 1e9:
            # right-hand sides >= 1e9: an LP that is infeasible (or differs) by less than the property's relative tolerance 1e-7 * (1 + |b_i|)
            # is judged against the LP with every b_i relaxed by that tolerance as well; the answer must obey the property for one of them
            relaxed = [Fraction(v) + Fraction(1, 10 ** 7) * (1 + abs(Fraction(v))) for v in case["b"]]
            orc2 = M.oracle_lp([Fraction(v) for v in case["c"]], [[Fraction(a) for a in r] for r in case["A"]], relaxed, case["minimize"])
            ok2 = M.judge_simplex({**case, "b": [float(v) for v in relaxed]}, out, orc2) is None
            if not ok2 and orc[0] == "INFEASIBLE" and orc2[0] == "OPTIMAL" and out.get("status") == "OPTIMAL":
                # infeasible only by less than the tolerance: which optimum is 'the' optimum is not defined within 1e-7 relative;
                # the point must still satisfy every ORIGINAL row and x >= 0 within the relative tolerance and the objective must be c.x
                x = out["solution"]
                rows_ok = all(sum(a * v for a, v in zip(row, x)) <= bi + M.TOL * (1 + abs(bi) + sum(abs(a * v) for a, v in zip(row, x)))
                              for row, bi in zip(case["A"], case["b"])) and all(v >= -M.TOL for v in x)
                cx = sum(a * v for a, v in zip(case["c"], x))
                ok2 = rows_ok and abs(cx - out["objective"]) <= M.TOL * (1 + abs(cx))
            if ok2:
                ctx.count("tolerance_ambiguous_huge_rhs", orc[0] + "/" + orc2[0])
                bad = None
        if bad and (case.get("alt") or case.get("probe")):
            alt = case.get("alt") or _probe_alt(case)
            orc2 = M.oracle_lp(alt["c"], alt["A"], alt["b"], case["minimize"])
            case2 = {**case, **{k: [float(v) for v in alt[k]] if k != "A" else [[float(a) for a in r] for r in alt[k]] for k in ("c", "A", "b")}}
            bad2 = M.judge_simplex(case2, out, orc2)
            if bad2 is None or (orc2[0] != orc[0] and out.get("status") == orc2[0] and out.get("status") != "OPTIMAL"):
                ctx.count("decimal_ambiguous" if case.get("alt") else "probe_ambiguous", orc[0] + "/" + orc2[0])
                bad = None
        if bad:
            pub = {k: case[k] for k in ("c", "A", "b", "minimize", "max_iter")}
            if "eps" in case:
                pub["eps"] = case["eps"]
            small = pub
            if not case.get("alt") and not case.get("probe") and "expect" not in case and len(case["c"]) <= 8:
                small = M.shrink(pub, M._bad)
                o2, r2, b2 = M._work(small)
                out, orc, bad = o2, r2, (b2 or bad)
            ctx.violation(f"solve_lp [{case.get('family')}]: {bad}", {"kind": "simplex", **small, "impl": out, "exact_verdict": [str(v) for v in orc]})
            continue
        if "fail" in out:
            continue
        if out["pivots"]:
            ctx.nontriv(json.dumps({k: case[k] for k in ("c", "A", "b", "minimize", "max_iter")}, sort_keys=True, default=str))
        ctx.traces_validated += 1
        mag = max([abs(v) for v in case["b"]] + [abs(v) for v in case["c"]] + [abs(a) for r in case["A"] for a in r] + [0])
        # right-hand sides that stay huge after the code's row equilibration (|b_i| / max_j |A_ij| > 1e6): the rhs column carries
        # round-off far above eps, the pivot trace of the exact model is no reference there - public result only
        rel = max([abs(bi) / (max([abs(a) for a in r] + [0]) or 1.0) for r, bi in zip(case["A"], case["b"])] + [0])
        key = ("probe" if case.get("probe") else ("mid" if case.get("mid") else ("hugerhs" if rel > 1e6 else ("big" if mag > 1e4 else "std"))), case.get("eps"))
        groups.setdefault(key, []).append((case, out, orc))
    unexplained = []
    COMB = "(fun k => corr_robust_check eps_default tol7 k && (cert_case_check k || negb (robust_check k)))"
    std_items = groups.get(("std", None), [])
    terms = [M.coq_case(c, o) for c, o, _ in std_items]
    failing = ctx.coq_check("hall", M.IMPORTS, "lp_case", COMB, terms, shard=40)
    if failing:      # diagnose: which of the two lemmas
        sub = [terms[i] for i in failing]
        f1 = set(ctx.coq_check("hcorr", M.IMPORTS, "lp_case", "corr_robust_check eps_default tol7", sub, shard=40))
        unexplained += [("corr" if j in f1 else "cert", std_items[i]) for j, i in enumerate(failing)]
    # magnitudes > 1e4: the float round-off is no longer small against the ABSOLUTE eps of the code (and of the certificate checker's
    # tolerance): only the public result (status, objective within relative 1e-7) is compared with the model; the oracle judges as always
    big_items = groups.get(("big", None), [])
    # (since the code equilibrates its rows - commit 96ecc58 - the pivot trace is comparable again: full correspondence)
    failing = ctx.coq_check("hmag", M.IMPORTS, "lp_case", "corr_robust_check eps_default tol7", [M.coq_case(c, o) for c, o, _ in big_items], shard=40)
    unexplained += [("corr", big_items[i]) for i in failing]
    hr_items = groups.get(("hugerhs", None), [])
    failing = ctx.coq_check("hrhs", M.IMPORTS, "lp_case", "corr_public_check eps_default tol7", [M.coq_case(c, o) for c, o, _ in hr_items], shard=40)
    unexplained += [("corr", hr_items[i]) for i in failing]
    # mid-size: model + proved certificate checker are the only judges of optimality besides the verified dual point
    mid_items = groups.get(("mid", None), [])
    failing = ctx.coq_check("hmid", M.IMPORTS, "lp_case", "(fun k => corr_check eps_default tol7 k && cert_case_check k)",
                            [M.coq_case(c, o) for c, o, _ in mid_items], shard=2)
    unexplained += [("corr/cert", mid_items[i]) for i in failing]
    eps_items = [(eps, it) for (kind, eps), items in sorted(groups.items(), key=str) if kind == "std" and eps is not None for it in items]
    terms = ["(" + cq(Fraction(e)) + ", " + M.coq_case(c, o) + ")" for e, (c, o, _) in eps_items]
    failing = ctx.coq_check("heps", M.IMPORTS, "Q * lp_case", "(fun p => corr_robust_check (fst p) tol7 (snd p))", terms, shard=40)
    unexplained += [("corr", eps_items[i][1]) for i in failing]
    probe_items = groups.get(("probe", None), [])
    failing = ctx.coq_check("hprobe", M.IMPORTS, "lp_case", "corr_check eps_default tol7", [M.coq_case(c, o) for c, o, _ in probe_items], shard=40)
    unexplained += [("corr", probe_items[i]) for i in failing]
    lap("std-coq")
    # ------------------------------------------------------------------ I and A (Python side)
    ia = [M.gen_lp(ctx.rng) for _ in range(ctx.budget(40, 400))] + [
        {"c": [1, 2, 3], "A": [[0, 1, 2], [3, 4, 5], [1, 0, 1]], "b": [4, 20, 3], "minimize": False, "max_iter": None},
        {"c": [1, 0], "A": [[1, 2], [-1, 0]], "b": [1, 0], "minimize": True, "max_iter": None}]
    for case, probs in zip(ia, pmap(check_types, ia)):
        ctx.evaluations += 1
        ctx.count("hard_family", "types")
        for p in probs[:1]:
            ctx.violation("input container / number type changes the answer: " + p, {"kind": "types", **{k: case[k] for k in ("c", "A", "b", "minimize")}})
    for case, probs in zip(ia, pmap(check_alias, ia)):
        ctx.evaluations += 1
        ctx.count("hard_family", "alias")
        for p in probs[:1]:
            ctx.violation("aliasing / call sequence: " + p, {"kind": "alias", **{k: case[k] for k in ("c", "A", "b", "minimize")}})
    lap("types-alias")
    # ------------------------------------------------------------------ O + H: interior point sweeps
    bases = [({"c": [1, 1], "A": [[1, 2], [3, 1]], "b": [4, 6], "minimize": False}, "full"),
             ({"c": [-1, -1], "A": [[-1, 1]], "b": [1], "minimize": True}, "full"),
             ({"c": [1], "A": [[1], [-1]], "b": [1, -2], "minimize": True}, "full")]
    bases += [(M.gen_ipm(ctx.rng)[0], "full") for _ in range(ctx.budget(5, 40))]
    bases += [(gen_ipm_unb(ctx.rng), "break") for _ in range(ctx.budget(60, 600))]
    items = []
    for lst, t in pmap(_ipm_sweep_items, bases, chunksize=2):
        for k in (t or ["none"]):
            ctx.count("ipm_break_iter", k)
        items += lst
    for k in range(ctx.budget(30, 300)):     # eps option
        case, kind = M.gen_ipm(ctx.rng)
        items.append(({**case, "eps": ctx.rng.choice([1e-10, 1e-6, 1e-4])}, "eps-" + kind))
    gate_terms, gate_meta = [], []
    for (case, kind), (out, orc, bad) in zip(items, pmap(M._work_ipm, items)):
        ctx.evaluations += 1
        ctx.count("hard_family", "ipm-" + kind.split("-")[0])
        ctx.count("ipm_sweep_status", out.get("status", "FAIL") + "/" + orc[0])
        if bad:
            ctx.violation(f"solve_lp_interior [{kind}]: {bad}", {"kind": "ipm", **case, "impl": {k: v for k, v in out.items() if k != "xyz"},
                                                               "exact_verdict": [str(v) for v in orc]})
        elif out.get("status") == "OPTIMAL" and out.get("xyz"):
            gate_terms.append(M.coq_ipm_case(case, out)); gate_meta.append((case, out))
    gate_bad = ctx.coq_check("hgate", M.IMPORTS, "ipm_case", "gate_case", gate_terms, shard=60)
    lap("ipm")
    # ------------------------------------------------------------------ unexplained disagreements
    if (unexplained or gate_bad) and not ctx.violations:
        for what, (case, out, orc) in unexplained[:2]:
            pub = {k: case[k] for k in ("c", "A", "b", "minimize", "max_iter")}
            ctx.violation(f"{'correspondence' if what == 'corr' else 'certificate'} lemma (round-2 family {case.get('family')}): model "
                          "SV.C03.Simplex and solvor.simplex.solve_lp differ / the proved checker rejects the answer, while the oracle accepts it",
                          {"kind": "simplex", **pub, "eps": case.get("eps"), "impl": out, "lemma": "Cases/C03/h*_*.v corr"}, no_input=True)
        for i in gate_bad[:1]:
            case, out = gate_meta[i]
            ctx.violation("gate lemma (round-2 sweep): OPTIMAL answer but Ipm.gate is false on the final iterate",
                          {"kind": "ipm", **case, "impl": {k: v for k, v in out.items() if k != "xyz"}}, no_input=True)


def _probe_alt(case):
    """the LP with every datum of magnitude < 1e-8 rounded to 0 and every other datum rounded to 8 decimals"""
    def r(v):
        f = Fraction(round(v * 10 ** 8), 10 ** 8)
        return f
    return {"c": [r(v) for v in case["c"]], "A": [[r(a) for a in row] for row in case["A"]], "b": [r(v) for v in case["b"]]}
