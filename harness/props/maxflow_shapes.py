"""Input-shape classes of HARDENING.md for max_flow (helper of harness/props/C08.py).

L  label schemes: a case keeps its JSON labels (the Coq model sees first-occurrence numbers anyway); an optional
   case["variant"] = {"labels": scheme, "perm": [...], "mapping": ..., "adj": ..., "entry": ...} tells `materialize`
   how to build the actual call: node i (first-occurrence order) gets label make_label(scheme, perm[i]), constructed
   FRESH for every occurrence (dict key, every neighbour entry, the source / sink arguments are equal but not identical
   objects).  Pools contain None, False / 0 / 0.0 (one of them per scheme: they are equal as dict keys), "", (), b"",
   frozenset(), inf, tuples, strings that look like other labels, user objects with __eq__/__hash__, ints >= 257.
I  containers: adjacency as list / tuple, entries as tuple / list with 2-4 fields, graph as dict / OrderedDict /
   defaultdict(list) / read-only MappingProxyType.
S  gen_big: structured large instances whose maximum flow is known by construction.
M  gen_magnitude: small graphs with capacities 2^31 .. 10^18, 2^53 +- 1, huge + tiny mixes; scaling by 2^k.
A  `materialize` is also used to take the snapshot against which the caller's graph is compared after the call.
"""
import collections
import types


class Lbl:
    """user-defined hashable label: equal by value, a new object every time"""
    __slots__ = ("k",)

    def __init__(self, k):
        self.k = k

    def __eq__(self, o):
        return isinstance(o, Lbl) and o.k == self.k

    def __hash__(self):
        return hash(("Lbl", self.k))

    def __repr__(self):
        return f"Lbl({self.k})"


def _special(zero):
    # every entry distinct under == ; `zero` is the one of False / 0 / 0.0 used by the scheme
    return [lambda: None, lambda: zero, lambda: "", lambda: (), lambda: frozenset(), lambda: b"", lambda: float("inf"),
            lambda: (None,), lambda: "None", lambda: -1, lambda: "0", lambda: (0,), lambda: 2.5, lambda: Lbl(0),
            lambda: "s", lambda: "t"]


POOLS = {
    "special_false": _special(False),
    "special_int0": _special(0),
    "special_float0": _special(0.0),
    "mixed": [lambda: None, lambda: 1, lambda: "1", lambda: (1,), lambda: 1.5, lambda: Lbl(1), lambda: frozenset({1}),
              lambda: b"1", lambda: True and 7, lambda: "", lambda: ("a", None), lambda: -2, lambda: "node", lambda: Lbl("x"),
              lambda: 10 ** 9 + 7, lambda: (2, 3)],
}
SCHEMES = tuple(POOLS) + ("fresh",)


def make_label(scheme, j):
    """a NEW object on every call (where the type allows it)"""
    if scheme == "fresh":
        k = j % 5
        if k == 0:
            return (j, "n")                       # tuple built at call time
        if k == 1:
            return 1000 + j * 7                   # int >= 257 produced by arithmetic: not the cached small ints
        if k == 2:
            return "".join(["node-", str(j)])     # string built at call time
        if k == 3:
            return frozenset((j, -j - 1))
        return Lbl(j)
    return POOLS[scheme][j]()


for _name, _pool in POOLS.items():   # distinct under == (they are dict keys of one graph)
    _vals = [f() for f in _pool]
    assert len({v for v in _vals}) == len(_vals), _name


def first_occurrence(case):
    idx = {}
    for u, adj in case["graph"]:
        idx.setdefault(u, len(idx))
        for e in adj:
            idx.setdefault(e[0], len(idx))
    idx.setdefault(case["source"], len(idx))
    idx.setdefault(case["sink"], len(idx))
    return idx


def random_variant(rng, case, force_labels=None):
    n = len(first_occurrence(case))
    v = {}
    scheme = force_labels or rng.choice(SCHEMES + (None, None))
    if scheme is not None and scheme != "fresh" and n > len(POOLS[scheme]):
        scheme = "fresh"
    if scheme == "fresh":
        perm = rng.sample(range(3 * n + 5), n)
        v.update(labels=scheme, perm=perm)
    elif scheme is not None:
        perm = rng.sample(range(len(POOLS[scheme])), n)
        if rng.random() < 0.7 and 0 not in perm:       # None is entry 0 of every pool: usually present, anywhere
            perm[rng.randrange(n)] = 0
        if rng.random() < 0.5 and 1 not in perm and n >= 2:
            k = rng.randrange(n)
            if perm[k] != 0:
                perm[k] = 1
        v.update(labels=scheme, perm=perm)
    v["mapping"] = rng.choice(["dict", "dict", "OrderedDict", "defaultdict", "proxy"])
    v["adj"] = rng.choice(["list", "list", "tuple"])
    v["entry"] = rng.choice(["tuple", "tuple", "list"])
    return v


def labeller(case):
    """JSON label -> the actual label of the call (a new object on every use)"""
    v = case.get("variant") or {}
    idx = first_occurrence(case)
    scheme, perm = v.get("labels"), v.get("perm")

    def lab(x):
        return make_label(scheme, perm[idx[x]]) if scheme else x
    return lab


def materialize(case):
    """-> (graph object, source, sink, back) ; back maps an actual label to the case's JSON label"""
    v = case.get("variant") or {}
    idx = first_occurrence(case)
    lab = labeller(case)

    back = {lab(x): x for x in idx}
    mk_adj = tuple if v.get("adj") == "tuple" else list
    mk_entry = list if v.get("entry") == "list" else tuple
    items = [(lab(u), mk_adj(mk_entry([lab(e[0])] + list(e[1:])) for e in adj)) for u, adj in case["graph"]]
    kind = v.get("mapping", "dict")
    if kind == "OrderedDict":
        g = collections.OrderedDict(items)
    elif kind == "defaultdict":
        g = collections.defaultdict(list, items)
    elif kind == "proxy":
        g = types.MappingProxyType(dict(items))
    else:
        g = dict(items)
    return g, lab(case["source"]), lab(case["sink"]), back


def same_graph(g, h):
    """the caller's object after the call against a freshly built equal one: same type, keys in the same order, same
    adjacency containers (type and content)"""
    if type(g) is not type(h):
        return f"type changed to {type(g).__name__}"
    kg, kh = list(g.keys()), list(h.keys())
    if kg != kh:
        return f"keys changed: {kg!r} (expected {kh!r})"
    for k in kh:
        if type(g[k]) is not type(h[k]) or list(map(list, g[k])) != list(map(list, h[k])) \
                or any(type(a) is not type(b) for a, b in zip(g[k], h[k])):
            return f"adjacency of {k!r} changed: {g[k]!r} (expected {h[k]!r})"
    return None


# ---------------------------------------------------------------- S: large structured instances, answer by construction
BIG_SIZES = (17, 65, 257, 1025, 2049, 4097)


BIG_KINDS = ("chain", "parallel", "fan", "complete_matching", "hidden_matching", "disjoint_paths", "chain_with_cycle")


def gen_big(rng, thorough=False, kind=None):
    """-> case with case["expected"] = the maximum flow value known by construction and case["big"] = kind"""
    kind = kind or rng.choice(BIG_KINDS)
    c = lambda: rng.choice([1, 2, 3, 5, 9])  # noqa: E731
    if kind == "chain":
        n = rng.choice(BIG_SIZES)
        caps = [c() + 1 for _ in range(n + 1)]
        caps[rng.randrange(n + 1)] = 1 if rng.random() < 0.5 else caps[0]
        names = ["s"] + list(range(n)) + ["t"]
        arcs = [(a, b, x) for (a, b), x in zip(zip(names, names[1:]), caps)]
        if rng.random() < 0.5:
            arcs.reverse()          # read from the sink end: reverse keys are registered before the forward ones
        exp = min(caps)
    elif kind == "parallel":
        k = rng.choice((17, 257, 2049, 65537) if thorough or rng.random() < 0.4 else (17, 257, 2049))
        caps = [rng.choice([0, 1, 1, 2, 3]) for _ in range(k)]
        if rng.random() < 0.5:
            m_cap = max(sum(caps) - 1, 0)
            arcs = [("s", "m", x) for x in caps] + [("m", "t", m_cap)]
            exp = min(sum(caps), m_cap)
        else:
            arcs = [("s", "t", x) for x in caps]
            exp = sum(caps)
    elif kind == "fan":
        k = rng.choice((17, 65, 257, 1025, 2049) if thorough else (17, 65, 257, 1025))
        pairs = [(c(), c()) for _ in range(k)]
        arcs = [("s", i, a) for i, (a, _) in enumerate(pairs)] + [(i, "t", b) for i, (_, b) in enumerate(pairs)]
        if rng.random() < 0.5:
            rng.shuffle(arcs)
        exp = sum(min(a, b) for a, b in pairs)
    elif kind == "complete_matching":
        k = rng.choice((17, 33))
        arcs = [("s", f"l{i}", 1) for i in range(k)] + [(f"l{i}", f"r{j}", 1) for i in range(k) for j in range(k)] \
            + [(f"r{j}", "t", 1) for j in range(k)]
        exp = k
    elif kind == "hidden_matching":
        # sparse bipartite graph with a hidden perfect matching; the partner comes LAST in each list, so BFS's first
        # choices are wrong and the matching needs long chains of reverse residual arcs
        k = rng.choice((17, 33, 65, 129))
        perm = list(range(k))
        rng.shuffle(perm)
        arcs = [("s", f"l{i}", 1) for i in range(k)]
        for i in range(k):
            others = [perm[j] for j in range(i + 1, min(k, i + 1 + rng.choice([1, 2, 3])))]
            arcs += [(f"l{i}", f"r{j}", 1) for j in others + [perm[i]]]
        arcs += [(f"r{j}", "t", 1) for j in range(k)]
        exp = k
    elif kind == "disjoint_paths":
        k, L = rng.choice(((17, 65), (65, 17), (33, 33)))
        arcs, exp = [], 0
        for i in range(k):
            caps = [c() for _ in range(L + 1)]
            names = ["s"] + [f"p{i}_{j}" for j in range(L)] + ["t"]
            arcs += [(a, b, x) for (a, b), x in zip(zip(names, names[1:]), caps)]
            exp += min(caps)
    else:   # chain_with_cycle: a long cycle through the source and an unreachable long cycle
        n = rng.choice((65, 257, 1025))
        caps = [c() for _ in range(18)]
        names = ["s"] + [f"p{j}" for j in range(17)] + ["t"]
        arcs = [(a, b, x) for (a, b), x in zip(zip(names, names[1:]), caps)]
        cyc = ["s"] + [f"c{j}" for j in range(n)] + ["s"]
        arcs += [(a, b, 3) for a, b in zip(cyc, cyc[1:])]
        unr = [f"u{j}" for j in range(n)]
        arcs += [(a, b, 2) for a, b in zip(unr, unr[1:] + unr[:1])] + [(unr[0], "t", 4), ("t", "c0", 1)]
        exp = min(caps)
    adj, order = {}, []
    for u, v, x in arcs:
        if u not in adj:
            adj[u] = []
            order.append(u)
        adj[u].append([v, x])
    return {"graph": [[u, [[e[0], e[1]] for e in adj[u]]] for u in order], "source": "s", "sink": "t",
            "expected": exp, "big": kind}


# ---------------------------------------------------------------- M: magnitudes
BIG_CAPS = (2 ** 31, 2 ** 31 - 1, 10 ** 9, 2 ** 44 + 1, 2 ** 53 - 1, 2 ** 53, 2 ** 53 + 1, 2 ** 60, 10 ** 18, 2 ** 64 + 3)


def magnify(rng, case):
    """replace the capacities of a small case by huge / mixed ones (same structure)"""
    mode = rng.choice(["all_big", "mixed", "near", "scaled"])
    c = {k: v for k, v in case.items() if k != "variant"}
    if mode == "scaled":
        k = rng.choice([31, 53, 60, 64])
        c["graph"] = [[u, [[e[0], e[1] << k] + list(e[2:]) for e in adj]] for u, adj in case["graph"]]
        c["scaled_from"] = {"graph": case["graph"], "source": case["source"], "sink": case["sink"]}
        c["scale"] = 1 << k
        c["magnitude"] = mode
        return c
    base = rng.choice(BIG_CAPS)
    table = {}

    def m(x):
        if x == 0:
            return 0
        if mode == "all_big":
            return table.setdefault(x, rng.choice(BIG_CAPS))
        if mode == "near":      # differences of 1 at a huge scale
            return base + rng.choice([-1, 0, 0, 1, 2])
        return rng.choice([x, x, rng.choice(BIG_CAPS), base + x])          # huge and tiny mixed
    c["graph"] = [[u, [[e[0], m(e[1])] + list(e[2:]) for e in adj]] for u, adj in case["graph"]]
    c["magnitude"] = mode
    return c


# ---------------------------------------------------------------- W: work volume (iteration counts of the internal loops)
def gen_work(rng, loop, target):
    """moderate input size, MANY iterations of one internal loop, answer known by construction.
    loop = 'augmentations' (outer while), 'augmentations_fan', 'bfs_pops_path' (queue loop / path length),
    'bfs_pops_star' (queue loop / neighbour loop of one node).  case['work'] = counts by construction."""
    if loop == "augmentations":
        # spine s -> v0 -> v1 -> ...; spine node j feeds hub a_j, the hub feeds L_j leaves, each leaf has an arc into t.
        # every s-t path has its own unit bottleneck, so the number of augmentations is the value; BFS stays cheap because
        # exhausted groups are not entered again and group j is reached at depth j + 3
        L = rng.randint(8, 14) if target < 500 else rng.randint(60, 130) if target < 50000 else rng.randint(200, 250)
        G = -(-target // L) + rng.randint(0, 2)
        unit_at_leaf = rng.random() < 0.5
        arcs, exp = [("s", "v0", 0)], 0
        for j in range(G):
            Lj = L + rng.choice([0, 0, 1, -1])
            hubcap = Lj if rng.random() < 0.7 else Lj + 3
            arcs.append((f"v{j}", f"a{j}", hubcap))
            if j + 1 < G:
                arcs.append((f"v{j}", f"v{j + 1}", 0))
            for i in range(Lj):
                arcs.append((f"a{j}", f"m{j}_{i}", 1 if unit_at_leaf else 2))
                arcs.append((f"m{j}_{i}", "t", 2 if unit_at_leaf else 1))
            exp += Lj
        arcs = [(u, v, c if c else exp + 5) for u, v, c in arcs]       # spine arcs: more than the whole value
        work = {"augmentations": exp, "path_length": G + 3}
    elif loop == "augmentations_fan":
        k = target + rng.randint(0, 3)
        arcs = [("s", f"m{i}", 1) for i in range(k)] + [(f"m{i}", "t", 1) for i in range(k)]
        exp = k
        work = {"augmentations": k, "neighbours_scanned_one_node": k, "bfs_pops_one_search": k + 2}
    elif loop == "bfs_pops_path":
        n = target + rng.randint(0, 9)
        caps = [rng.choice([2, 3, 5]) for _ in range(n + 1)]
        caps[rng.randrange(n + 1)] = 1
        names = ["s"] + [f"p{j}" for j in range(n)] + ["t"]
        arcs = [(a, b, x) for (a, b), x in zip(zip(names, names[1:]), caps)]
        if rng.random() < 0.5:
            arcs.reverse()
        exp = 1
        work = {"bfs_pops_one_search": n + 2, "path_length": n + 2}
    else:   # bfs_pops_star: one node with `n` neighbours, nearly all dead ends
        n = target + rng.randint(0, 9)
        live = sorted(rng.sample(range(n), 3))
        arcs = [("s", f"d{i}", 1 + (i % 3)) for i in range(n)] + [(f"d{i}", "t", 2) for i in live]
        exp = sum(min(1 + (i % 3), 2) for i in live)
        work = {"bfs_pops_one_search": n + 1, "neighbours_scanned_one_node": n}
    adj, order = {}, []
    for u, v, x in arcs:
        if u not in adj:
            adj[u] = []
            order.append(u)
        adj[u].append([v, x])
    return {"graph": [[u, adj[u]] for u in order], "source": "s", "sink": "t", "expected": exp, "big": "work:" + loop, "work": work}


# ---------------------------------------------------------------- A2: in-place edits of the caller's graph between calls
def edit_in_place(rng, case, g, lab):
    """apply ONE random edit to the JSON case and, in place, to the live graph object g (adjacency lists must be lists).
    Only existing nodes are used, so the first-occurrence numbering of the surviving nodes of g stays what it was.
    -> description of the edit"""
    nodes = list(first_occurrence(case))
    rows = case["graph"]
    with_arcs = [i for i, (_, adj) in enumerate(rows) if adj]
    r = rng.random()
    mk_entry = type(next((e for k in g for e in g[k]), ()))
    if r < 0.4 and with_arcs:                       # replace one element: same dict, same list, same length
        i = rng.choice(with_arcs)
        j = rng.randrange(len(rows[i][1]))
        e = rows[i][1][j]
        new = [rng.choice(nodes), rng.choice([0, 1, 2, 3, e[1] + 1])] + list(e[2:])
        rows[i][1][j] = new
        g[lab(rows[i][0])][j] = mk_entry([lab(new[0])] + new[1:])
        return f"replaced arc {j} of {rows[i][0]!r} by {new}"
    if r < 0.65 and rows:                           # append an arc
        i = rng.randrange(len(rows))
        new = [rng.choice(nodes), rng.choice([1, 2, 3])] + ([1] if rows[i][1] and len(rows[i][1][0]) > 2 else [])
        rows[i][1].append(new)
        g[lab(rows[i][0])].append(mk_entry([lab(new[0])] + new[1:]))
        return f"appended arc {new} to {rows[i][0]!r}"
    if r < 0.85 and with_arcs:                      # delete an arc
        i = rng.choice(with_arcs)
        j = rng.randrange(len(rows[i][1]))
        key = lab(rows[i][0])
        del rows[i][1][j]
        del g[key][j]
        return f"deleted arc {j} of {rows[i][0]!r}"
    missing = [x for x in nodes if x not in [u for u, _ in rows]]
    if missing:                                     # a new key for a node that had no adjacency list yet
        x = rng.choice(missing)
        new = [rng.choice(nodes), rng.choice([1, 2, 3])]
        key = lab(x)                                # before the JSON edit: the numbering is taken from the old case
        tgt = lab(new[0])
        rows.append([x, [new]])
        g[key] = [mk_entry([tgt] + new[1:])]
        return f"added key {x!r} with arc {new}"
    if with_arcs:                                   # swap two capacities in one list (length and ids of the list unchanged)
        i = rng.choice(with_arcs)
        adj = rows[i][1]
        a, b = rng.randrange(len(adj)), rng.randrange(len(adj))
        adj[a][1], adj[b][1] = adj[b][1], adj[a][1]
        key = lab(rows[i][0])
        for j in (a, b):
            g[key][j] = mk_entry([lab(adj[j][0])] + adj[j][1:])
        return f"swapped capacities {a},{b} of {rows[i][0]!r}"
    return "no edit"
