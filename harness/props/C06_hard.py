"""C06 round-2 hardening: input classes of /verif/HARDENING.md for the CP->SAT encoder.

  S  large structured instances (all_different / circuit over 17..65 variables, domains of 17..1025 values, partial sums and
     linear totals with > 16 / 64 / 256 values, 17+ tasks) whose CNF is far too big for model counting: judged by PROBES - complete
     integer assignments (a solution known by construction, all its Hamming-1 neighbours, constructed near misses such as two
     sub-cycles) are turned into assumptions on the variable literals and the captured CNF must be satisfiable under them exactly
     when the independent evaluator says the assignment is a CP solution (own DPLL with unit propagation: only auxiliaries stay
     open) - and by SLICES: all but 1-2 variables pinned, every model of the residual CNF enumerated and its projection compared with
     brute force over the free variables.  The Coq encoder model comparison (`enc`) is size independent and runs on them too.
  M  magnitudes: domains, coefficients, constants, demands and capacities at 2^31, 10^9, 2^53+-1, 2^60, 10^18, huge+tiny mixes.
  L  variable names: "", " ", unicode, digits, names that look like the library's own ("_aux3"), strings built fresh at call time.
  I  one-shot generators / iterators / tuples / dict views where Model accepts an iterable.
  O  option sweeps of solve(): solution_limit, hints (in/out of domain, unknown, hidden names), assumptions, solver kwargs,
     solver='auto'/'dfs' routes into the encoder - the clause list must not depend on them.
  A  several constraints of the same kind over different variables in one model; solve twice; one SATEncoder used twice; DFS and
     hinted solves in between; a second Model encoded in between; caller's lists unchanged.
  H  rare internal events of the encoder computed from the spec (empty / clipped partial-sum domain, cancelling terms, window kinds
     of cumulative, demand ties, ...) with directed sampling until each event has been seen.
"""
import copy
import itertools
import sys
import time as _time

BIG = [2**31, -(2**31), 10**9, 2**53 - 1, 2**53 + 1, 2**60, 10**18, 2**44 + 1, -(10**12), 65537]


def base():
    from harness.props import C06

    return C06


# ================================================================ CNF with assumptions (own DPLL, unit propagation)
class TooMany(Exception):
    pass


class Undecided(Exception):
    """the node budget of the little DPLL ran out: no verdict for this probe (counted, never a failure)"""


class Cnf:
    def __init__(self, clauses, nvars):
        self.clauses = clauses
        self.nvars = nvars
        self.occ = [[] for _ in range(nvars + 1)]
        for ci, c in enumerate(clauses):
            for l in c:
                self.occ[abs(l)].append(ci)
        self.used = [v for v in range(1, nvars + 1) if self.occ[v]]
        self.empty = any(len(c) == 0 for c in clauses)
        self.units = [c[0] for c in clauses if len(c) == 1]

    def models(self, assume, cap, budget=200000):
        """all assignments of the variables occurring in clauses (others False) that satisfy the clauses and `assume`;
        branches True first (exactly-one blocks then fail or succeed by propagation); raises Undecided after `budget` nodes"""
        if self.empty:
            return []
        nodes = [0]
        clauses, occ = self.clauses, self.occ
        assign = [None] * (self.nvars + 1)
        out = []

        def propagate(start_vars):
            changed = list(start_vars)
            set_vars = []
            while changed:
                v = changed.pop()
                for ci in occ[v]:
                    free, nfree, sat = 0, 0, False
                    for l in clauses[ci]:
                        a = assign[l if l > 0 else -l]
                        if a is None:
                            free, nfree = l, nfree + 1
                        elif a == (l > 0):
                            sat = True
                            break
                    if sat:
                        continue
                    if nfree == 0:
                        for u in set_vars:
                            assign[u] = None
                        return None
                    if nfree == 1:
                        u = free if free > 0 else -free
                        assign[u] = free > 0
                        set_vars.append(u)
                        changed.append(u)
            return set_vars

        first = []
        for l in list(assume) + self.units:
            v = abs(l)
            if v > self.nvars:
                continue
            if assign[v] is None:
                assign[v] = l > 0
                first.append(v)
            elif assign[v] != (l > 0):
                return []
        if propagate(first) is None:
            return []
        used = self.used

        def rec(k):
            while k < len(used) and assign[used[k]] is not None:
                k += 1
            if k == len(used):
                out.append([bool(a) for a in assign[1:]])
                if len(out) > cap:
                    raise TooMany(out[-1])
                return
            v = used[k]
            nodes[0] += 1
            if nodes[0] > budget:
                raise Undecided()
            for b in (True, False):
                assign[v] = b
                sv = propagate([v])
                if sv is not None:
                    rec(k + 1)
                    for u in sv:
                        assign[u] = None
                assign[v] = None

        old = sys.getrecursionlimit()
        sys.setrecursionlimit(max(old, 20000))
        try:
            rec(0)
        finally:
            sys.setrecursionlimit(old)
        return out

    def one_model(self, assume, budget=20000):
        """a model extending `assume`, or None (none exists / undecided)"""
        box = []
        try:
            box = self.models(assume, 0, budget)
        except TooMany as e:
            return e.args[0] if e.args else None
        except Undecided:
            return None
        return box[0] if box else None

    def sat(self, assume, budget=20000):
        """True / False / None (undecided within the node budget)"""
        try:
            return bool(self.models(assume, 0, budget))
        except TooMany:
            return True
        except Undecided:
            return None


def decide(F, assume, state):
    """True / False / None: own DPLL first; when its node budget runs out, solvor.sat.solve_sat is asked as an UNTRUSTED witness
    finder - a model it returns is accepted only after checking every clause and assumption here (a certificate); its INFEASIBLE
    is taken as is (no independent confirmation: counted separately)."""
    r = F.sat(assume, budget=1200)
    if r is not None:
        return r
    if state["fallbacks"] <= 0:
        return None
    state["fallbacks"] -= 1
    from harness.core import guarded
    from solvor.sat import solve_sat

    res = guarded(solve_sat, F.clauses, assumptions=list(assume), max_conflicts=20000, timeout=8)
    if res[0] != "ok":
        return None
    sol = res[1].solution
    if getattr(res[1].status, "name", "") == "INFEASIBLE":
        state["trusted_unsat"] = state.get("trusted_unsat", 0) + 1
        return False
    if isinstance(sol, dict) and sol:
        val = lambda l: sol.get(abs(l), False) == (l > 0)  # noqa: E731
        if all(any(val(l) for l in c) for c in F.clauses) and all(val(l) for l in assume):
            state["certified_sat"] = state.get("certified_sat", 0) + 1
            return True
    return None


def selftest_cnf(rng):
    C = base()
    for _ in range(120):
        n = rng.randint(1, 7)
        cl = [[rng.choice([-1, 1]) * rng.randint(1, n) for _ in range(rng.randint(1, 3))] for _ in range(rng.randint(0, 10))]
        assume = [rng.choice([-1, 1]) * rng.randint(1, n) for _ in range(rng.randint(0, 2))]
        used = sorted({abs(l) for c in cl for l in c})
        want = set()
        for bits in C.truth_table_models(cl + [[l] for l in assume], n):
            if all(not bits[v - 1] for v in range(1, n + 1) if v not in used and all(abs(l) != v for l in assume)):
                want.add(tuple(bits))
        got = Cnf(cl, n).models(assume, 10**6)
        # variables that occur nowhere are reported False unless assumed
        if {tuple(g) for g in got} != want or len(got) != len(want):
            return f"Cnf.models disagrees with the truth table on {cl} assuming {assume}"
    return None


# ================================================================ probes and slices (oracle for large instances)
def assumption(info, p):
    lits = []
    for (_lb, _ub, _n, _b, bv), x in zip(info["vars"], p):
        for val, l in bv.items():
            lits.append(l if val == x else -l)
    return lits


def is_solution(spec, p):
    C = base()
    return all(lo <= x <= hi for (_n, lo, hi), x in zip(spec["vars"], p)) and all(C.holds(c, p) for c in spec["cons"])


def neighbours(spec, limit=420):
    """the base assignment, then every assignment differing from it in one variable (domains > 24 values: ends, around the base
    value, a stride); deterministic; thinned to `limit` by a stride over the list"""
    b = spec["base"]
    out = [list(b)]
    for i, (_nm, lo, hi) in enumerate(spec["vars"]):
        if hi - lo + 1 <= 24:
            cand = range(lo, hi + 1)
        else:
            step = max(1, (hi - lo) // 12)
            cand = sorted({lo, lo + 1, hi - 1, hi, b[i] - 2, b[i] - 1, b[i] + 1, b[i] + 2, *range(lo, hi + 1, step)} & set(range(lo, hi + 1)))
        for x in cand:
            if x != b[i]:
                p = list(b)
                p[i] = x
                out.append(p)
    if len(out) > limit:
        step = len(out) / limit
        keep = sorted({0, len(out) - 1, *(int(k * step) for k in range(limit))})
        # the last variables matter as much as the first ones: keep the tail dense
        out = [out[k] for k in keep] + out[-40:]
    return out + [list(p) for p in spec.get("probes", [])]


def judge_big(spec, info):
    """(None | description, stats) for a large instance: numbering, probes, slices."""
    C = base()
    stats = {}
    nxt = 1
    for (lb, ub, _named, _b, bv), (_nm, lo, hi) in zip(info["vars"], spec["vars"]):
        if (lb, ub) != (lo, hi) or list(bv.items()) != [(x, nxt + x - lo) for x in range(lo, hi + 1)]:
            return "variable literals are not numbered consecutively", stats
        nxt += hi - lo + 1
    if info["next_bool"] != nxt or info["next_bool_after"] != nxt or info["nvars_after"] != len(spec["vars"]):
        return "Model._next_bool / Model._vars changed by encoding", stats
    if not info["repeat_same"]:
        return "a second solve(solver='sat') of the same Model encodes differently", stats
    if info.get("seq_bad"):
        return info["seq_bad"], stats
    probes = neighbours(spec, spec.get("probe_limit", 420))
    if info["kind"] == "unsat":
        for p in probes:
            if is_solution(spec, p):
                return f"encoder reports INFEASIBLE by itself but {p} is a CP solution", stats
        return None, stats
    cnf = info["cnf"]
    if any(len(c) == 0 for c in cnf) or any(l == 0 for c in cnf for l in c):
        return "empty clause / literal 0 handed to solve_sat", stats
    nvars = max(max((abs(l) for c in cnf for l in c), default=0), nxt - 1)
    stats["booleans"], stats["clauses"] = nvars, len(cnf)
    F = Cnf(cnf, nvars)
    nsat = 0
    state = {"fallbacks": 7}
    # constructed probes first (they are the ones that may need the fallback), then the neighbours
    probes = probes[:1] + probes[len(probes) - len(spec.get("probes", [])):] + probes[1:len(probes) - len(spec.get("probes", []))]
    t_probe_end = _time.time() + 12
    for p in probes:
        if _time.time() > t_probe_end:
            stats["probes_skipped"] = stats.get("probes_skipped", 0) + 1
            continue
        want = is_solution(spec, p)
        got = decide(F, assumption(info, p), state)
        if got is None:
            stats["probes_undecided"] = stats.get("probes_undecided", 0) + 1
            continue
        nsat += want
        if want != got:
            diff = [(i, spec["base"][i], p[i]) for i in range(len(p)) if p[i] != spec["base"][i]]
            return (f"assignment {p} (base solution changed at (var, from, to) {diff}) is {'a' if want else 'NOT a'} CP solution but the CNF is "
                    f"{'satisfiable' if got else 'unsatisfiable'} under it"), stats
    stats["probes"], stats["probes_sat"] = len(probes), nsat
    # decode_sat_solution of the real code on a model of the base solution
    if is_solution(spec, spec["base"]):
        mdl = F.one_model(assumption(info, spec["base"]), 3000)
        if mdl is not None:
            C2 = base()
            _k, _c, res = C2.capture(info["model"], canned=[{v + 1: b for v, b in enumerate(mdl)}], limit=2)
            want = {nm: x for (nm, _lo, _hi), x in zip([(n_, 0, 0) for n_ in info["names"]], spec["base"]) if not nm.startswith("_")}
            sols = list(res.solutions) if res.solutions is not None else [res.solution]
            if any(sol != want for sol in sols):
                return f"decode_sat_solution returns {str(sols[0])[:200]} for a CNF model of the base solution", stats
            stats["decoded"] = len(want)
    for k in ("certified_sat", "trusted_unsat"):
        if state.get(k):
            stats[k] = state[k]
    # slices: pin all but the free variables, enumerate, project
    import time as _t

    t_end = _t.time() + 6
    for free in spec.get("slices", []):
        if (len(cnf) > 15000 and len(free) > 1) or _t.time() > t_end:
            stats["slices_skipped"] = stats.get("slices_skipped", 0) + 1
            continue
        pin = []
        for i, ((_lb, _ub, _n, _b, bv), x) in enumerate(zip(info["vars"], spec["base"])):
            if i not in free:
                pin += [l if val == x else -l for val, l in bv.items()]
        try:
            models = F.models(pin, 20000, budget=3000)
        except TooMany:
            return f"more than 20000 CNF models with only the variables {free} free", stats
        except Undecided:
            stats["slices_undecided"] = stats.get("slices_undecided", 0) + 1
            continue
        got = set()
        for mdl in models:
            vals = []
            for i in free:
                tv = [x for x, l in info["vars"][i][4].items() if mdl[l - 1]]
                if len(tv) != 1:
                    return f"a CNF model gives variable #{i} the values {tv} (others pinned to the base solution)", stats
                vals.append(tv[0])
            got.add(tuple(vals))
        want = set()
        for vals in itertools.product(*[range(spec["vars"][i][1], spec["vars"][i][2] + 1) for i in free]):
            p = list(spec["base"])
            for i, x in zip(free, vals):
                p[i] = x
            if is_solution(spec, p):
                want.add(tuple(vals))
        if got != want:
            return (f"with all variables but {free} pinned to the base solution the CNF admits {sorted(got - want)[:3]} extra and misses "
                    f"{sorted(want - got)[:3]} for the free variables"), stats
        stats["slice_models"] = stats.get("slice_models", 0) + len(models)
    return None, stats


# ================================================================ S: large generators (solution known by construction)
def _slices(rng, nv, k=3):
    out = [[nv - 1], [rng.randrange(nv), nv - 1] if nv > 1 else [0]]
    for _ in range(k):
        f = sorted(rng.sample(range(nv), min(nv, rng.choice([1, 2, 2]))))
        out.append(f)
    return [sorted(set(f)) for f in out]


def big_alldiff(rng, n):
    off = rng.choice([0, 0, 1, -3, 100])
    extra = rng.choice([0, 0, 1, 2])
    vs = [[f"x{i}", off, off + n - 1 + extra] for i in range(n)]
    if rng.random() < 0.4:   # heterogeneous domains that still contain the base value
        pass
    perm = rng.sample(range(off, off + n + extra), n)
    if rng.random() < 0.4:
        for i in range(n):
            lo = max(off, perm[i] - rng.randint(0, n))
            hi = min(off + n - 1 + extra, perm[i] + rng.randint(0, n))
            vs[i] = [f"x{i}", lo, hi]
    order = list(range(n))
    if rng.random() < 0.5:
        rng.shuffle(order)
    cons = [["all_different", order]]
    if rng.random() < 0.3:
        i, j = rng.sample(range(n), 2)
        cons.append(["cmp", ["var", i], ["const", perm[i]], False] if rng.random() < 0.5 else ["sum_le", [i, j], perm[i] + perm[j]])
    return {"family": "S-alldiff", "vars": vs, "cons": cons, "base": perm, "slices": _slices(rng, n)}


def _cycle_succ(order):
    n = len(order)
    succ = [0] * n
    for k in range(n):
        succ[order[k]] = order[(k + 1) % n]
    return succ


def big_circuit(rng, n):
    lo, hi = rng.choice([(0, n - 1), (0, n - 1), (-1, n - 1), (0, n), (-1, n)])
    vs = [[f"s{i}", lo, hi] for i in range(n)]
    succ = _cycle_succ(rng.sample(range(n), n))
    probes = []
    for _ in range(3):                       # other Hamiltonian cycles
        probes.append(_cycle_succ(rng.sample(range(n), n)))
    for _ in range(8):                       # two sub-cycles: cut the tour at two places
        order = [0]
        while len(order) < n:
            order.append(succ[order[-1]])
        a = rng.randint(1, n - 3)
        b = a + rng.choice([2, 2, 3])
        if rng.random() < 0.3:
            a, b = rng.choice([(1, 3), (n - 3, n - 1), (n - 2, n)])
        if True:
            c1, c2 = order[:a] + order[b:], order[a:b]
            if len(c2) >= 2 and len(c1) >= 2:
                s2 = [0] * n
                for cyc in (c1, c2):
                    for k in range(len(cyc)):
                        s2[cyc[k]] = cyc[(k + 1) % len(cyc)]
                probes.append(s2)
    return {"family": "S-circuit", "vars": vs, "cons": [["circuit", list(range(n))]], "base": succ, "probes": probes, "slices": [[n - 1]],
            "probe_limit": 90}


def big_sum(rng, k=None):
    k = k or rng.choice([3, 4, 5, 6, 8])
    width = rng.choice([6, 9, 17, 17, 33, 65] if k <= 4 else ([4, 6, 9, 17] if k <= 8 else [1, 2]))
    vs = []
    for i in range(k):
        lo = rng.randint(-20, 20)
        vs.append([f"v{i}", lo, lo + rng.randint(max(1, width // 2), width)])
    pt = [rng.randint(lo, hi) for _, lo, hi in vs]
    kind = rng.choice(["sum_eq", "sum_le", "sum_ge"])
    idx = list(range(k))
    if rng.random() < 0.3:
        idx.append(rng.randrange(k))
    rng.shuffle(idx)
    slack = 0 if kind == "sum_eq" else rng.choice([0, 0, 1, 3]) * (1 if kind == "sum_le" else -1)
    t = sum(pt[i] for i in idx) + slack
    return {"family": "S-sum", "vars": vs, "cons": [[kind, idx, t]], "base": pt, "slices": _slices(rng, k, 2)}


def big_lin(rng, k=None):
    k = k or rng.choice([3, 4, 5, 6, 7, 8])
    width = rng.choice([4, 6, 9, 17, 33] if k <= 4 else ([3, 4, 6] if k <= 8 else [2]))
    vs = []
    for i in range(k):
        lo = rng.randint(-9, 9)
        vs.append([f"v{i}", lo, lo + rng.randint(2, width)])
    pt = [rng.randint(lo, hi) for _, lo, hi in vs]
    terms = []
    for i in range(k):
        c = rng.choice([1, 1, -1, 2, -2, 3, 5, -7])
        terms.append(["var", i] if c == 1 else (["mul", c, ["var", i]] if rng.random() < 0.5 else ["rmul", ["var", i], c]))
    cut = rng.randint(1, k)
    C = base()

    def side(ts):
        e = ts[0]
        for t in ts[1:]:
            op = rng.choice(["add", "add", "sub"])
            if op == "sub" and t[0] == "var" and e[0] != "var":
                t = ["mul", 1, t]          # Expr - IntVar is refused by the operators (TypeError)
            e = [op, e, t]
        return e

    lhs = side(terms[:cut])
    rhs = side(terms[cut:]) if cut < k else ["const", 0]
    is_ne = rng.random() < 0.25
    diff = C.ev(lhs, pt) - C.ev(rhs, pt)
    if is_ne:
        diff += 1
    rhs = ["add", rhs, ["const", diff]] if rhs[0] != "const" else ["const", rhs[1] + diff]
    return {"family": "S-lin", "vars": vs, "cons": [["cmp", lhs, rhs, is_ne]], "base": pt, "slices": _slices(rng, k, 2)}


def big_dom(rng, sizes):
    k = rng.choice([1, 2, 2, 3])
    vs = []
    for i in range(k):
        lo = rng.choice([0, 1, -5, -300, 250])
        vs.append([f"d{i}", lo, lo + rng.choice(sizes) - 1])
    pt = [rng.randint(lo, hi) for _, lo, hi in vs]
    cons = []
    for _ in range(rng.choice([1, 2])):
        i, j = rng.randrange(k), rng.randrange(k)
        r = rng.random()
        if r < 0.2:
            cons.append(["cmp", ["var", i], ["const", pt[i] + rng.choice([0, 1])], True])
        elif r < 0.4 and pt[i] != pt[j]:
            cons.append(["cmp", ["var", i], ["var", j], True])
        elif r < 0.6:
            cons.append(["cmp", ["add", ["var", i], ["const", pt[j] - pt[i]]], ["var", j], False])
        elif r < 0.8:
            cons.append(["sum_le", [i, j], pt[i] + pt[j] + rng.choice([0, 2])])
        else:
            cons.append(["cmp", ["var", i], ["const", pt[i]], False])
    return {"family": "S-domain", "vars": vs, "cons": cons, "base": pt, "slices": [[k - 1], [0]]}


def big_sched(rng):
    if rng.random() < 0.5:
        n = rng.choice([17, 18, 20])
        durs = [rng.choice([1, 1, 2]) for _ in range(n)]
        order = rng.sample(range(n), n)
        pt, t = [0] * n, 0
        for i in order:
            pt[i] = t
            t += durs[i] + rng.choice([0, 0, 1])
        vs = [[f"t{i}", max(0, pt[i] - 2), pt[i] + 2] for i in range(n)]
        return {"family": "S-no_overlap", "vars": vs, "cons": [["no_overlap", list(range(n)), durs]], "base": pt, "slices": _slices(rng, n, 2)}
    n = rng.choice([8, 10, 12, 17])
    cap = rng.choice([2, 3])
    durs = [rng.choice([1, 2, 3]) for _ in range(n)]
    dem = [rng.choice([1, 1, 1, 2, 0]) for _ in range(n)]
    horizon = n
    C = base()
    while True:
        pt = [rng.randint(0, horizon) for _ in range(n)]
        if C.holds(["cumulative", list(range(n)), durs, dem, cap], pt):
            break
        horizon += 2
    vs = [[f"t{i}", max(0, pt[i] - 2), pt[i] + rng.choice([1, 2])] for i in range(n)]
    return {"family": "S-cumulative", "vars": vs, "cons": [["cumulative", list(range(n)), durs, dem, cap]], "base": pt, "slices": _slices(rng, n, 2)}


def big_specs(rng, thorough):
    out = [big_alldiff(rng, n) for n in ([17, 18, 20, 33] + ([65, 40] if thorough else []))]
    out += [big_alldiff(rng, rng.choice([17, 19, 24])) for _ in range(4 if thorough else 1)]
    out += [big_circuit(rng, n) for n in ([9, 17] + ([11, 18, 20] if thorough else []))]
    out += [big_sum(rng) for _ in range(12 if thorough else 4)] + [big_sum(rng, k) for k in ([17] + ([33, 20] if thorough else []))]
    out += [big_lin(rng) for _ in range(12 if thorough else 4)] + [big_lin(rng, k) for k in ([17] + ([20] if thorough else []))]
    out += [big_dom(rng, [17, 33, 65]) for _ in range(8 if thorough else 3)]
    out += [big_dom(rng, [129, 257]) for _ in range(3 if thorough else 1)]
    if thorough:
        out += [big_dom(rng, [1025]) for _ in range(1)]
    out += [big_sched(rng) for _ in range(8 if thorough else 4)]
    return out


def many_constraints(rng):
    """17..40 small constraints over a handful of variables (box small: the ordinary model-counting oracle applies)"""
    C = base()
    nv = rng.choice([4, 5, 6])
    vs = [[f"q{i}", lo, lo + rng.choice([1, 1, 2])] for i, lo in enumerate(rng.randint(-2, 2) for _ in range(nv))]
    pt = [rng.randint(lo, hi) for _, lo, hi in vs]
    cons = []
    while len(cons) < rng.choice([17, 20, 33, 40]):
        c = C.rand_constraint(rng, nv, rng.choice(["cmp", "cmp", "sum_le", "sum_ge", "sum_eq", "all_different", "no_overlap"]))
        if (C.holds(c, pt) or rng.random() < 0.02) and not isinstance(C.build_model({"vars": vs, "cons": [c]}), tuple):
            cons.append(c)
    return {"family": "S-many-constraints", "vars": vs, "cons": cons}


# ================================================================ M: magnitudes on small structures
def magnitude_spec(rng):
    C = base()
    kind = rng.choice(["lin", "lin", "sum", "pair", "sched", "circuit", "mix"])
    nv = rng.choice([2, 3, 3, 4])
    common = rng.choice(BIG)
    vs = []
    for i in range(nv):
        off = common if kind in ("sched", "pair") or rng.random() < 0.5 else rng.choice(BIG + [0, 0, 3])
        lo = off + rng.randint(-2, 2)
        vs.append([f"m{i}", lo, lo + rng.choice([1, 2, 2, 3])])
    if kind == "circuit":
        vs = [[f"m{i}", rng.choice([0, 0, -1, -(10**12)]), rng.choice([nv - 1, nv - 1, 2**31, 10**18 if i == 0 else nv])] for i in range(nv)]
        for v in vs:      # keep the box small: huge bounds only as a window around 0..n-1 is not possible, so use a few values
            if v[2] - v[1] > 4:
                v[1], v[2] = (v[2] - 2, v[2]) if rng.random() < 0.5 else (v[1], v[1] + 2)
    pt = [rng.randint(lo, hi) for _, lo, hi in vs]
    cons = []
    for _ in range(rng.choice([1, 2])):
        if kind in ("lin", "mix") and rng.random() < 0.8:
            terms = []
            for i in rng.sample(range(nv), rng.randint(1, nv)):
                c = rng.choice([1, -1, 2, 10**9, 2**31, 2**53 + 1, -(2**60), 3])
                terms.append(["var", i] if c == 1 else ["mul", c, ["var", i]])
            cut = rng.randint(1, len(terms))

            def side(ts):
                e = ts[0]
                for t in ts[1:]:
                    e = [rng.choice(["add", "sub"]), e, t]
                return e

            lhs = side(terms[:cut])
            rhs = side(terms[cut:]) if cut < len(terms) else ["const", rng.choice(BIG)]
            is_ne = rng.random() < 0.3
            diff = C.ev(lhs, pt) - C.ev(rhs, pt) + (rng.choice([0, 1]) if is_ne else 0)
            if rng.random() < 0.5:
                rhs = ["add", rhs, ["const", diff]]
            else:
                lhs = ["sub", lhs, ["const", diff]]
            cons.append(["cmp", lhs, rhs, is_ne])
        elif kind in ("sum", "mix", "lin"):
            k = rng.choice(["sum_eq", "sum_le", "sum_ge"])
            idx = [rng.randrange(nv) for _ in range(rng.randint(1, 4))]
            cons.append([k, idx, sum(pt[i] for i in idx) + rng.choice([0, 0, 1, -1, 2**44])])
        elif kind == "pair":
            r = rng.random()
            i, j = rng.randrange(nv), rng.randrange(nv)
            if r < 0.35:
                cons.append(["all_different", rng.sample(range(nv), rng.randint(2, nv))])
            elif r < 0.55:
                cons.append(["cmp", ["var", i], ["const", pt[i] + rng.choice([0, 1, 2**53])], rng.random() < 0.5])
            else:
                cons.append(["cmp", ["var", i], ["var", j], rng.random() < 0.5])
        elif kind == "circuit":
            cons.append(["circuit", list(range(nv))])
        else:
            tasks = rng.sample(range(nv), rng.randint(2, nv))
            durs = [rng.randint(1, 3) for _ in tasks]
            if rng.random() < 0.4:
                cons.append(["no_overlap", tasks, durs])
            else:
                unit = rng.choice([1, 10**9, 2**31, 2**53 + 1, 10**18])
                dem = [unit * rng.randint(0, 3) for _ in tasks]
                cons.append(["cumulative", tasks, durs, dem, unit * rng.randint(1, 4) + rng.choice([0, 0, 1, -1])])
    return {"family": "M", "vars": vs, "cons": cons}


def coq_proj_ok(spec):
    """CpAst.circuit_valsb indexes the successor list with Z.to_nat of a successor value (vm_compute is strict): keep them small"""
    return all(abs(b) <= 10**6 for c in spec["cons"] if c[0] == "circuit" for i in c[1] for b in spec["vars"][i][1:3])


def coq_span_ok(spec, limit=4096):
    """the Gallina all_different walks the integer range min lb..max ub (the code unions the domains): keep Coq cases cheap"""
    if not coq_proj_ok(spec):
        return False
    for c in spec["cons"]:
        if c[0] in ("all_different", "circuit") and c[1]:
            lo = min(spec["vars"][i][1] for i in c[1])
            hi = max(spec["vars"][i][2] for i in c[1])
            if hi - lo > limit:
                return False
        if c[0] == "cumulative" and c[1]:
            lo = min(spec["vars"][i][1] for i in c[1])
            hi = max(spec["vars"][i][2] + d for i, d in zip(c[1], c[2]))
            if hi - lo > limit:
                return False
    return True


# ================================================================ L / I: names and iterables
NAMES = ["", " ", "0", "17", "x y", "é", "名", "a" * 40, "_", "__", "_aux3", "_aux17", "_vx", "X", "x.1", "None", "\n", "x", "-", "_h"]


def relabel(rng, spec):
    s = copy.deepcopy(spec)
    names = rng.sample(NAMES, len(s["vars"]))
    for v, nm in zip(s["vars"], names):
        if rng.random() < 0.8:
            v[0] = nm
    s["family"] = "L"
    return s


ITER_MODES = ["list", "tuple", "gen", "iter", "dictkeys", "reversed"]


def with_iterables(rng, spec):
    s = copy.deepcopy(spec)
    s["iter"] = [rng.choice(ITER_MODES) for _ in s["cons"]]
    s["family"] = "I"
    return s


def wrap(seq, mode, sized=False):
    seq = list(seq)
    if sized:
        return tuple(seq) if mode in ("tuple", "gen", "dictkeys") else seq
    if mode == "tuple":
        return tuple(seq)
    if mode == "gen":
        return (x for x in seq)
    if mode == "iter":
        return iter(seq)
    if mode == "reversed":
        return reversed(seq[::-1])
    if mode == "dictkeys":
        # IntVar.__eq__ is overloaded, so variables cannot be dict keys by equality in general; use a dict keyed by position
        return {i: x for i, x in enumerate(seq)}.values()
    return seq


# ================================================================ A: twins, call sequences
def twin_spec(rng):
    C = base()
    kind = rng.choice(["cumulative", "cumulative", "cumulative", "circuit", "all_different", "sum", "lin", "no_overlap"])
    if kind == "circuit":
        n1, n2 = rng.choice([(2, 2), (2, 3), (3, 3), (3, 2)])
        vs = [[f"a{i}", rng.choice([0, 0, -1]), n1 - 1 + rng.choice([0, 0, 1])] for i in range(n1)]
        vs += [[f"b{i}", rng.choice([0, 0, -1]), n2 - 1 + rng.choice([0, 0, 1])] for i in range(n2)]
        i1, i2 = list(range(n1)), list(range(n1, n1 + n2))
        rng.shuffle(i2)
        return {"family": "A-twin", "vars": vs, "cons": [["circuit", i1], ["circuit", i2]]}
    nv = rng.choice([3, 4, 4, 5, 6])
    vs = []
    for i in range(nv):
        lo = rng.randint(-2, 3)
        vs.append([f"v{i}", lo, lo + rng.choice([1, 2, 2, 3, 3] if kind == "cumulative" else [1, 1, 2, 2, 3])])
    size = 1
    for _, lo, hi in vs:
        size *= hi - lo + 1
    while size > C.MAX_BOX:
        j = max(range(nv), key=lambda i: vs[i][2] - vs[i][1])
        size //= vs[j][2] - vs[j][1] + 1
        vs[j][2] -= 1
        size *= vs[j][2] - vs[j][1] + 1
    pt = [rng.randint(lo, hi) for _, lo, hi in vs]
    cons = []
    groups = []
    idx = list(range(nv))
    rng.shuffle(idx)
    ncons = rng.choice([2, 2, 3])
    for g in range(ncons):
        k = rng.randint(1, 3) if kind in ("cumulative", "sum", "lin") else rng.randint(2, 3)
        grp = [idx[(g * 2 + t) % nv] for t in range(k)] if rng.random() < 0.7 else rng.sample(range(nv), min(k, nv))
        groups.append(grp)
    for grp in groups:
        if kind == "cumulative":
            durs = [rng.choice([2, 2, 3, 1]) for _ in grp]
            dem = [rng.choice([1, 1, 2, 2, 3]) for _ in grp]
            cons.append(["cumulative", grp, durs, dem, rng.choice([1, 2, 2, 3, 3, 4, 5])])
        elif kind == "all_different":
            cons.append(["all_different", grp])
        elif kind == "no_overlap":
            cons.append(["no_overlap", grp, [rng.randint(1, 3) for _ in grp]])
        elif kind == "sum":
            grp = grp + [rng.randrange(nv) for _ in range(rng.choice([1, 2]))]
            k = rng.choice(["sum_eq", "sum_le", "sum_ge"])
            cons.append([k, grp, sum(pt[i] for i in grp) + rng.choice([0, 0, 1, -1])])
        else:
            grp = grp + [rng.randrange(nv) for _ in range(rng.choice([1, 2]))]
            e = ["var", grp[0]]
            for i in grp[1:]:
                e = [rng.choice(["add", "sub"]), e, ["var", i] if rng.random() < 0.6 else ["mul", rng.choice([2, -1, 3]), ["var", i]]]
            cons.append(["cmp", e, ["const", C.ev(e, pt) + rng.choice([0, 0, 1])], rng.random() < 0.3])
    return {"family": "A-twin", "vars": vs, "cons": cons}


def call_sequences(spec, m, baseline):
    """None, or what went wrong when the same Model / encoder is used repeatedly and around other calls.  `baseline` = (kind, cnf).
    Returns (bad, alternative captures to judge semantically)."""
    C = base()
    import solvor.cp_encoder as enc
    from solvor.cp import Model

    alts = []
    # 1. one SATEncoder instance used twice: the second encoding may number auxiliaries differently but must mean the same
    e = enc.SATEncoder(m)
    caps = []
    for _ in range(2):
        rec = C.Recorder()
        real = enc.solve_sat
        enc.solve_sat = rec
        try:
            e.solve()
        finally:
            enc.solve_sat = real
        caps.append(("cnf", rec.calls[0][0]) if rec.calls else ("unsat", None))
    if caps[0] != baseline:
        return "SATEncoder(model).solve() encodes differently from Model.solve(solver='sat')", alts
    if caps[1][0] != baseline[0]:
        return "second solve() of one SATEncoder instance changes the INFEASIBLE verdict of the encoding", alts
    if caps[1] != baseline and caps[1][0] == "cnf":
        alts.append(caps[1][1])
    # 2. a DFS solve, a hinted solve and another Model encoded in between must leave nothing behind
    hints = {nm: lo for nm, lo, _hi in spec["vars"] if nm is not None}
    rec = C.Recorder()
    real = enc.solve_sat
    enc.solve_sat = rec
    try:
        try:
            m.solve(solver="dfs", solution_limit=2)
        except Exception:  # noqa: BLE001
            pass
        m.solve(solver="sat", hints=hints, solution_limit=3)
        other = Model()
        a = other.int_var(0, 3, "a")
        b = other.int_var(0, 3, "b")
        c = other.int_var(0, 3, "c")
        other.add(other.cumulative([a, b, c], [2, 2, 2], [1, 2, 1], 2))
        other.add(other.sum_le([a, b, c], 5))
        other.add(a + b + c != 4)
        other.solve(solver="sat")
    finally:
        enc.solve_sat = real
    k, cnf, _ = C.capture(m)
    if (k, cnf) != baseline:
        return "encoding of a Model changes after a DFS solve, a hinted solve and the encoding of another Model", alts
    return None, alts


# ================================================================ O: option sweeps
def option_sweep(rng, spec):
    """None or a description: the clause list handed to solve_sat must not depend on solve() options; assumptions = hint literals."""
    C = base()
    import solvor.cp_encoder as enc

    m = C.build_model(spec)
    if isinstance(m, tuple):
        return None, 0
    k0, cnf0, _ = C.capture(m)
    names = list(m._vars)
    lit = {(nm, x): l for nm, v in m._vars.items() for x, l in v.bool_vars.items()}
    runs = 0
    combos = []
    for limit in [0, 1, 2, 3, 7, 100]:
        combos.append(dict(solver="sat", solution_limit=limit))
    for solver in ["auto", "dfs"]:
        combos.append(dict(solver=solver, solution_limit=rng.choice([1, 2, 5])))
    for kw in [dict(max_conflicts=0), dict(max_conflicts=1), dict(max_conflicts=100001), dict(max_restarts=0), dict(luby_factor=1),
               dict(assumptions=[]), dict(assumptions=None)]:
        combos.append(dict(solver="sat", **kw))
    some = list(lit.items())
    if some:
        (nm, x), l = rng.choice(some)
        combos.append(dict(solver="sat", assumptions=[l]))
        combos.append(dict(solver="sat", assumptions=[-l], solution_limit=2))
    for _ in range(6):
        hints = {}
        for nm in names:
            v = m._vars[nm]
            r = rng.random()
            if r < 0.4:
                hints[nm] = rng.randint(v.lb, v.ub)
            elif r < 0.55:
                hints[nm] = rng.choice([v.lb - 1, v.ub + 1, v.ub + 10**9])
        if rng.random() < 0.3:
            hints["no such variable"] = 0
        combos.append(dict(solver=rng.choice(["sat", "sat", "auto"]), hints=hints, solution_limit=rng.choice([1, 2])))
    for opts in combos:
        hints_before = copy.deepcopy(opts.get("hints"))
        rec = C.Recorder()
        real = enc.solve_sat
        enc.solve_sat = rec
        try:
            try:
                m.solve(**opts)
            except Exception as e:  # noqa: BLE001
                return f"solve({opts}) raised {type(e).__name__}: {e}", runs
        finally:
            enc.solve_sat = real
        runs += 1
        if opts.get("hints") != hints_before:
            return f"solve modified the caller's hints dict: {hints_before} -> {opts.get('hints')}", runs
        if not rec.calls:
            if opts["solver"] == "sat" and k0 == "cnf":
                return f"solve({opts}) did not reach solve_sat although the plain encoding does", runs
            continue
        if k0 != "cnf":
            return f"solve({opts}) reached solve_sat although the plain encoding reports INFEASIBLE by itself", runs
        for clauses, kw in rec.calls:
            if clauses != cnf0:
                return f"clause list handed to solve_sat depends on the options {opts}", runs
        clauses, kw = rec.calls[0]
        if kw.get("solution_limit") != opts.get("solution_limit", 1):
            return f"solution_limit={opts.get('solution_limit', 1)} reached solve_sat as {kw.get('solution_limit')}", runs
        for key in ("max_conflicts", "max_restarts", "luby_factor"):
            if key in opts and kw.get(key) != opts[key]:
                return f"{key}={opts[key]} reached solve_sat as {kw.get(key)}", runs
        want = list(opts.get("assumptions") or [])
        for nm, x in (opts.get("hints") or {}).items():
            if (nm, x) in lit:
                want.append(lit[(nm, x)])
        got = list(kw.get("assumptions") or [])
        if got != want:
            return f"assumptions handed to solve_sat for {opts}: {got}, expected the literals of the in-domain hints {want}", runs
    return None, runs


# ================================================================ H: events computed from the spec alone
def lin_of(e, mult, terms):
    op = e[0]
    if op == "var":
        terms[e[1]] = terms.get(e[1], 0) + mult
        return 0
    if op == "const":
        return mult * e[1]
    if op == "add":
        return lin_of(e[1], mult, terms) + lin_of(e[2], mult, terms)
    if op == "sub":
        return lin_of(e[1], mult, terms) + lin_of(e[2], -mult, terms)
    if op == "mul":
        return lin_of(e[2], mult * e[1], terms)
    if op == "rmul":
        return lin_of(e[1], mult * e[2], terms)
    raise AssertionError(op)


def spec_events(spec):
    ev = set()
    vs = spec["vars"]
    kinds = [c[0] for c in spec["cons"]]
    for k in set(kinds):
        if kinds.count(k) >= 2:
            ev.add(f"twin:{k}")
    if any(v[0] is None or v[0].startswith("_") for v in vs):
        ev.add("hidden-variable")
    seen_vars = []
    for c in spec["cons"]:
        k = c[0]
        if k == "cmp":
            terms = {}
            const = lin_of(c[1], 1, terms) + lin_of(c[2], -1, terms)
            nz = {i: a for i, a in terms.items() if a != 0}
            ev.add(f"lin-terms:{min(len(nz), 5)}")
            if len(nz) < len(terms):
                ev.add("lin-cancelled-variable")
            if any(abs(a) >= 2 for a in nz.values()):
                ev.add("lin-coefficient")
            if len(nz) == 1:
                (i, a), = nz.items()
                if const % a != 0:
                    ev.add("lin-1term-nondivisible")
            if len(nz) >= 3:
                sizes = 1
                for i in list(nz)[-2:]:
                    sizes *= vs[i][2] - vs[i][1] + 1
                ev.add("lin-aux")
            ev.add("lin-ne" if c[3] else "lin-eq")
            used = list(terms)
        elif k in ("sum_eq", "sum_le", "sum_ge"):
            idx = c[1]
            ev.add(f"{k}:{min(len(idx), 5)}")
            if len(set(idx)) < len(idx):
                ev.add("sum-repeated-variable")
            if len(idx) >= 3:
                lb2, ub2 = vs[idx[0]][1] + vs[idx[1]][1], vs[idx[0]][2] + vs[idx[1]][2]
                rest_lo = sum(vs[i][1] for i in idx[2:])
                rest_hi = sum(vs[i][2] for i in idx[2:])
                if k == "sum_le":
                    hi = min(ub2, c[2] - rest_lo)
                    ev.add("sum-aux-empty" if hi < lb2 else ("sum-aux-clipped" if hi < ub2 else "sum-aux-full"))
                elif k == "sum_ge":
                    lo = max(lb2, c[2] - rest_hi)
                    ev.add("sum-aux-empty" if lo > ub2 else ("sum-aux-clipped" if lo > lb2 else "sum-aux-full"))
                else:
                    tot_lo, tot_hi = sum(vs[i][1] for i in idx), sum(vs[i][2] for i in idx)
                    ev.add("sum_eq-out-of-range" if not tot_lo <= c[2] <= tot_hi else "sum-aux-full")
            used = idx
        elif k == "all_different":
            idx = c[1]
            if len(set(idx)) < len(idx):
                ev.add("alldiff-repeated-variable")
            if len(idx) >= 2:
                vals = set()
                for i in set(idx):
                    vals |= set(range(vs[i][1], vs[i][2] + 1))
                if len(vals) < len(set(idx)):
                    ev.add("alldiff-pigeonhole")
                if all(vs[i][2] < vs[j][1] or vs[j][2] < vs[i][1] for i in idx for j in idx if i < j):
                    ev.add("alldiff-disjoint-domains")
            used = idx
        elif k == "circuit":
            idx = c[1]
            n = len(idx)
            ev.add(f"circuit-n:{min(n, 5)}")
            if any(vs[i][1] < 0 or vs[i][2] > n - 1 for i in idx):
                ev.add("circuit-domain-outside")
            if any(vs[i][1] > 0 or vs[i][2] < n - 1 for i in idx):
                ev.add("circuit-domain-missing-node")
            if idx != sorted(idx):
                ev.add("circuit-shuffled")
            used = idx
        elif k == "no_overlap":
            if any(d == 0 for d in c[2]):
                ev.add("no_overlap-zero-duration")
            if any(d < 0 for d in c[2]):
                ev.add("no_overlap-negative-duration")
            used = c[1]
        else:
            idx, du, de, cap = c[1], c[2], c[3], c[4]
            if any(d == 0 for d in de):
                ev.add("cumulative-zero-demand")
            if cap == 0:
                ev.add("cumulative-cap0")
            if len(set(d for d in de if d > 0)) < len([d for d in de if d > 0]):
                ev.add("cumulative-demand-tie")
            if any(d <= 0 for d in du):
                ev.add("cumulative-nonpositive-duration")
            if idx:
                lo = min(vs[i][1] for i in idx)
                hi = max(vs[i][2] + d for i, d in zip(idx, du))
                for t in range(lo, hi):
                    act = 0
                    for i, d, dm in zip(idx, du, de):
                        a, b = max(vs[i][1], t - d + 1), min(vs[i][2], t)
                        if a <= b and dm > 0:
                            act += 1
                            w = b - a + 1
                            ev.add("cumulative-window-single" if w == 1 else ("cumulative-window-full" if w == vs[i][2] - vs[i][1] + 1 else "cumulative-window-partial"))
                    if act >= 3:
                        ev.add("cumulative-3-active")
                    if sum(sorted((dm for dm in de if dm > 0), reverse=True)[:2]) <= cap < sum(dm for dm in de if dm > 0) and act >= 3:
                        ev.add("cumulative-subset-of-3")
            used = idx
        if set(used) & set(seen_vars):
            ev.add("variable-shared-by-constraints")
        seen_vars += list(used)
    return ev


EVENTS = ["twin:cumulative", "twin:circuit", "twin:cmp", "twin:all_different", "hidden-variable", "lin-terms:0", "lin-terms:1", "lin-terms:2",
          "lin-terms:3", "lin-terms:4", "lin-terms:5", "lin-cancelled-variable", "lin-coefficient", "lin-1term-nondivisible", "lin-aux", "lin-ne",
          "sum_eq:0", "sum_le:1", "sum_ge:2", "sum_eq:3", "sum_le:4", "sum_ge:5", "sum-repeated-variable", "sum-aux-empty", "sum-aux-clipped",
          "sum_eq-out-of-range", "alldiff-repeated-variable", "alldiff-pigeonhole", "alldiff-disjoint-domains", "circuit-n:0", "circuit-n:1",
          "circuit-n:2", "circuit-n:5", "circuit-domain-outside", "circuit-domain-missing-node", "circuit-shuffled", "no_overlap-zero-duration",
          "no_overlap-negative-duration", "cumulative-zero-demand", "cumulative-cap0", "cumulative-demand-tie", "cumulative-nonpositive-duration",
          "cumulative-window-single", "cumulative-window-full", "cumulative-window-partial", "cumulative-3-active", "cumulative-subset-of-3",
          "variable-shared-by-constraints"]


def directed(rng, seen, want=3, tries=600):
    """specs for the events seen fewer than `want` times (rejection sampling on the ordinary generators)"""
    C = base()
    out = []
    for e in EVENTS:
        need = want - seen.get(e, 0)
        if need <= 0:
            continue
        focus = ("sched" if e.startswith(("cumulative", "no_overlap")) else "circuit" if e.startswith("circuit") else "sum" if e.startswith("sum")
                 else "lin" if e.startswith("lin") else "pair" if e.startswith("alldiff") else None)
        for _ in range(tries):
            if need <= 0:
                break
            s = twin_spec(rng) if e.startswith("twin") and rng.random() < 0.7 else C.rand_spec(rng, focus if rng.random() < 0.8 else None)
            evs = spec_events(s)
            if e in evs:
                s["family"] = "H"
                out.append(s)
                for x in evs:
                    seen[x] = seen.get(x, 0) + 1
                need -= 1
        while need > 0 and e in CONSTRUCTED:
            s = CONSTRUCTED[e](rng)
            s["family"] = "H"
            out.append(s)
            for x in spec_events(s):
                seen[x] = seen.get(x, 0) + 1
            need -= 1
    return out


CONSTRUCTED = {
    "alldiff-pigeonhole": lambda rng: (lambda k, lo: {"vars": [[f"p{i}", lo, lo + k - 2] for i in range(k)], "cons": [["all_different", list(range(k))]]})(rng.choice([2, 3, 4]), rng.randint(-2, 2)),
    "circuit-n:0": lambda rng: {"vars": [["a", 0, rng.randint(0, 2)], ["b", -1, 1]], "cons": [["circuit", []], ["cmp", ["var", 0], ["var", 1], rng.random() < 0.5]]},
    "circuit-n:1": lambda rng: {"vars": [["a", rng.choice([0, -1]), rng.randint(0, 2)]], "cons": [["circuit", [0]]]},
    "sum-aux-empty": lambda rng: {"vars": [[f"e{i}", 0, 2] for i in range(3)], "cons": [[rng.choice(["sum_le"]), [0, 1, 2], rng.choice([-1, -2])]]},
}


# ================================================================ round 3 - W: work volume of every internal loop
def _with_probe_limit(spec, n, coq=True):
    spec["probe_limit"] = n
    if not coq:
        spec["nocoq"] = True
    return spec


def work_specs(rng, thorough):
    """one instance per internal loop of the encoder that drives THAT loop past 2^12 iterations (2^7 for the loops whose cost per
    iteration grows quadratically), solution known by construction; thorough: 10^4 / 10^5 where affordable"""
    C = base()
    out = []
    # _encode_vars / decode: > 4096 variables
    n = 4200
    vs = [[f"w{i}", i % 3, i % 3 + 1 + (i % 2)] for i in range(n)]
    pt = [lo + (i % (hi - lo + 1)) for i, (_nm, lo, hi) in enumerate(vs)]
    cons = [["cmp", ["var", i], ["const", pt[i]], False] for i in (0, n - 1)] + [["cmp", ["var", n - 2], ["var", n - 3], pt[n - 2] != pt[n - 3]]]
    out.append(_with_probe_limit({"family": "W-variables", "vars": vs, "cons": cons, "base": pt, "slices": [[n - 1], [n - 2]]}, 40, coq=False))
    # solve(): > 4096 constraints
    vs = [[f"c{i}", -3, 3] for i in range(6)]
    pt = [rng.randint(-3, 3) for _ in range(6)]
    cons = []
    while len(cons) < 4200:
        i, j = rng.randrange(6), rng.randrange(6)
        r = rng.random()
        if r < 0.5:
            k = rng.randint(-4, 4)
            if k != pt[i]:
                cons.append(["cmp", ["var", i], ["const", k], True])
        elif r < 0.8 and pt[i] != pt[j]:
            cons.append(["cmp", ["var", i], ["var", j], True])
        else:
            cons.append(["sum_le", [i, j], pt[i] + pt[j] + rng.randint(0, 2)])
    out.append(_with_probe_limit({"family": "W-constraints", "vars": vs, "cons": cons, "base": pt, "slices": [[5], [0, 5]]}, 60, coq=False))
    # _encode_all_different: > 4096 values in the union of the domains (inner loop values x variables ~ 5 * 10^6)
    n = 1100 if not thorough else 2600
    vs = [[f"a{i}", 4 * i, 4 * i + 4] for i in range(n)]
    pt = [4 * i + rng.choice([1, 2, 3]) for i in range(n)]
    out.append(_with_probe_limit({"family": "W-alldiff-values", "vars": vs, "cons": [["all_different", list(range(n))]], "base": pt,
                                 "slices": [[n - 1], [n - 2, n - 1]]}, 60, coq=False))
    # _encode_ne_expr: the folding loop (one round per term) and the pair loop of one round
    for k in ([130] + ([200] if thorough else [])):
        vs = [[f"t{i}", 0, 1] for i in range(k)]
        pt = [rng.randint(0, 1) for _ in range(k)]
        e = ["var", 0]
        for i in range(1, k):
            e = ["add", e, ["var", i]]
        out.append(_with_probe_limit({"family": "W-lin-terms", "vars": vs, "cons": [["cmp", e, ["const", sum(pt)], False]], "base": pt,
                                     "slices": [[k - 1], [0]]}, 24, coq=False))
    w = 70 if not thorough else 110
    vs = [[f"p{i}", -5, -5 + w - 1] for i in range(3)]
    pt = [rng.randint(lo, hi) for _, lo, hi in vs]
    out.append(_with_probe_limit({"family": "W-lin-product", "vars": vs, "base": pt, "slices": [[2], [0]],
                                 "cons": [["cmp", ["add", ["add", ["var", 0], ["var", 1]], ["var", 2]], ["const", sum(pt)], False]]}, 60, coq=not thorough))
    # _linearize: one variable met 500 times
    vs = [["r0", 0, 3], ["r1", -2, 2]]
    pt = [rng.randint(0, 3), rng.randint(-2, 2)]
    e = ["var", 1]
    for _ in range(500):
        e = ["add", e, ["var", 0]]
    out.append(_with_probe_limit({"family": "W-linearize", "vars": vs, "cons": [["cmp", e, ["const", 500 * pt[0] + pt[1]], False]], "base": pt,
                                 "slices": [[0, 1]]}, 40))
    # _encode_sum_*: recursion depth (one level per variable) and the pair loop of one level
    for k, kind in ([(130, "sum_eq"), (130, "sum_le")] + ([(250, "sum_ge"), (600, "sum_eq")] if thorough else [])):
        # most variables have a one-value domain so that the partial sums (and their quadratic exactly-one) stay small
        wide = set(rng.sample(range(k), 24 if not thorough else 40))
        vs = [[f"u{i}", 0, 1] if i in wide else [f"u{i}", i % 2, i % 2] for i in range(k)]
        pt = [rng.randint(lo, hi) for _, lo, hi in vs]
        out.append(_with_probe_limit({"family": "W-sum-depth", "vars": vs, "cons": [[kind, list(range(k)), sum(pt)]], "base": pt,
                                     "slices": [[k - 1], [0]]}, 24, coq=False))
    vs = [[f"q{i}", 2, 2 + w - 1] for i in range(3)]
    pt = [rng.randint(lo, hi) for _, lo, hi in vs]
    out.append(_with_probe_limit({"family": "W-sum-product", "vars": vs, "cons": [[rng.choice(["sum_eq", "sum_le", "sum_ge"]), [0, 1, 2], sum(pt)]],
                                 "base": pt, "slices": [[2], [0]]}, 60, coq=not thorough))
    # _encode_no_overlap: > 4096 pairs of tasks
    n = 100 if not thorough else 150
    durs = [rng.choice([1, 2]) for _ in range(n)]
    order = rng.sample(range(n), n)
    pt, t = [0] * n, 0
    for i in order:
        pt[i] = t
        t += durs[i] + rng.choice([0, 1])
    vs = [[f"n{i}", max(0, pt[i] - 1), pt[i] + 1] for i in range(n)]
    out.append(_with_probe_limit({"family": "W-no_overlap-pairs", "vars": vs, "cons": [["no_overlap", list(range(n)), durs]], "base": pt,
                                 "slices": [[n - 1], [0]]}, 80, coq=False))
    # _encode_cumulative: > 4096 time points; > 128 tasks; > 4096 over-capacity subsets at one time point
    far = 4300 if not thorough else 10500
    vs = [["h0", 0, 2], ["h1", 1, 3], ["h2", far // 2, far // 2 + 2], ["h3", far, far + 2], ["h4", far + 1, far + 2]]
    durs, dem, cap = [2, 2, 3, 2, 2], [2, 1, 3, 2, 2], 3
    while True:
        pt = [rng.randint(lo, hi) for _, lo, hi in vs]
        if C.holds(["cumulative", [0, 1, 2, 3, 4], durs, dem, cap], pt):
            break
    out.append(_with_probe_limit({"family": "W-cumulative-horizon", "vars": vs, "cons": [["cumulative", [0, 1, 2, 3, 4], durs, dem, cap]], "base": pt,
                                 "slices": [[4], [0, 1]]}, 60))
    n = 130 if not thorough else 300
    pt = [2 * (i // 2) + rng.choice([0, 1]) for i in range(n)]
    vs = [[f"k{i}", max(0, pt[i] - 1), pt[i] + 1] for i in range(n)]
    durs, dem = [1] * n, [1] * n
    capn = max(sum(1 for x in pt if x == v) for v in set(pt))
    out.append(_with_probe_limit({"family": "W-cumulative-tasks", "vars": vs, "cons": [["cumulative", list(range(n)), durs, dem, capn]], "base": pt,
                                 "slices": [[n - 1], [0]]}, 80, coq=False))
    n = 20 if not thorough else 24
    vs = [[f"z{i}", 0, 7] for i in range(n)]
    pt = [i // 3 for i in range(n)]
    # duration 1, unit demands, capacity 3: at every time point any 4 of the n tasks may meet -> C(n,4) minimal over-capacity subsets
    out.append(_with_probe_limit({"family": "W-cumulative-subsets", "vars": vs, "cons": [["cumulative", list(range(n)), [1] * n, [1] * n, 3]],
                                 "base": pt, "slices": [[n - 1], [0]]}, 60, coq=False))
    return out


def work_counts(spec, info):
    """iteration counts of the encoder's loops for this input (from the input, by formula)"""
    vs = spec["vars"]
    w = {"variables": len(vs), "constraints": len(spec["cons"]), "clauses": len(info["cnf"] or []),
         "exactly_one_pairs": max((hi - lo + 1) * (hi - lo) // 2 for _n, lo, hi in vs)}
    for c in spec["cons"]:
        k = c[0]
        if k in ("all_different", "circuit") and c[1]:
            vals = set()
            for i in set(c[1]):
                vals |= set(range(vs[i][1], vs[i][2] + 1)) if vs[i][2] - vs[i][1] < 10**5 else set()
            w["alldiff_values"] = max(w.get("alldiff_values", 0), len(vals))
            w["alldiff_values_x_vars"] = max(w.get("alldiff_values_x_vars", 0), len(vals) * len(c[1]))
        if k == "circuit":
            n = len(c[1])
            w["circuit_ordering"] = max(w.get("circuit_ordering", 0), n * (n - 1) * n * (n - 1) // 2)
        if k == "cmp":
            terms = {}
            lin_of(c[1], 1, terms)
            lin_of(c[2], -1, terms)
            nz = [i for i, a in terms.items() if a]
            w["lin_fold_rounds"] = max(w.get("lin_fold_rounds", 0), max(0, len(nz) - 2))
            if len(nz) >= 2:
                d = sorted((vs[i][2] - vs[i][1] + 1 for i in nz), reverse=True)
                w["lin_pair_loop"] = max(w.get("lin_pair_loop", 0), d[0] * d[1])

            def size(e):
                n, stack = 0, [e]
                while stack:
                    x = stack.pop()
                    n += 1
                    if x[0] not in ("var", "const"):
                        stack += [y for y in x[1:] if isinstance(y, list)]
                return n

            w["linearize_nodes"] = max(w.get("linearize_nodes", 0), size(c[1]) + size(c[2]))
        if k in ("sum_eq", "sum_le", "sum_ge"):
            w["sum_recursion_depth"] = max(w.get("sum_recursion_depth", 0), max(0, len(c[1]) - 2))
            if len(c[1]) >= 2:
                a, b = c[1][0], c[1][1]
                w["sum_pair_loop"] = max(w.get("sum_pair_loop", 0), (vs[a][2] - vs[a][1] + 1) * (vs[b][2] - vs[b][1] + 1))
        if k == "no_overlap":
            n = len(c[1])
            w["no_overlap_pairs"] = max(w.get("no_overlap_pairs", 0), n * (n - 1) // 2)
        if k == "cumulative" and c[1]:
            lo = min(vs[i][1] for i in c[1])
            hi = max(vs[i][2] + d for i, d in zip(c[1], c[2]))
            w["cumulative_time_points"] = max(w.get("cumulative_time_points", 0), hi - lo)
            w["cumulative_tasks"] = max(w.get("cumulative_tasks", 0), len(c[1]))
            w["cumulative_subset_clauses"] = max(w.get("cumulative_subset_clauses", 0),
                                                 sum(1 for cl in (info["cnf"] or []) if len(cl) >= 3 and all(l < 0 for l in cl)))
    return w


# ================================================================ round 3 - A2: in-place edits, destroyed siblings, duplicate names
def edited_spec(rng):
    """a Model that is solved, then extended in place (variables and constraints added through the public API), or one of whose
    constraints is replaced in place, or that is built right after a sibling of the same shape was encoded and destroyed"""
    C = base()
    while True:
        s = twin_spec(rng) if rng.random() < 0.4 else C.rand_spec(rng)
        if len(s["cons"]) >= 2:
            break
    s["family"] = "A2-edit"
    mode = rng.choice(["edit", "edit", "replace", "pre"])
    nv, nc = len(s["vars"]), len(s["cons"])
    if mode == "edit":
        ec = rng.randint(1, nc - 1)
        used = {i for c in s["cons"][:ec] for i in _vars_of(c)}
        ev = max(max(used, default=0) + 1, rng.randint(1, nv))
        s["edit"] = [min(ev, nv), ec]
    elif mode == "replace":
        k = rng.randrange(nc)
        newc = C.rand_constraint(rng, nv, rng.choice([s["cons"][k][0]] * 3 + [None]))
        s["replace"] = [k, newc]
    else:
        pre = copy.deepcopy({"vars": s["vars"], "cons": s["cons"]})
        for c in pre["cons"]:          # same shape, other constants
            if c[0] in ("sum_eq", "sum_le", "sum_ge"):
                c[2] += rng.choice([-1, 1, 2])
            elif c[0] == "cumulative":
                c[4] = max(0, c[4] + rng.choice([-1, 1]))
                c[3] = [d + rng.choice([0, 1]) for d in c[3]]
            elif c[0] in ("no_overlap",):
                c[2] = [d + 1 for d in c[2]]
            elif c[0] in ("all_different", "circuit"):
                c[1] = list(reversed(c[1]))
            elif c[0] == "cmp":
                c[2] = ["add", c[2], ["const", rng.choice([1, -1, 2])]]
        s["pre"] = pre
    return s


def _vars_of(c):
    if c[0] == "cmp":
        t = {}
        lin_of(c[1], 1, t)
        lin_of(c[2], 1, t)
        return set(t)
    return set(c[1])


def dup_names_case(rng):
    """(description of the input, verdict) for a Model in which two variables get the same name (explicitly, or through the library's own
    auto-naming '_v<k>').  Accepted outcomes: ValueError/TypeError, or a CNF in which EVERY variable object has exactly one value and
    whose models are exactly the solutions over the variable objects."""
    C = base()
    from solvor.cp import Model

    nv = rng.choice([2, 2, 3])
    doms = [(lo, lo + rng.randint(1, 2)) for lo in (rng.randint(-1, 1) for _ in range(nv))]
    auto = rng.random() < 0.3
    if auto:
        names = ["_v1"] + [None] * (nv - 1)
    else:
        names = [rng.choice(["x", "y"]) for _ in range(nv)]
        names[1] = names[0]
    spec = {"vars": [[nm, lo, hi] for nm, (lo, hi) in zip(names, doms)], "cons": []}
    for _ in range(rng.choice([1, 2])):
        while True:
            c = C.rand_constraint(rng, nv, rng.choice(["cmp", "cmp", "sum_eq", "sum_le", "all_different"]))
            if not isinstance(C.build_model({"vars": [[f"t{i}", lo, hi] for i, (lo, hi) in enumerate(doms)], "cons": [c]}), tuple):
                spec["cons"].append(c)
                break
    try:
        m = C.build_model(spec)
        if isinstance(m, tuple):
            return spec, None
        kind, cnf, _res = C.capture(m)
    except (ValueError, TypeError):
        return spec, None
    xs = m._verif_xs
    truth = {p for p in itertools.product(*[range(lo, hi + 1) for lo, hi in doms]) if all(C.holds(c, p) for c in spec["cons"])}
    if kind == "unsat":
        return spec, (f"INFEASIBLE although the model over the {nv} variable objects has solutions {sorted(truth)[:2]}" if truth else None)
    nvars = max([abs(l) for c in cnf for l in c] + [max(l for x in xs for l in x.bool_vars.values())])
    try:
        models = Cnf(cnf, nvars).models([], 5000)
    except (TooMany, Undecided):
        return spec, None
    got = set()
    for mdl in models:
        vals = [[v for v, l in x.bool_vars.items() if mdl[l - 1]] for x in xs]
        if any(len(t) != 1 for t in vals):
            return spec, f"a CNF model gives the variable objects the values {vals}: a variable whose name was taken again has no exactly-one clauses"
        got.add(tuple(t[0] for t in vals))
    if got != truth:
        return spec, f"CNF models {sorted(got - truth)[:2]} extra / {sorted(truth - got)[:2]} missing over the variable objects"
    return spec, None


# ================================================================ round 3 - X: float arguments
FLOATS = [float("inf"), float("-inf"), float("nan"), -0.0, 1e308, -1e308, 2.0**60, -(2.0**60), 0.5, 2.5, -1.5, 1e-9]


def float_spec(rng):
    """a small model in which numeric arguments are floats: integral floats (33.0 for 33), halves, +-inf, NaN, -0.0, 1e308, 2^60.
    The library may reject them (TypeError / ValueError) or must encode the constraint exactly as the evaluator reads it."""
    C = base()
    for _ in range(200):
        s = C.rand_spec(rng, rng.choice(["sum", "sum", "sched", "lin", "mix"]))
        changed = False
        for c in s["cons"]:
            def fl(x):
                r = rng.random()
                return float(x) if r < 0.45 else (x + rng.choice([0.5, -0.5, 0.25]) if r < 0.65 else rng.choice(FLOATS))
            if c[0] in ("sum_eq", "sum_le", "sum_ge") and rng.random() < 0.8:
                c[2] = fl(c[2])
                changed = True
            elif c[0] == "cumulative":
                r = rng.random()
                if r < 0.5:
                    c[4] = fl(c[4])
                elif r < 0.8:
                    c[3] = [float(d) if rng.random() < 0.6 else d + 0.5 for d in c[3]]
                else:
                    c[2] = [float(d) for d in c[2]]
                changed = True
            elif c[0] == "no_overlap" and rng.random() < 0.5:
                c[2] = [float(d) for d in c[2]]
                changed = True
            elif c[0] == "cmp" and rng.random() < 0.5:
                c[2] = ["add", c[2], ["const", rng.choice([0.0, 1.0, -0.0, 2.5])]]
                changed = True
        if rng.random() < 0.05:
            v = rng.choice(s["vars"])
            v[rng.choice([1, 2])] = float(v[1])
            changed = True
        if changed:
            s["family"] = "X"
            s["nocoq"] = True
            return s
    return None


def float_boundary_spec(rng):
    """float bounds right next to a reachable value (v +- 0.5, v +- 0.25, float(v), -0.0) for sums of 1..4 variables and for
    cumulative capacities / demands: rounding in the wrong direction or treating 3.0 unlike 3 shows here"""
    C = base()
    nv = rng.choice([1, 2, 2, 3, 4])
    vs = [[f"f{i}", lo, lo + rng.choice([1, 2, 3])] for i, lo in enumerate(rng.randint(-4, 2) for _ in range(nv))]
    pt = [rng.randint(lo, hi) for _, lo, hi in vs]
    frac = rng.choice([0.5, -0.5, 0.25, -0.25, 0.0, 0.0, -0.75])
    if rng.random() < 0.7:
        idx = [rng.randrange(nv) for _ in range(rng.choice([1, 2, 2, 2, 3, 4]))]
        tgt = float(sum(pt[i] for i in idx)) + frac
        if tgt == 0 and rng.random() < 0.5:
            tgt = -0.0
        cons = [[rng.choice(["sum_le", "sum_le", "sum_ge", "sum_ge", "sum_eq"]), idx, tgt]]
    else:
        tasks = [rng.randrange(nv) for _ in range(rng.choice([1, 2, 3]))]
        durs = [rng.randint(1, 3) for _ in tasks]
        dem = [rng.choice([1, 2, 1.0, 0.5, 1.5, 2.0]) for _ in tasks]
        load = max(sum(d for i, du, d in zip(tasks, durs, dem) if pt[i] <= t < pt[i] + du) for t in range(min(pt) - 1, max(pt) + 4))
        cons = [["cumulative", tasks, durs, dem, load + frac if rng.random() < 0.8 else float(int(load))]]
    return {"family": "X", "nocoq": True, "vars": vs, "cons": cons}


def observation_class(spec):
    """POLICY_X: inputs outside every property - judged observation-only (counted; never a violation or a known finding)"""
    def walk(x):
        if isinstance(x, float):
            return x != x or x in (float("inf"), float("-inf")) or abs(x) >= 1e300
        if isinstance(x, (list, tuple)):
            return any(walk(y) for y in x)
        return False
    if walk(spec["cons"]) or walk(spec["vars"]):
        return "nan-inf-or-overflowing-float"
    for c in spec["cons"]:
        if c[0] == "cumulative" and any(isinstance(d, float) for d in list(c[2]) + list(c[3])):
            return "float-durations-or-demands"
        if c[0] == "no_overlap" and any(isinstance(d, float) for d in c[2]):
            return "float-durations-or-demands"
    return None


def has_nan(spec):
    def walk(x):
        if isinstance(x, float):
            return x != x
        if isinstance(x, (list, tuple)):
            return any(walk(y) for y in x)
        return False
    return walk(spec["cons"])
