"""C16, round-3 families (HARDENING.md addendum): W work volume of every internal loop, A2 in-place edits of the caller's
objects between calls, X float extremes.  Helpers only; harness/props/C16.py drives them (imported lazily to avoid a cycle).

Loops of the anchored code and how their iteration count is maximised at moderate input size:
  knapsack  items (outer DP loop and backtracking loop)      many items, capacity <= 3
            columns (inner loop over w)                       integer capacity 2^20 + 2 with two or three items
            cells (items x columns)                           12 items x capacity 4*10^5 (10^6 in thorough)
            selected (appends in the backtracking loop)       thousands of free (zero-weight) valuable items
            fallback (sort + greedy loop)                     4100 items, two of them too heavy together by 1/2048
  bin_pack  items (validation loop, main loop)                unit sizes, capacity 1000
            bins / scans (inner loop over open bins)          4100 items of size cap-1, then 4100 of size 1: the j-th small item
                                                              lands in bin j after passing j full bins (first-fit) / all bins (best-fit)
Answers are known by construction (bin counts) or judged by the exact references of C16.py.
"""
import math
import sys
from fractions import Fraction

FMAX = Fraction(sys.float_info.max)
THRESHOLDS = [2**7, 2**10, 2**11, 2**12, 10**4, 10**5, 2**20]


def _B():
    from harness.props import C16
    return C16


_SEQ = {}


def reset():
    _SEQ.clear()


def _cycle(key, xs):
    """Deterministic round-robin over the sizes of a family, so every threshold is crossed in every run."""
    j = _SEQ[key] = _SEQ.get(key, -1) + 1
    return xs[j % len(xs)]


def _k(kind, cls, **kw):
    if "-W-" in cls:
        kw.setdefault("timeout", 150)      # deliberately heavy instances: the guard only has to cut real hangs
    return {"kind": kind, "cls": cls, **kw}


# ---------------------------------------------------------------- generators
def gen_knap_r3(rng, fam, thorough=False):
    B = _B()
    mz = rng.random() < 0.3
    if fam == "W-items":
        n = _cycle("knap-W-items", [10001, 4099, 4097] + ([10**5 + 1, 2**20 + 2] if thorough else []))
        cap = rng.randint(1, 3)
        weights = [0 if rng.random() < 0.01 else rng.randint(1, 4) for _ in range(n)]
        values = [rng.randint(0, 9) - (rng.choice([0, 0, 4]) if mz else 0) for _ in range(n)]
        # the best items sit at the very end, so a loop that stops early returns a worse (normal-looking) answer
        for j in range(1, cap + 1):
            weights[-j], values[-j] = 1, (-50 if mz else 50) - j
        return _k("knap", "r3-W-items", values=values, weights=weights, capacity=cap, minimize=mz)
    if fam == "W-cols":
        cap = rng.choice([2**20 + 2] + ([2**22 + 1] if thorough else []))
        tiny = [rng.randint(1, 3) for _ in range(rng.randint(1, 2))]
        weights = [cap - sum(tiny) - rng.choice([0, 0, 1])] + tiny
        values = [rng.randint(20, 90)] + [rng.randint(1, 5) for _ in tiny]
        if _cycle("knap-W-cols", [True, False]):
            # the heavy item LAST: its update at w = capacity reads the lowest columns, which the light items must have filled
            weights, values = weights[::-1], values[::-1]
        return _k("knap", "r3-W-cols", values=values, weights=weights, capacity=cap, minimize=False)
    if fam == "W-cells":
        cap = 10**6 if thorough else 400_000
        tiny = [rng.randint(1, 9) for _ in range(10)]
        weights = tiny[:5] + tiny[5:] + [cap - rng.randint(0, 3), cap - sum(tiny)]        # the item that completes the optimum comes last
        values = [rng.randint(1, 5) for _ in range(10)] + [rng.randint(20, 60), rng.randint(61, 90)]
        return _k("knap", "r3-W-cells", values=values, weights=weights, capacity=cap, minimize=False)
    if fam == "W-selected":
        n = rng.choice([4200, 5000] + ([10**5] if thorough else []))
        cap = rng.randint(0, 2)
        weights = [0 if rng.random() < 0.97 else rng.randint(1, 2) for _ in range(n)]
        values = [rng.randint(1, 9) for _ in range(n)]
        if mz:
            values = [-v for v in values]
        return _k("knap", "r3-W-selected", values=values, weights=weights, capacity=cap, minimize=mz)
    if fam == "W-fallback":
        n = 4100 if not thorough else 6000
        weights = [0.75048828125, 0.75] + [rng.choice([0, 0, 0, 2.0, 1.625]) for _ in range(n - 2)]
        values = [rng.randint(1, 9) for _ in range(n)]
        order = list(range(n))
        rng.shuffle(order)
        return _k("knap", "r3-W-fallback", values=[values[i] for i in order], weights=[weights[i] for i in order], capacity=1.5, minimize=False)
    if fam == "A2":
        c = B.gen_knap(rng, rng.choice(["int", "int", "dyadic", "fine"]))
        n = len(c["values"])
        init = {"values": list(c["values"]), "weights": list(c["weights"]), "capacity": c["capacity"], "minimize": c["minimize"]}
        r = rng.random()
        if r < 0.35 and n:          # same object, same length: one entry replaced
            j = rng.randrange(n)
            init["weights"][j] = rng.choice([0, 1, 2, 3, 5])
            init["values"][j] = rng.randint(0, 9)
        elif r < 0.55 and n:        # the final call sees an appended item
            init["values"].pop()
            init["weights"].pop()
        elif r < 0.7:               # ... or a removed one
            init["values"].append(rng.randint(5, 9))
            init["weights"].append(rng.choice([0, 1]))
        elif r < 0.85:              # same sequences, other capacity
            init["capacity"] = rng.choice([0, 1, 2, 5, 9])
        else:                       # other option and an edit
            init["minimize"] = not c["minimize"]
            if n:
                init["values"][rng.randrange(n)] = rng.randint(0, 9)
        return {**c, "cls": "r3-A2", "init": init}
    if fam == "X-cancel":
        n = rng.randint(3, 6)
        big = rng.choice([2.0**60, 2.0**53, 1e18, 2.0**80])
        values = [big, -big] + [float(rng.choice([1, -1, 3, -2, 0.5])) for _ in range(n - 2)]
        rng.shuffle(values)
        weights = [rng.randint(0, 3) for _ in range(n)]
        return _k("knap", "r3-X-cancel", values=values, weights=weights, capacity=rng.randint(0, 6), minimize=rng.random() < 0.6, x=True)
    if fam == "X-overflow":
        n = rng.randint(2, 5)
        values = [rng.choice([1e308, 8e307, 1.7e308, 5e307, 3.0]) for _ in range(n)]
        weights = [rng.randint(0, 2) for _ in range(n)]
        return _k("knap", "r3-X-overflow", values=values, weights=weights, capacity=rng.randint(1, 5), minimize=False, x=True)
    if fam == "X-nonfinite":
        c = B.gen_knap(rng, "int")
        if not c["values"]:
            c["values"], c["weights"] = [1], [1]
        bad = rng.choice([math.inf, -math.inf, math.nan])
        where = rng.choice(["values", "values", "weights", "capacity"])
        if where == "capacity":
            c["capacity"] = bad
        else:
            c[where] = list(c[where])
            c[where][rng.randrange(len(c[where]))] = bad
        return {**c, "cls": "r3-X-nonfinite", "x": True}
    if fam == "X-negzero":
        c = B.gen_knap(rng, rng.choice(["int", "dyadic"]))
        nz = lambda v: -0.0 if B.frac(v) == 0 and rng.random() < 0.8 else v  # noqa: E731
        c["values"] = [nz(v) for v in c["values"]]
        c["weights"] = [nz(w) if rng.random() < 0.7 else (-0.0 if rng.random() < 0.15 else w) for w in c["weights"]]
        if rng.random() < 0.4:
            c["capacity"] = -0.0
        return {**c, "cls": "r3-X-negzero"}
    if fam == "X-intfloat":
        c = B.gen_knap(rng, "int")
        c["values"] = [int(B.frac(v)) if B.is_intlike(v) else v for v in c["values"]]
        c["weights"] = [int(B.frac(w)) for w in c["weights"]]
        c["capacity"] = int(B.frac(c["capacity"]))
        which = rng.choice([("values",), ("weights",), ("capacity",), ("values", "capacity"), ("weights", "values"), ("capacity", "weights")])
        for a in which:
            c[a] = float(c[a]) if a == "capacity" else [float(v) for v in c[a]]
        return {**c, "cls": "r3-X-intfloat"}
    raise ValueError(fam)


def gen_bin_r3(rng, fam, thorough=False):
    B = _B()
    algo = rng.choice(B.MAIN_ALGOS)
    if fam == "W-items":
        n = _cycle("bin-W-items", [10001, 4099] + ([10**5 + 1, 2**20 + 2] if thorough else []))
        cap = 1000 if n <= 10**5 + 1 else 10**5
        c = _k("bin", "r3-W-items", sizes=[1] * n, capacity=cap, algorithm=algo if n <= 10**5 + 1 else rng.choice(["first-fit", "first-fit-decreasing"]))
        c["expect_k"] = -(-n // cap)
        return c
    if fam == "W-bins":
        k = 4100 if not thorough else rng.choice([4100, 4500])
        cap = rng.choice([10, 1000, 2**31])
        sizes = [cap - 1] * k + [1] * k
        if rng.random() < 0.5:          # the decreasing variants sort this themselves; the plain ones need the order as given
            algo = rng.choice(["first-fit-decreasing"] + (["best-fit-decreasing"] if thorough else []))
            rng.shuffle(sizes)
        else:
            algo = rng.choice(["first-fit"] + (["best-fit"] if thorough else []))
        c = _k("bin", "r3-W-bins", sizes=sizes, capacity=cap, algorithm=algo)
        c["expect_k"] = k
        return c
    if fam == "A2":
        c = B.gen_bin(rng, rng.choice(["int", "int", "dyadic"]))
        n = len(c["sizes"])
        init = {"sizes": list(c["sizes"]), "capacity": c["capacity"], "algorithm": rng.choice(B.MAIN_ALGOS)}
        r = rng.random()
        if r < 0.4 and n:
            init["sizes"][rng.randrange(n)] = rng.choice([0, c["capacity"]])
        elif r < 0.6 and n:
            init["sizes"].pop()
        elif r < 0.75:
            init["sizes"].append(c["capacity"])
        else:
            init["capacity"] = B.frac(c["capacity"]) * 2
            init["capacity"] = int(init["capacity"]) if init["capacity"].denominator == 1 else float(init["capacity"])
        return {**c, "cls": "r3-A2", "init": init, "call_lower_bound": rng.random() < 0.5}
    if fam == "X-big":
        u = 2.0 ** rng.choice([1014, 1010, 900, 600])
        M = rng.randint(2, 12)
        n = rng.randint(2, 8)
        sizes = [u * rng.randint(0, M) for _ in range(n)]
        if rng.random() < 0.4:
            for i in range(0, n - 1, 2):
                sizes[i + 1] = u * M - sizes[i]
        return _k("bin", "r3-X-big", sizes=sizes, capacity=u * M, algorithm=algo, x=True)
    if fam == "X-nonfinite":
        c = B.gen_bin(rng, "int")
        if not c["sizes"]:
            c["sizes"] = [1]
        r = rng.random()
        if r < 0.35:
            c["capacity"] = rng.choice([math.inf, math.nan])
        elif r < 0.8:
            c["sizes"] = list(c["sizes"])
            c["sizes"][rng.randrange(len(c["sizes"]))] = rng.choice([math.nan, math.inf, math.nan])
        else:
            c["capacity"] = math.inf
            c["sizes"] = list(c["sizes"])
            c["sizes"][rng.randrange(len(c["sizes"]))] = math.inf
        return {**c, "cls": "r3-X-nonfinite", "x": True}
    if fam == "X-negzero":
        c = B.gen_bin(rng, rng.choice(["int", "dyadic"]))
        c["sizes"] = [-0.0 if (B.frac(x) == 0 or rng.random() < 0.15) else x for x in c["sizes"]]
        if c["sizes"] and rng.random() < 0.4:
            c["sizes"][0] = -0.0
        return {**c, "cls": "r3-X-negzero"}
    if fam == "X-intfloat":
        c = B.gen_bin(rng, "int")
        c["sizes"] = [int(B.frac(x)) for x in c["sizes"]]
        c["capacity"] = int(B.frac(c["capacity"]))
        r = rng.random()
        if r < 0.4:
            c["capacity"] = float(c["capacity"])
        elif r < 0.8:
            c["sizes"] = [float(x) for x in c["sizes"]]
        else:
            c["sizes"] = [float(x) if i % 2 else x for i, x in enumerate(c["sizes"])]
            c["capacity"] = float(c["capacity"])
        return {**c, "cls": "r3-X-intfloat"}
    raise ValueError(fam)


#            family, quick, thorough
R3_KNAP = [("W-items", 3, 8), ("W-cols", 2, 4), ("W-cells", 1, 2), ("W-selected", 2, 6), ("W-fallback", 1, 2), ("A2", 60, 800),
           ("X-cancel", 6, 40), ("X-overflow", 6, 40), ("X-nonfinite", 10, 60), ("X-negzero", 24, 300), ("X-intfloat", 24, 300)]
R3_BIN = [("W-items", 2, 6), ("W-bins", 1, 4), ("A2", 60, 800), ("X-big", 6, 40), ("X-nonfinite", 10, 60), ("X-negzero", 24, 300),
          ("X-intfloat", 24, 300)]


# ---------------------------------------------------------------- in-place edits (A2)
def edit_in_place(lst, target):
    """Turn the list object `lst` into `target` by element assignments, pops and appends (same object, id unchanged)."""
    for i in range(min(len(lst), len(target))):
        if repr(lst[i]) != repr(target[i]):
            lst[i] = target[i]
    while len(lst) > len(target):
        lst.pop()
    for x in target[len(lst):]:
        lst.append(x)


# ---------------------------------------------------------------- oracles for non-finite / overflowing floats (X)
def _finite(x):
    return isinstance(x, int) or math.isfinite(x)


def _sat(fr):
    return math.inf if fr > FMAX else (-math.inf if fr < -FMAX else float(fr))


def oracle_knap_x(c, out):
    """Inputs with inf/NaN (the call may raise - anything but a hang - or must return an answer that obeys every clause
    that is still meaningful) and finite values whose sums overflow (no exception allowed; objective in float terms)."""
    B = _B()
    vals, ws, cap = list(c["values"]), list(c["weights"]), c["capacity"]
    all_finite = all(_finite(x) for x in vals + ws + [cap])
    if out[0] == "hang" or out[0] == "bad":
        return ("crash", f"{out!r}")
    if out[0] == "exc":
        if all_finite and not B.knap_should_raise(c):
            return ("crash", f"finite valid input -> {out!r}")
        return None
    sel, obj, status = out[1]
    n = len(vals)
    if any(not (0 <= i < n) for i in sel) or len(set(sel)) != len(sel) or sel != sorted(sel):
        return ("indices", f"selection {sel}")
    if len(ws) == n:
        sw = [ws[i] for i in sel]
        if any(isinstance(w, float) and math.isnan(w) for w in sw) or (isinstance(cap, float) and math.isnan(cap)):
            return ("capacity", f"answer returned although the weight/capacity comparison is undefined (NaN): selection {sel}")
        if all(_finite(w) for w in sw) and _finite(cap):
            if sum(B.frac(w) for w in sw) > B.frac(cap):
                return ("capacity", f"selection {sel} exceeds capacity {cap}")
        elif any(w == math.inf for w in sw) and cap != math.inf:
            return ("capacity", f"infinite weight selected with capacity {cap}")
        elif cap == -math.inf and sel:
            return ("capacity", "capacity -inf")
    expect = 0
    for i in sel:
        expect = expect + vals[i]
    of = obj if isinstance(obj, float) else float(obj) if abs(obj) <= FMAX else math.inf
    ef = float(expect) if not isinstance(expect, int) or abs(expect) <= FMAX else math.inf
    same = (math.isnan(of) and math.isnan(ef)) or of == ef or (math.isfinite(of) and math.isfinite(ef) and abs(of - ef) <= 1e-9 * max(1.0, abs(ef)))
    if not same:
        return ("objective", f"objective {obj!r} is not the float sum {expect!r} of the selected values")
    if status == "OPTIMAL" and all_finite and n <= 12 and all(B.frac(w) >= 0 for w in ws):
        fv = [B.frac(v) for v in vals]
        best = B._knap_best(fv, [B.frac(w) for w in ws], B.frac(cap), c["minimize"])
        got = sum(fv[i] for i in sel)
        gb, bb = _sat(got), _sat(best)
        slack = 1e-9 * max(1.0, abs(bb)) if math.isfinite(bb) else 0.0
        worse = gb > bb + slack if c["minimize"] else gb < bb - slack
        if worse:
            return ("optimal", f"labelled OPTIMAL with value {got}, a subset within capacity has {best} (also different as floats)")
    return None


def oracle_bin_x(c, out):
    B = _B()
    sizes, cap = list(c["sizes"]), c["capacity"]
    if out[0] in ("hang", "bad"):
        return ("crash", f"{out!r}")
    if out[0] == "exc":
        return None
    asg, k, status = out[1]
    n = len(sizes)
    if len(asg) != n or k.denominator != 1:
        return ("partition", f"{len(asg)} assignments / objective {k}")
    k = int(k)
    if any(not (0 <= b < k) for b in asg) or set(asg) != set(range(k)):
        return ("numbering", f"assignment {asg}, objective {k}")
    if isinstance(cap, float) and math.isnan(cap):
        return None                       # every comparison with the capacity is undefined; the structure was checked
    for b in range(k):
        inb = [sizes[i] for i in range(n) if asg[i] == b]
        if any(isinstance(x, float) and math.isnan(x) for x in inb):
            continue
        if cap == math.inf:
            continue
        if any(x == math.inf for x in inb):
            return ("capacity", f"infinite item in bin {b} of capacity {cap}")
        if sum(B.frac(x) for x in inb) > B.frac(cap) + B.EPS:
            return ("capacity", f"bin {b} over capacity")
    if status == "OPTIMAL" and k > 1:
        return ("optimal", f"OPTIMAL with {k} bins")
    return None


# ---------------------------------------------------------------- work counters (W)
def knap_work(c, out):
    B = _B()
    n = len(c["values"])
    if n == 0 or len(c["weights"]) != n or out[0] != "ok":
        return {}
    cells = B.knap_cells(c)
    return {"knap.items": n, "knap.columns": cells // max(n, 1), "knap.cells": cells, "knap.selected": len(out[1][0]),
            **({"knap.fallback_items": n} if out[1][2] == "FEASIBLE" else {})}


def bin_work(c, out):
    B = _B()
    n = len(c["sizes"])
    pa = B.parse_algo(c["algorithm"]) if isinstance(c.get("algorithm"), str) else None
    if n == 0 or out[0] != "ok" or pa is None:
        return {}
    asg, k, _ = out[1]
    bf, dec = pa
    order = sorted(range(n), key=lambda i: -B.frac(c["sizes"][i])) if dec else range(n)      # stable: ties keep index order
    opened, scans, worst = 0, 0, 0
    for i in order:
        if B.frac(c["sizes"][i]) == 0:
            opened = max(opened, 1)
            continue
        b = asg[i]
        s = opened if (bf or b >= opened) else b + 1
        scans += s
        worst = max(worst, s)
        opened = max(opened, b + 1)
    return {"bin.items": n, "bin.bins": int(k), "bin.scans_total": scans, "bin.scans_one_item": worst}
